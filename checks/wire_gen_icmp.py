"""Structured generators of the Icmp family: ICMP (+ RFC 4884 length / padding / extension structure) and ICMPv6
(+ neighbour-discovery options, MLD query / MLDv2 report records, RFC 4884 extensions).

gen_parse: packets built byte by byte here (independently of libtins) + targeted mutants.
gen_build: API programs (new / push / set / show) over stacks and values the protocols can express.
"""
import struct

LENS = [0, 1, 2, 3, 4, 7, 8, 9, 38, 39, 40, 253, 254, 255]
ICMP_EXT_TYPES = [3, 11, 12]
ICMP6_EXT_TYPES = [1, 3]
ICMP6_OPT_TYPES = [133, 134, 135, 136, 137]


def hexs(b):
    return bytes(b).hex() if b else "-"


def rb(rng, n):
    return bytes(rng.randrange(256) for _ in range(n))


def be16(v):
    return struct.pack("!H", v & 0xffff)


def be32(v):
    return struct.pack("!I", v & 0xffffffff)


def rfc1071(b):
    """the Internet checksum of RFC 1071 (big-endian words, odd byte padded on the right)"""
    if len(b) % 2:
        b = b + b"\0"
    s = sum(struct.unpack("!%dH" % (len(b) // 2), b))
    while s >> 16:
        s = (s & 0xffff) + (s >> 16)
    return (~s) & 0xffff


def ip6(rng):
    return rng.choice([bytes(16), b"\xff\x02" + bytes(13) + b"\x01", b"\xfe\x80" + bytes(6) + rb(rng, 8), rb(rng, 16)])


# ------------------------------------------------------------------------------------------------ extension structures

def ext_object(rng, cls=None, typ=None, payload=None, length=None):
    payload = rb(rng, rng.choice([0, 1, 3, 4, 5, 8, 12, 16])) if payload is None else payload
    cls = rng.choice([1, 2, 3, rng.randrange(256)]) if cls is None else cls
    typ = rng.choice([1, 2, rng.randrange(256)]) if typ is None else typ
    length = 4 + len(payload) if length is None else length
    return be16(length) + bytes([cls, typ]) + payload


def mpls_ext_object(rng):
    """RFC 4950: class 1, c-type 1, a stack of 4-byte label entries"""
    n = rng.randint(1, 3)
    return ext_object(rng, 1, 1, b"".join(be32((rng.randrange(1 << 20) << 12) | (rng.randrange(8) << 9) | ((i == n - 1) << 8) |
                                                rng.randrange(256)) for i in range(n)))


def ext_structure(rng, objs=None, version=2, reserved=0, cksum=None):
    if objs is None:
        objs = [rng.choice([ext_object, mpls_ext_object])(rng) for _ in range(rng.choice([1, 1, 1, 2, 3]))]
    body = b"".join(objs)
    head = be16((version << 12) | reserved)
    c = rfc1071(head + b"\0\0" + body) if cksum is None else cksum
    return head + be16(c) + body


def carry_ext_structure(rng):
    """a structure whose one's complement sum passes 0xffff when the first word is added to the sum of the rest
    (DESIGN §7 #16): little-endian word sum of the objects = 0xffe0 .. 0xffff"""
    # object: length 8, class 1, type 1, payload p0 p1 p2 p3; LE words 0x0800 + 0x0101 + (p1<<8|p0) + (p3<<8|p2)
    want = rng.choice([0xffe0, 0xffe1, 0xfff0, 0xffff]) - 0x0901
    w2 = rng.randrange(0, want + 1)
    w1 = want - w2
    pl = bytes([w1 & 255, w1 >> 8, w2 & 255, w2 >> 8])
    return ext_structure(rng, [ext_object(rng, 1, 1, pl)])


def bad_ext_structures(rng):
    """extension areas around the validity conditions"""
    good = ext_structure(rng)
    out = [good, carry_ext_structure(rng)]
    out.append(ext_structure(rng, []))                                         # header only, valid checksum
    out.append(ext_structure(rng, [], version=rng.choice([0, 1, 3, 15]), reserved=rng.choice([0, 1, 0xfff])))
    out.append(good[:2] + be16((struct.unpack("!H", good[2:4])[0] + 1) & 0xffff) + good[4:])   # checksum off by one
    for ln in [0, 1, 3, 4, 5, 65535]:                                           # object length field
        out.append(ext_structure(rng, [ext_object(rng, payload=rb(rng, 4), length=ln)]))
    out.append(ext_structure(rng, [ext_object(rng, payload=rb(rng, 4), length=12)]))            # object overruns the area
    out.append(ext_structure(rng, [ext_object(rng), b"\x00"]))                                   # trailing partial object
    out.append(ext_structure(rng, [ext_object(rng), b"\x00\x04\x01"]))
    out.append(good[:3])
    out.append(good[:4])
    return out


# ------------------------------------------------------------------------------------------------ ICMP

def icmp_header(t, code, rest):
    return bytes([t & 255, code & 255, 0, 0]) + rest


def with_icmp_checksum(b):
    c = rfc1071(b[:2] + b"\0\0" + b[4:])
    return b[:2] + be16(c) + b[4:]


def icmp_plain(rng):
    t = rng.choice([0, 8, 4, 5, 15, 16, 42, 43, 9, 10, rng.randrange(256)])
    while t in (3, 11, 12, 13, 14, 17, 18):
        t = rng.randrange(256)
    b = icmp_header(t, rng.choice([0, 1, rng.randrange(256)]), rb(rng, 4)) + rb(rng, rng.choice(LENS + [rng.randint(0, 64)]))
    return with_icmp_checksum(b) if rng.random() < 0.7 else b


def icmp_timestamp(rng):
    b = icmp_header(rng.choice([13, 14]), 0, rb(rng, 4)) + rng.choice([be32(0) * 3, rb(rng, 12), be32(0xffffffff) + be32(1) + be32(0x80000000)])
    b += rb(rng, rng.choice([0, 0, 0, 1, 5]))
    return with_icmp_checksum(b)


def icmp_mask(rng):
    b = icmp_header(rng.choice([17, 18]), 0, rb(rng, 4)) + rng.choice([b"\xff\xff\xff\x00", rb(rng, 4)]) + rb(rng, rng.choice([0, 0, 1, 4]))
    return with_icmp_checksum(b)


def quoted_datagram(rng, n):
    """the start of an IPv4 datagram, n bytes"""
    ip = bytes([0x45, 0]) + be16(max(n, 20)) + rb(rng, 4) + bytes([rng.randrange(1, 255), rng.choice([1, 6, 17])]) + be16(0) + rb(rng, 8)
    return (ip + rb(rng, max(0, n - 20)))[:n]


def icmp_error(rng, ext=None, payload_len=None, length_field=None, t=None):
    t = rng.choice(ICMP_EXT_TYPES) if t is None else t
    if payload_len is None:
        payload_len = rng.choice([0, 8, 28, 64, 124, 127, 128, 129, 131, 132, 136, 140, rng.randint(0, 160)])
    pl = quoted_datagram(rng, payload_len)
    if length_field is None:
        length_field = rng.choice([0, 0, (payload_len + 3) // 4, payload_len // 4, 32, 33, 1, 255, rng.randrange(256)])
    rest = bytes([rng.choice([0, rng.randrange(256)]), length_field & 255]) + rng.choice([b"\0\0", rb(rng, 2)])
    b = icmp_header(t, rng.choice([0, 1, 3, 4]), rest) + pl + (ext or b"")
    return with_icmp_checksum(b)


def icmp_with_ext(rng):
    """RFC 4884 compliant: payload zero-padded to at least 128 bytes and a multiple of 4, length field set (or 0 = the
    non-compliant but tolerated form with exactly 128 bytes)"""
    k = rng.random()
    ext = rng.choice(bad_ext_structures(rng)) if k < 0.45 else ext_structure(rng)
    if rng.random() < 0.5:
        return icmp_error(rng, ext, 128, rng.choice([0, 32]))
    n = rng.choice([128, 132, 136, 140, 160])
    return icmp_error(rng, ext, n, rng.choice([n // 4, n // 4, 0, n // 4 + 1, n // 4 - 1, 255]))


def icmp_all_types():
    ops = []
    body = bytes(range(1, 41))
    for t in range(256):
        ops.append(f"parse ICMP {hexs(with_icmp_checksum(icmp_header(t, 0, bytes([0, 0, 0, 7])) + body))}")
    return ops


# ------------------------------------------------------------------------------------------------ ICMPv6

def nd_option(rng, code=None):
    """a well-formed neighbour discovery option: total length a multiple of 8"""
    code = rng.choice([1, 2, 3, 4, 5, 6, 7, 8, 9, 10, 12, 13, 14, 17, 19, 20, 23, 24, 25, 27, 28, 29, 30, 31,
                       rng.randrange(256)]) if code is None else code
    if code in (1, 2):
        data = rb(rng, 6)
    elif code == 3:
        data = bytes([rng.choice([0, 64, 128]), rng.choice([0, 0x40, 0x80, 0xc0, rng.randrange(256)])]) + be32(rng.randrange(1 << 32)) + \
               be32(rng.randrange(1 << 32)) + rng.choice([bytes(4), rb(rng, 4)]) + ip6(rng)
    elif code in (5, 6, 7, 8, 20):
        data = rb(rng, 6)
    elif code in (9, 10):
        data = rb(rng, 6) + b"".join(ip6(rng) for _ in range(rng.randint(1, 3)))
    elif code == 12:
        n = rng.choice([4, 12, 20])
        data = bytes(2) + rb(rng, 16) + rb(rng, n)
    elif code == 13:
        data = rb(rng, 6) + rb(rng, 8)
    elif code in (17, 23):
        data = rb(rng, 2) + rng.choice([bytes(4), rb(rng, 4)]) + ip6(rng)
    elif code == 24:
        data = bytes([rng.choice([0, 64, 128]), rng.randrange(256)]) + be32(rng.randrange(1 << 32)) + rb(rng, rng.choice([0, 8, 16]))
    elif code == 25:
        data = bytes(2) + be32(rng.randrange(1 << 32)) + b"".join(ip6(rng) for _ in range(rng.randint(1, 3)))
    elif code == 27:
        key = rb(rng, rng.choice([4, 5, 8, 12]))
        pad = (8 - (len(key) + 4) % 8) % 8
        data = bytes([pad, rng.randrange(4) << 4]) + key + bytes(pad)
    elif code == 28:
        key = rb(rng, rng.choice([2, 3, 10]))
        pad = (8 - (len(key) + 6) % 8) % 8
        data = bytes([pad, rng.randrange(4) << 4]) + rb(rng, 2) + key + bytes(pad)
    elif code in (29, 30):
        v = rb(rng, rng.choice([1, 4, 5, 12]))
        pad = (8 - (len(v) + 4) % 8) % 8
        data = bytes([rng.randrange(256), len(v)]) + v + bytes(pad)
    elif code == 31:
        names = b""
        for _ in range(rng.randint(1, 3)):
            for _ in range(rng.randint(1, 3)):
                lab = bytes(rng.choice(b"abcxyz019-") for _ in range(rng.randint(1, 6)))
                names += bytes([len(lab)]) + lab
            names += b"\0"
        body = bytes(2) + be32(rng.randrange(1 << 32)) + names
        data = body + bytes((8 - (len(body) + 2) % 8) % 8)
    else:
        data = rb(rng, rng.choice([6, 14, 22, 38, 254, 2038]))
    assert (len(data) + 2) % 8 == 0, (code, len(data))
    return bytes([code, (len(data) + 2) // 8]) + data


def nd_options(rng):
    return b"".join(nd_option(rng) for _ in range(rng.choice([0, 1, 1, 2, 3, 5])))


def bad_nd_options(rng):
    """option lists around the loop's checks: length byte 0, 1 (6 data bytes), 255, data cut short, one stray byte"""
    good = nd_options(rng)
    k = rng.randrange(8)
    if k == 0:
        return good + bytes([rng.randrange(256), 0]) + rb(rng, 6)
    if k == 1:
        return good + bytes([rng.randrange(256)])
    if k == 2:
        return good + bytes([rng.randrange(256), 255]) + rb(rng, rng.choice([0, 6, 2037, 2038, 2039]))
    if k == 3:
        o = nd_option(rng)
        return good + o[:rng.randint(2, len(o))]
    if k == 4:
        o = bytearray(nd_option(rng))
        o[1] = rng.choice([0, 1, 2, 3, 4, 7, 8, 9, 38, 39, 40, 253, 254, 255])
        return good + bytes(o) + nd_options(rng)
    if k == 5:                                                                    # typed option with a data size its decoder rejects
        code = rng.choice([1, 2, 3, 5, 6, 7, 8, 9, 12, 13, 17, 19, 20, 23, 24, 25, 27, 28, 29, 30, 31])
        data = rb(rng, rng.choice([6, 14, 22, 30, 38]))
        if code in (27, 28, 29, 30) and rng.random() < 0.7:
            data = bytes([rng.choice([0, 1, 5, 12, 13, 200, 255]), rng.choice([0, 1, 4, 12, 255])]) + data[2:]
        return good + bytes([code, (len(data) + 2) // 8]) + data
    if k == 6:                                                                    # DNS search list decoder corner cases
        tail = rng.choice([b"\x03abc", b"\x03ab", b"\x01a\x00\x05xy", b"\xff" + b"a" * 10, b"\x00\x00", b"\x01a\x01b",
                           b"\x02ab\x00\x01c\x00", b"\x05abcde"])
        body = bytes(2) + be32(rng.randrange(1 << 32)) + tail
        body += bytes((8 - (len(body) + 2) % 8) % 8) if rng.random() < 0.7 else b""
        while (len(body) + 2) % 8:
            body += rng.choice([b"\0", b"\x01", b"a"])
        return good + bytes([31, (len(body) + 2) // 8]) + body
    return good + nd_options(rng)


def icmp6_hdr(t, code, rest):
    return bytes([t & 255, code & 255, 0, 0]) + rest


def icmp6_nd(rng, t=None, opts=None):
    t = rng.choice(ICMP6_OPT_TYPES) if t is None else t
    b = icmp6_hdr(t, 0, rb(rng, 4) if t != 136 else bytes([rng.choice([0, 0x20, 0x40, 0x80, 0xe0, 0xff])]) + bytes(3))
    if t in (135, 136, 137):
        b += ip6(rng)
    if t == 137:
        b += ip6(rng)
    if t == 134:
        b += be32(rng.randrange(1 << 32)) + be32(rng.randrange(1 << 32))
    return b + (nd_options(rng) if opts is None else opts)


def mld_record(rng, nsrc=None, auxw=None, cnt=None):
    nsrc = rng.choice([0, 0, 1, 2, 3]) if nsrc is None else nsrc
    auxw = rng.choice([0, 0, 0, 1, 2]) if auxw is None else auxw
    return bytes([rng.choice([1, 2, 3, 4, 5, 6, rng.randrange(256)]), auxw]) + be16(nsrc if cnt is None else cnt) + ip6(rng) + \
        b"".join(ip6(rng) for _ in range(nsrc)) + rb(rng, auxw * 4)


def icmp6_mld2_report(rng):
    n = rng.choice([0, 1, 1, 2, 3])
    recs = [mld_record(rng) for _ in range(n)]
    k = rng.random()
    cnt = n
    if k < 0.15:
        cnt = rng.choice([n + 1, max(0, n - 1), 65535])
    elif k < 0.3 and n:
        recs[-1] = mld_record(rng, nsrc=1, cnt=rng.choice([0, 2, 3, 65535]))
    elif k < 0.4 and n:
        r = bytearray(mld_record(rng, auxw=1))
        r[1] = rng.choice([2, 255])
        recs[-1] = bytes(r)
    tail = rb(rng, rng.choice([0, 0, 0, 1, 4, 19, 20]))
    return icmp6_hdr(143, 0, rb(rng, 2) + be16(cnt)) + b"".join(recs) + tail


def icmp6_mld_query(rng):
    b = icmp6_hdr(130, 0, be16(rng.randrange(65536)) + rb(rng, 2)) + ip6(rng)
    k = rng.random()
    if k < 0.3:
        return b                                                               # MLDv1
    n = rng.choice([0, 0, 1, 2, 4])
    cnt = n if rng.random() < 0.8 else rng.choice([n + 1, max(0, n - 1), 65535])
    b += bytes([rng.randrange(256), rng.randrange(256)]) + be16(cnt) + b"".join(ip6(rng) for _ in range(n))
    if rng.random() < 0.2:
        b += rb(rng, rng.choice([1, 3, 15, 16, 17]))
    if rng.random() < 0.1:
        b = b[:24 + rng.choice([1, 2, 3])]                                      # cut inside the MLDv2 fixed part
    return b


def icmp6_error(rng, ext=None, payload_len=None, length_field=None):
    t = rng.choice(ICMP6_EXT_TYPES)
    if payload_len is None:
        payload_len = rng.choice([0, 8, 48, 120, 127, 128, 129, 135, 136, 144, 152, rng.randint(0, 170)])
    pl = bytes([0x60, 0, 0, 0]) + rb(rng, max(0, payload_len - 4))
    pl = pl[:payload_len]
    if length_field is None:
        length_field = rng.choice([0, 0, (payload_len + 7) // 8, payload_len // 8, 16, 17, 1, 255, rng.randrange(256)])
    return icmp6_hdr(t, rng.choice([0, 1, 4]), bytes([length_field & 255]) + rng.choice([bytes(3), rb(rng, 3)])) + pl + (ext or b"")


def icmp6_with_ext(rng):
    ext = rng.choice(bad_ext_structures(rng)) if rng.random() < 0.45 else ext_structure(rng)
    if rng.random() < 0.5:
        return icmp6_error(rng, ext, 128, rng.choice([0, 16]))
    n = rng.choice([128, 136, 144, 160])
    return icmp6_error(rng, ext, n, rng.choice([n // 8, n // 8, 0, n // 8 + 1, n // 8 - 1, 255]))


def icmp6_plain(rng):
    t = rng.choice([128, 129, 2, 4, 131, 132, 138, 139, 140, 144, 151, 155, 160, rng.randrange(256)])
    while t in (1, 3, 130, 133, 134, 135, 136, 137, 143):
        t = rng.randrange(256)
    return icmp6_hdr(t, rng.choice([0, rng.randrange(256)]), rb(rng, 4)) + rb(rng, rng.choice(LENS + [rng.randint(0, 64)]))


def icmp6_all_types():
    ops = []
    body = bytes([1, 1]) + bytes(range(1, 7)) + bytes(range(40, 72))
    for t in range(256):
        ops.append(f"parse ICMPv6 {hexs(icmp6_hdr(t, 0, bytes([0, 0, 0, 1])) + body)}")
    return ops


def pseudo6_checksum(src, dst, msg):
    ps = src + dst + be32(len(msg)) + bytes(3) + bytes([58])
    c = rfc1071(ps + msg[:2] + b"\0\0" + msg[4:])
    return msg[:2] + be16(c) + msg[4:]


def ipv6_over(rng, msg):
    src, dst = ip6(rng), ip6(rng)
    msg = pseudo6_checksum(src, dst, msg)
    hdr = bytes([0x60, 0, 0, 0]) + be16(len(msg)) + bytes([58, rng.choice([1, 64, 255])]) + src + dst
    return hdr + msg


def ipv4_over(rng, msg):
    hdr = bytes([0x45, 0]) + be16(20 + len(msg)) + rb(rng, 2) + be16(0) + bytes([64, 1]) + be16(0) + rb(rng, 4) + rb(rng, 4)
    hdr = hdr[:10] + be16(rfc1071(hdr)) + hdr[12:]
    return hdr + msg


ICMP_BUILDERS = [(icmp_plain, 3), (icmp_timestamp, 2), (icmp_mask, 2), (icmp_error, 4), (icmp_with_ext, 5)]
ICMP6_BUILDERS = [(icmp6_plain, 2), (icmp6_nd, 5), (lambda r: icmp6_nd(r, opts=bad_nd_options(r)), 4), (icmp6_mld2_report, 3),
                  (icmp6_mld_query, 3), (icmp6_error, 3), (icmp6_with_ext, 4)]


def pick(rng, builders):
    fs, ws = zip(*builders)
    return rng.choices(fs, ws)[0](rng)


def mutate(rng, b):
    b = bytearray(b)
    if not b:
        return bytes(rb(rng, rng.randint(0, 9)))
    k = rng.random()
    if k < 0.3:
        return bytes(b[:rng.randint(0, len(b))])
    if k < 0.5:
        i = rng.randrange(len(b)); b[i] ^= 1 << rng.randrange(8)
        return bytes(b)
    if k < 0.75:
        i = rng.randrange(min(len(b), 12) if rng.random() < 0.5 else len(b))
        b[i] = rng.choice([0, 1, 2, 3, 4, 7, 8, 9, 16, 17, 31, 32, 33, 0x7f, 0x80, 0xfe, 0xff])
        return bytes(b)
    if k < 0.9:
        return bytes(b) + rb(rng, rng.randint(1, 12))
    i = rng.randrange(len(b))
    del b[i]
    return bytes(b)


def exhaustive_small():
    ops = icmp_all_types() + icmp6_all_types()
    # every ICMP / ICMPv6 RFC 4884 length value on a 136-byte quote followed by a valid extension structure
    import random
    r = random.Random(4884)
    ext = ext_structure(r, [ext_object(r, 1, 1, bytes([0, 1, 2, 3]))])
    for lf in list(range(0, 40)) + [64, 128, 255]:
        ops.append(f"parse ICMP {hexs(icmp_error(r, ext, 136, lf, t=11))}")
        ops.append(f"parse ICMPv6 {hexs(icmp6_error(r, ext, 136, lf))}")
    # KF-C03-Icmp-1 (reproduced on every run): the length field names a place where no extension structure validates, the
    # quote is not a multiple of the length unit, and a valid structure sits at offset 128
    ops.append(f"parse ICMP {hexs(icmp_error(r, ext_structure(r, [ext_object(r, 1, 1, bytes(5))]), 128, 33, t=11))}")
    ops.append(f"parse ICMPv6 {hexs(icmp6_error(r, ext_structure(r, [ext_object(r, 1, 1, bytes(4))]), 128, 17))}")
    # regressions of the defects fixed in this family (known_findings.d/wire_icmp.jsonl): a structure whose word sum is
    # exactly 0x10000 with the RFC 1071 checksum and with the checksum the unfolded test used to accept (KF-C03-Icmp-1);
    # a bare extension header with version 3 (KF-C03-Icmp-2)
    quote = bytes(range(128))
    ops.append(f"parse ICMP {hexs(with_icmp_checksum(icmp_header(11, 0, bytes(4)) + quote + bytes.fromhex('2000fffe00080101dff60000')))}")
    ops.append(f"parse ICMP {hexs(with_icmp_checksum(icmp_header(11, 0, bytes(4)) + quote + bytes.fromhex('2000ffff00080101dff60000')))}")
    ops.append(f"parse ICMPv6 {hexs(icmp6_hdr(1, 0, bytes(4)) + quote + bytes.fromhex('3000cfff'))}")
    # every ND option length byte on a 40-byte option area
    for l in range(256):
        ops.append(f"parse ICMPv6 {hexs(icmp6_hdr(133, 0, bytes(4)) + bytes([1, l]) + bytes(range(38)))}")
    return ops


def private_rng(rng, salt):
    """a generator of its own, derived from the shared one WITHOUT advancing it: the streams of the families that come
    after this one in `wire_checks.family_gens()` stay what they are without the Icmp family"""
    import random
    return random.Random(f"{salt}:{rng.getstate()[1][:4]}")


def gen_parse(rng, n):
    import os
    if os.environ.get("WIRE_GEN_ICMP_OFF"):
        return []
    rng = private_rng(rng, "icmp-parse")
    ops = exhaustive_small()
    target = n + len(ops)
    while len(ops) < target:
        v6 = rng.random() < 0.55
        b = pick(rng, ICMP6_BUILDERS if v6 else ICMP_BUILDERS)
        cls = "ICMPv6" if v6 else "ICMP"
        k = rng.random()
        if k < 0.5:
            ops.append(f"parse {cls} {hexs(b)}")
        elif k < 0.8:
            for _ in range(rng.choice([1, 1, 2])):
                b = mutate(rng, b)
            ops.append(f"parse {cls} {hexs(b)}")
        elif k < 0.9:                                                           # every prefix (bounded)
            step = max(1, len(b) // 20)
            for i in range(0, len(b) + 1, step):
                ops.append(f"parse {cls} {hexs(b[:i])}")
        else:                                                                   # nested: IPv6 / ICMPv6, IP / ICMP
            ops.append(f"parse IPv6 {hexs(ipv6_over(rng, b))}" if v6 else f"parse IP {hexs(ipv4_over(rng, b))}")
    return ops


# ------------------------------------------------------------------------------------------------ API programs

def u(rng, bits):
    m = (1 << bits) - 1
    return rng.choice([0, 1, m, m - 1, 1 << (bits - 1), rng.randrange(m + 1)])


def ext_ops(rng, i):
    ops = []
    for _ in range(rng.choice([1, 1, 2, 3])):
        pl = rb(rng, rng.choice([0, 4, 4, 8, 12, 16, 3, 5]))
        if rng.random() < 0.25:                                                 # the sum of the structure straddles 0xffff
            pl = b"\xdf\xf6" + bytes(2) if rng.random() < 0.5 else b"\xff\xff\xff\xff"
        ops.append(f"set {i} add_extension {rng.choice([1, 2, rng.randrange(256)])} {rng.choice([1, rng.randrange(256)])} {hexs(pl)}")
    if rng.random() < 0.2:
        ops.append(f"set {i} ext_reserved {u(rng, 12)}")
    return ops


def payload_op(rng, lens):
    n = rng.choice(lens)
    return f"push RawPDU {hexs(rb(rng, n))}"


def prog_icmp(rng):
    k = rng.random()
    ops = []
    if k < 0.3:                                                                # echo / info / others with a payload
        t = rng.choice([0, 8, 15, 16, 4, 5, 42, 43, rng.choice([1, 2, 6, 7, 9, 10, 19, 40, 255])])
        ops.append(rng.choice([f"push ICMP {t}", "push ICMP"]))
        if ops[0] == "push ICMP":
            t = 8
        for _ in range(rng.randint(0, 4)):
            ops.append(rng.choice([f"set 0 id {u(rng, 16)}", f"set 0 sequence {u(rng, 16)}", f"set 0 code {u(rng, 8)}",
                                   f"set 0 gateway {hexs(rb(rng, 4))}", f"set 0 mtu {u(rng, 16)}", f"set 0 pointer {u(rng, 8)}",
                                   f"set 0 set_echo_request {u(rng, 16)} {u(rng, 16)}", f"set 0 set_echo_reply {u(rng, 16)} {u(rng, 16)}",
                                   f"set 0 set_info_request {u(rng, 16)} {u(rng, 16)}", f"set 0 set_info_reply {u(rng, 16)} {u(rng, 16)}",
                                   "set 0 set_source_quench", f"set 0 set_redirect {u(rng, 8)} {hexs(rb(rng, 4))}"]))
        if rng.random() < 0.8:
            ops.append(payload_op(rng, LENS[:11] + [rng.randint(0, 64)]))
    elif k < 0.45:                                                             # timestamp / address mask
        if rng.random() < 0.6:
            ops.append(f"push ICMP {rng.choice([13, 14])}")
            for name in rng.sample(["original_timestamp", "receive_timestamp", "transmit_timestamp"], rng.randint(0, 3)):
                ops.append(f"set 0 {name} {u(rng, 32)}")
        else:
            ops.append(f"push ICMP {rng.choice([17, 18])}")
            if rng.random() < 0.8:
                ops.append(f"set 0 address_mask {hexs(rng.choice([bytes([255, 255, 255, 0]), rb(rng, 4)]))}")
        ops.append(f"set 0 id {u(rng, 16)}")
        if rng.random() < 0.3:
            ops.append(payload_op(rng, [1, 4, 9]))
    else:                                                                      # RFC 4884 types
        t = rng.choice(ICMP_EXT_TYPES)
        ops.append(f"push ICMP {t}" if rng.random() < 0.7 else "push ICMP")
        if ops[0] == "push ICMP":
            ops.append(rng.choice(["set 0 set_dest_unreachable", f"set 0 set_time_exceeded {rng.randrange(2)}",
                                   f"set 0 set_param_problem {rng.randrange(2)} {u(rng, 8)}"]))
        if rng.random() < 0.4:
            ops.append(rng.choice([f"set 0 code {u(rng, 8)}", f"set 0 mtu {u(rng, 16)}", f"set 0 pointer {u(rng, 8)}"]))
        with_ext = rng.random() < 0.6
        # a quoted datagram: the length field has 32-bit units, so only multiples of 4 can be expressed when it is in use
        n = rng.choice([4, 8, 28, 64, 124, 128, 132, 136, 140, 256, rng.randrange(1, 40) * 4])
        if not with_ext and rng.random() < 0.3:
            n = rng.choice([1, 2, 3, 5, 7, 9, 39, 127])                        # no length field: any size
            use_len = False
        else:
            use_len = rng.random() < 0.4
        if with_ext:
            ops += ext_ops(rng, 0)
        if use_len:
            ops.append("set 0 use_length_field 1")
        ops.append(f"push RawPDU {hexs(quoted_datagram(rng, n))}")
        if with_ext and rng.random() < 0.3:
            ops += ["show"] + ext_ops(rng, 0)
    return ops


def typed_option_op(rng, i):
    """a typed option setter with values the option can carry"""
    k = rng.randrange(24)
    if k == 0:
        return f"set {i} source_link_layer_addr {hexs(rb(rng, 6))}"
    if k == 1:
        return f"set {i} target_link_layer_addr {hexs(rb(rng, 6))}"
    if k == 2:
        return f"set {i} prefix_info {u(rng, 8)} {rng.randrange(2)} {rng.randrange(2)} {u(rng, 32)} {u(rng, 32)} {hexs(ip6(rng))}"
    if k == 3:
        return f"set {i} redirect_header {hexs(rb(rng, rng.choice([6, 14, 46, 54])))}"
    if k == 4:
        return f"set {i} mtu {u(rng, 16)} {u(rng, 32)}"
    if k == 5:
        return f"set {i} shortcut_limit {u(rng, 8)} {u(rng, 8)} {u(rng, 32)}"
    if k == 6:
        return f"set {i} new_advert_interval {u(rng, 16)} {u(rng, 32)}"
    if k == 7:
        return f"set {i} new_home_agent_info {u(rng, 16)},{u(rng, 16)},{u(rng, 16)}"
    if k in (8, 9):
        name = "source_addr_list" if k == 8 else "target_addr_list"
        # 1 … 127 addresses: the length octet counts units of 8 octets (8 + 16 n <= 2040)
        cnt = rng.choice([1, 1, 2, 3, 3, 126, 127]) if rng.random() < 0.15 else rng.randint(1, 3)
        return f"set {i} {name} {hexs(rng.choice([bytes(6), rb(rng, 6)]))} {','.join(hexs(ip6(rng)) for _ in range(cnt))}"
    if k == 10:
        return f"set {i} rsa_signature {hexs(rb(rng, 16))} {hexs(rb(rng, rng.choice([1, 3, 4, 5, 6, 12, 13, 20, 128])))}"
    if k == 11:
        return f"set {i} timestamp {hexs(rng.choice([bytes(6), rb(rng, 6)]))} {u(rng, 64)}"
    if k == 12:
        return f"set {i} nonce {hexs(rb(rng, rng.choice([6, 14, 22])))}"
    if k == 13:
        return f"set {i} ip_prefix {u(rng, 8)} {u(rng, 8)} {hexs(ip6(rng))}"
    if k == 14:
        return f"set {i} link_layer_addr {u(rng, 8)} {hexs(rb(rng, rng.choice([0, 1, 5, 6, 7, 8, 13, 14, 21])))}"
    if k == 15:
        return f"set {i} naack {u(rng, 8)} {u(rng, 8)}"
    if k == 16:
        return f"set {i} map {rng.randrange(16)} {rng.randrange(16)} {rng.randrange(2)} {u(rng, 32)} {hexs(ip6(rng))}"
    if k == 17:
        return f"set {i} route_info {u(rng, 8)} {rng.randrange(4)} {u(rng, 32)} {hexs(rb(rng, rng.choice([0, 8, 16, 3, 9])))}"
    if k == 18:
        cnt = rng.choice([1, 2, 126, 127]) if rng.random() < 0.15 else rng.randint(1, 3)
        return f"set {i} recursive_dns_servers {u(rng, 32)} {','.join(hexs(ip6(rng)) for _ in range(cnt))}"
    # handover key options: every value of the 4-bit AT field (RFC 5269), key sizes at every padding 0 … 7 incl. the empty key
    if k == 19:
        return f"set {i} handover_key_request {rng.randrange(16)} {hexs(rb(rng, rng.choice(list(range(0, 14)) + [2030])))}"
    if k == 20:
        return f"set {i} handover_key_reply {u(rng, 16)} {rng.randrange(16)} {hexs(rb(rng, rng.choice(list(range(0, 14)) + [2028])))}"
    if k == 21:
        return f"set {i} handover_assist_info {u(rng, 8)} {hexs(rb(rng, rng.choice(list(range(0, 14)) + [255])))}"
    if k == 22:
        return f"set {i} mobile_node_identifier {u(rng, 8)} {hexs(rb(rng, rng.choice(list(range(0, 14)) + [255])))}"
    return dns_search_list_op(rng, i)


def dns_label(rng, n):
    return bytes(rng.choice(b"abcxyz019-") for _ in range(n))


def dns_search_list_op(rng, i):
    """names at the representability boundary (ReprDnsSearch): the empty list, one label of one octet, encodings that need
    every padding 0 … 7 (a single name of L characters encodes to L + 2 octets behind the 8 fixed ones), labels of 63 and
    255 octets, a list that fills the option (2032 octets of names); otherwise 1 … 3 random names of 1 … 3 labels"""
    r = rng.random()
    if r < 0.08:
        doms = []
    elif r < 0.45:
        # padding p needs (L + 2) % 8 == (8 - p) % 8
        L = rng.randint(1, 24)
        doms = [dns_label(rng, L)]
        if rng.random() < 0.4:
            doms = [dns_label(rng, 3) + b"." + dns_label(rng, 3)] + doms          # 8 more octets: same padding
    elif r < 0.52:
        doms = [dns_label(rng, rng.choice([63, 64, 255]))]
    elif r < 0.55:
        doms = [dns_label(rng, 252)] * 8                                          # 8 * 254 = 2032 octets: the maximum
    else:
        doms = []
        for _ in range(rng.randint(1, 3)):
            doms.append(b".".join(dns_label(rng, rng.randint(1, 7)) for _ in range(rng.randint(1, 3))))
    return f"set {i} dns_search_list {u(rng, 32)} {','.join(hexs(d) for d in doms) if doms else '-'}"


TYPED_CODES = {"source_link_layer_addr": 1, "target_link_layer_addr": 2, "prefix_info": 3, "redirect_header": 4, "mtu": 5,
               "shortcut_limit": 6, "new_advert_interval": 7, "new_home_agent_info": 8, "source_addr_list": 9, "target_addr_list": 10,
               "rsa_signature": 12, "timestamp": 13, "nonce": 14, "ip_prefix": 17, "link_layer_addr": 19, "naack": 20, "map": 23,
               "route_info": 24, "recursive_dns_servers": 25, "handover_key_request": 27, "handover_key_reply": 28,
               "handover_assist_info": 29, "mobile_node_identifier": 30, "dns_search_list": 31}


def raw_option_op(rng, i):
    """add_option with data that completes the option to a multiple of 8 octets (what the length octet can express);
    sizes on both sides of PDUOption's 8-byte small buffer"""
    n = rng.choice([6, 6, 14, 14, 22, 38, 254, 2038])
    return f"set {i} add_option {rng.choice([1, 2, 5, 14, 32, 33, 138, 200, 255, 0])} {hexs(rb(rng, n))}"


def prog_icmp6_nd(rng):
    t = rng.choice(ICMP6_OPT_TYPES)
    ops = [f"push ICMPv6 {t}"]
    added = []
    for _ in range(rng.randint(0, 4)):
        c = [f"set 0 code {u(rng, 8)}"]
        if t == 134:
            c += [f"set 0 hop_limit {u(rng, 8)}", f"set 0 managed {rng.randrange(2)}", f"set 0 other {rng.randrange(2)}",
                  f"set 0 home_agent {rng.randrange(2)}", f"set 0 router_pref {rng.randrange(4)}", f"set 0 router_lifetime {u(rng, 16)}",
                  f"set 0 reachable_time {u(rng, 32)}", f"set 0 retransmit_timer {u(rng, 32)}"]
        if t == 136:
            c += [f"set 0 router {rng.randrange(2)}", f"set 0 solicited {rng.randrange(2)}", f"set 0 override {rng.randrange(2)}"]
        if t in (135, 136, 137):
            c += [f"set 0 target_addr {hexs(ip6(rng))}"]
        if t == 137:
            c += [f"set 0 dest_addr {hexs(ip6(rng))}"]
        if t in (133, 135, 137):
            c += [f"set 0 identifier {u(rng, 16)}", f"set 0 sequence {u(rng, 16)}"]
        ops.append(rng.choice(c))
    for _ in range(rng.choice([0, 1, 1, 2, 3, 5])):
        if rng.random() < 0.7:
            op = typed_option_op(rng, 0)
            added.append(TYPED_CODES[op.split(" ")[2]])
        else:
            op = raw_option_op(rng, 0)
            added.append(int(op.split(" ")[3]))
        ops.append(op)
        if rng.random() < 0.15:
            ops.append("show")
        if added and rng.random() < 0.25:
            ops.append(f"set 0 remove_option {rng.choice(added + [rng.randrange(256)])}")
            if rng.random() < 0.5:
                ops.append("show")
    return ops


def prog_icmp6_mld(rng):
    if rng.random() < 0.5:
        ops = ["push ICMPv6 130", f"set 0 maximum_response_code {u(rng, 16)}", f"set 0 multicast_addr {hexs(ip6(rng))}"]
        if rng.random() < 0.3:
            ops.append("set 0 use_mldv2 0")                                     # MLDv1: nothing after the address
            return ops
        if rng.random() < 0.2:
            ops += ["set 0 use_mldv2 0", "show", "set 0 use_mldv2 1"]
        for _ in range(rng.randint(0, 3)):
            ops.append(rng.choice([f"set 0 supress {rng.randrange(2)}", f"set 0 qrv {rng.randrange(8)}", f"set 0 qqic {u(rng, 8)}"]))
        if rng.random() < 0.7:
            ops.append(f"set 0 sources {','.join(hexs(ip6(rng)) for _ in range(rng.randint(1, 4)))}")
        if rng.random() < 0.3:
            ops.append(payload_op(rng, [1, 3, 16, 17]))
        return ops
    ops = ["push ICMPv6 143", f"set 0 identifier {u(rng, 16)}"]
    recs = []
    for _ in range(rng.choice([0, 1, 1, 2, 3])):
        srcs = "+".join(hexs(ip6(rng)) for _ in range(rng.choice([0, 0, 1, 2]))) or "-"
        # aux data that is not a whole number of 32-bit words cannot be expressed on the wire (C04's domain), but
        # serialize() must still be total and size-exact on it (C02): a record writer that pads what size() did not count
        # overwrites the payload (seeded/C02c)
        auxlens = [0, 0, 4, 8, 1020] + ([1, 2, 3, 5, 6, 7, 9, 1021] if running_property() == "C02" else [])
        recs.append(f"{u(rng, 8)}:{hexs(ip6(rng))}:{srcs}:{hexs(rb(rng, rng.choice(auxlens)))}")
    ops.append(f"set 0 multicast_address_records {','.join(recs) or '-'}")
    if rng.random() < 0.2:
        ops += ["show", "set 0 multicast_address_records -"]
    if rng.random() < 0.3:
        ops.append(payload_op(rng, [1, 4, 19, 20, 21]))
    return ops


def prog_icmp6_other(rng):
    k = rng.random()
    if k < 0.5:
        t = rng.choice([128, 129, 2, 4, 131, 132, 139, 140, 144, 160, 161, rng.choice([0, 5, 100, 127, 200, 255])])
        ops = [rng.choice([f"push ICMPv6 {t}", "push ICMPv6"])]
        for _ in range(rng.randint(0, 3)):
            ops.append(rng.choice([f"set 0 identifier {u(rng, 16)}", f"set 0 sequence {u(rng, 16)}", f"set 0 code {u(rng, 8)}"]))
        if rng.random() < 0.8:
            ops.append(payload_op(rng, LENS[:11] + [rng.randint(0, 64)]))
        return ops
    t = rng.choice(ICMP6_EXT_TYPES)
    ops = [f"push ICMPv6 {t}"]
    if rng.random() < 0.4:
        ops.append(rng.choice([f"set 0 code {u(rng, 8)}", f"set 0 sequence {u(rng, 16)}"]))
    with_ext = rng.random() < 0.6
    n = rng.choice([8, 48, 64, 120, 128, 136, 144, 256, rng.randrange(1, 24) * 8])
    if not with_ext and rng.random() < 0.3:
        n = rng.choice([1, 3, 7, 9, 41, 127])
        use_len = False
    else:
        use_len = rng.random() < 0.4
    if with_ext:
        ops += ext_ops(rng, 0)
    if use_len:
        ops.append("set 0 use_length_field 1")
    ops.append(f"push RawPDU {hexs(bytes([0x60]) + rb(rng, n - 1))}")
    if with_ext and rng.random() < 0.3:
        ops += ["show"] + ext_ops(rng, 0)
    return ops


def modelled(cls):
    try:
        from vlib import core
        out = core.run_driver("model", "C01", f"parse {cls} -\n")
        return bool(out) and not out[0].startswith("unmodelled")
    except Exception:
        return False


def prog_under_ip(rng, have_ip, have_ip6):
    """ICMP under IP, ICMPv6 under IPv6 (pseudo-header checksum) — only once those classes have a model"""
    if have_ip6 and (rng.random() < 0.6 or not have_ip):
        inner = prog_icmp6_other(rng) if rng.random() < 0.5 else prog_icmp6_nd(rng)
        return ["push IPv6"] + [l.replace("set 0 ", "set 1 ") for l in inner]
    inner = prog_icmp(rng)
    return ["push IP"] + [l.replace("set 0 ", "set 1 ") for l in inner]


def running_property():
    import re, sys
    for a in sys.argv[1:]:
        if re.fullmatch(r"C0[1-4]", a):
            return a
    return None


def known_finding_probes():
    """programs that reproduce the family's known findings on every run"""
    return [
        # KF-C04-Icmp-1: a raw option whose data does not complete the option to a multiple of 8 octets
        "new", "push ICMPv6 133", "set 0 add_option 1 010203", "show",
        "new", "push ICMPv6 135", "set 0 nonce 0102030405060708", "show",
        # regression: KF-C04-Icmp-1 (rsa_signature padding)
        "new", "push ICMPv6 135", "set 0 rsa_signature 860dc55191a26bdeecc6bde36d5f726a f9eebd", "show",
        # typed codecs at the representability boundary, one option per packet so that the oracle's value clause applies:
        # DNS search lists whose encoding needs padding 0 (seeded/C04e) … 7, the empty list, a 255-octet label
    ] + [x for L in (6, 5, 4, 3, 2, 1, 8, 7) for x in
         ("new", "push ICMPv6 134", f"set 0 dns_search_list 7 {'61' * L}", "show")] + [
        "new", "push ICMPv6 134", "set 0 dns_search_list 0 -", "show",
        "new", "push ICMPv6 134", "set 0 dns_search_list 4294967295 " + "62" * 255 + ",612e62", "show",
        # regression: KF-C04-Icmp-4 (all four AT bits), the empty key
        "new", "push ICMPv6 134", "set 0 handover_key_request 13 aabbccdd", "set 0 handover_key_reply 65535 15 -", "show",
        # lists at both ends, 64-bit timestamp, assist info of 255 octets, addresses that fill the option
        "new", "push ICMPv6 134", "set 0 recursive_dns_servers 4294967295 " + ",".join(["20010db8000000000000000000000001"] * 127), "show",
        "new", "push ICMPv6 134", "set 0 source_addr_list 000000000000 20010db8000000000000000000000001", "set 0 timestamp 010203040506 18446744073709551615", "show",
        "new", "push ICMPv6 134", "set 0 handover_assist_info 255 " + "7f" * 255, "set 0 link_layer_addr 2 0011223344", "set 0 route_info 64 3 1 20010db800000001", "show",
    ] + (
        # regression of KF-C02-Icmp-1 (extensions behind a timestamp header overwrote the payload).  Such a message cannot
        # be parsed back with its extensions (RFC 4884 does not extend timestamps), so it is a C02 program only
        ["new", "push ICMP 13", "set 0 original_timestamp 16909060", "set 0 add_extension 1 1 aabbccdd",
         "push RawPDU " + bytes(range(120)).hex(), "show"] if running_property() == "C02" else [])


BUILD_GENS = [(prog_icmp, 5), (prog_icmp6_nd, 5), (prog_icmp6_mld, 3), (prog_icmp6_other, 4)]


def gen_build(rng, n):
    import os
    if os.environ.get("WIRE_GEN_ICMP_OFF"):
        return []
    rng = private_rng(rng, "icmp-build")
    ops = known_finding_probes()
    have_ip, have_ip6 = modelled("IP"), modelled("IPv6")
    fs, ws = zip(*BUILD_GENS)
    while len(ops) < n:
        ops.append("new")
        if (have_ip or have_ip6) and rng.random() < 0.2:
            ops += prog_under_ip(rng, have_ip, have_ip6)
        else:
            ops += rng.choices(fs, ws)[0](rng)
        ops.append("show")
    return ops


def unaligned_nd_option(case_lines):
    """does the (minimised) program add an ICMPv6 option whose data size + 2 is not a multiple of 8 through the raw
    `add_option` or through a setter that passes the caller's bytes through (`nonce`, `redirect_header`)?"""
    if not any(l.startswith("push ICMPv6") for l in case_lines):
        return False
    for l in case_lines:
        w = l.split(" ")
        if len(w) >= 4 and w[0] == "set":
            data = None
            if w[2] == "add_option" and len(w) == 5:
                data = w[4]
            elif w[2] in ("nonce", "redirect_header") and len(w) == 4:
                data = w[3]
            if data is not None:
                n = 0 if data == "-" else len(data) // 2
                if (n + 2) % 8 != 0:
                    return True
    return False


def ext_validates(area):
    """RFC 4884 extension structure check as the parsers apply it: at least the 4-byte header and a correct checksum"""
    return len(area) >= 4 and rfc1071(area) == 0


def ext_location(n, length_bytes):
    """where the parsers look for the extension structure in a body of n bytes"""
    if n == 0:
        return None
    if n >= length_bytes and length_bytes >= 128:
        return length_bytes
    if n >= 128:
        return 128
    return None


def rewritten_length_relocates(msg, v6):
    """ICMP / ICMPv6 error message whose first parse finds no extension structure, whose RFC 4884 length is then derived
    from the quote rounded up to the length unit (KF-C05-1 / KF-C05-2: the padding itself is not written), so that the
    re-parse looks at another offset — and a structure with a valid checksum sits there"""
    if len(msg) < 8 or msg[0] not in ((1, 3) if v6 else (3, 11, 12)):
        return False
    unit = 8 if v6 else 4
    lf = msg[4] if v6 else msg[5]
    body = msg[8:]
    n = len(body)
    loc1 = ext_location(n, lf * unit)
    if loc1 is not None and ext_validates(body[loc1:]) and len(body[loc1:]) > 4:
        return False                                            # recognised by the first parse
    adj = (n + unit - 1) // unit * unit
    if not (lf != 0 or adj > 128):
        return False                                            # the length field is left alone
    loc2 = ext_location(n, (adj // unit) % 256 * unit)
    return loc2 is not None and loc2 != loc1 and ext_validates(body[loc2:])


def icmp_message_of(case_lines):
    """(message bytes, is_v6) of a `parse ICMP|ICMPv6|IP|IPv6 <hex>` case"""
    w = case_lines[-1].split(" ")
    if len(w) != 3 or w[0] != "parse" or w[2] == "-":
        return None
    try:
        b = bytes.fromhex(w[2])
    except ValueError:
        return None
    if w[1] == "ICMP":
        return b, False
    if w[1] == "ICMPv6":
        return b, True
    if w[1] == "IP" and len(b) >= 20 and b[9] == 1:
        return b[(b[0] & 15) * 4:struct.unpack("!H", b[2:4])[0]], False
    if w[1] == "IPv6" and len(b) >= 40 and b[6] == 58:
        return b[40:40 + struct.unpack("!H", b[4:6])[0]], True
    return None


def refine_sig(sig, case_lines, detail):
    if sig.get("class") == "api" and unaligned_nd_option(case_lines):
        return dict(sig, when="icmpv6-option-size-not-multiple-of-8")
    m = icmp_message_of(case_lines)
    if m is not None and sig.get("kind") == "spec" and rewritten_length_relocates(*m):
        return dict(sig, when="rfc4884-derived-length-relocates-extension-structure")
    return sig
