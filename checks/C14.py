"""C14 — response matching accepts mirrored replies, rejects strangers, is memory-safe."""
import collections, glob, os, random
from vlib import core, corr

AREA = "C14"
MODULES = ["TinsModel.Props.C14", "TinsModel.Props.Limits.C14"]   # + the constants / limits tied to the source (translator/gen_limits.py)
AUDIT = ["Audit/C14.lean", "Audit/LimitsC14.lean"]
LEVEL = "proof"
HARNESS = "c14_match"
HARNESS_EXTRA = ("-fno-access-control",)      # only for sizeof() of the private header structs in the `layout` op
CASE_START = ("m", "layout")
MANIFEST = dict(
    text="Lean 4 theorems over a fault-explicit, code-shaped model of every matches_response (EthernetII, Dot3, Dot1Q, IP, "
         "IPv6 with the extension-header walk, TCP, UDP, ICMP, ICMPv6, DNS, BootP/DHCP, DHCPv6, RadioTap, Loopback, ARP, "
         "RawPDU, PDU default (SLL, LLC, ...), PDUCacher): no read outside the buffer for any stack and any buffer; the model "
         "refines a byte-level specification of 'mirrored reply / stranger' for every buffer and every request over "
         "{Ethernet II, 802.3, 802.1Q nested any number of times, loopback, RadioTap} / {IPv4, IPv6} / {TCP, UDP + payload, "
         "DNS, BootP/DHCP, DHCPv6, ICMP echo/timestamp/mask, ICMPv6 echo} and ARP; every mirrored reply is accepted whatever "
         "its unmatched fields, IPv4/TCP option lists, chain of IPv6 hop-by-hop/routing/first-fragment/destination-options/"
         "mobility headers, TCP flags and payload are (mirrored_reply_accepted); an ICMP destination unreachable quoting the "
         "request's IPv4 header is accepted (unreachable_quoting_accepted); a packet differing in a matched field is rejected "
         "(stranger_rejected).  Tied to the code by differential correspondence on the real objects (requests built through "
         "the public API and serialised; replies = libtins-serialised mirrors, every matched field perturbed octet by octet "
         "and replaced by boundary values, truncations to every length, option / extension-header chains and the edges of the "
         "walk, ICMP errors, random bytes; the buffer is an exact-size heap block under ASan/UBSan) and by the spec oracle "
         "evaluated on the implementation's output.",
    note="Trusted: Lean kernel + standard axioms; hand-written model tied by correspondence (harness/c14_match.cpp); "
         "header sizes / constants compared with the tree by the `layout` op; little-endian bit-field branch only; "
         "generator coverage bounds what the tie sees.  Not matched by the code and therefore not by the specification: "
         "BootP opcode, ARP opcode, next-protocol tags, the loopback family word in front of an inner PDU.",
    technique="Lean 4 proof (structural induction over the layer stack, refinement of a byte-level spec, serialisation lemmas "
              "for arbitrary option lists / extension-header chains) + model/impl correspondence",
    design="DESIGN.md §6 C14")
MANIFEST["note"] += (" Constants and limits of the C++ source that the model restates (translator/gen_limits.py -> Gen/Limits.lean: "
                     "compiled probe + preprocessed function bodies at named anchors) are tied to the model's numerals by the "
                     "theorems of lean/TinsModel/Props/Limits/C14.lean (audit: Audit/LimitsC14.lean); tools/LIMITS-INVENTORY.md lists "
                     "what is tied and what is not.")


# ----------------------------------------------------------------------------- request generators

def hx(b):
    return bytes(b).hex() if len(b) else "-"


def r_mac(rng, kind=None):
    kind = kind or rng.choice(["uni"] * 6 + ["multi", "bcast"])
    if kind == "bcast":
        return bytes([255] * 6)
    b = bytearray(rng.randrange(256) for _ in range(6))
    b[0] = (b[0] & 0xfe) | (1 if kind == "multi" else 0)
    if rng.random() < 0.1:
        b = bytearray([0xff] * 5 + [rng.randrange(255)]) if kind == "multi" else b
    return bytes(b)


def r_ip4(rng, kind=None):
    kind = kind or rng.choice(["uni"] * 7 + ["multi", "bcast", "zero", "lastE"])
    if kind == "lastE":                                      # unicast whose LAST octet looks like class D (byte-order slips)
        return bytes([rng.choice([10, 192, 100]), rng.randrange(256), rng.randrange(256), rng.randint(224, 239)])
    if kind == "bcast":
        return bytes([255] * 4)
    if kind == "zero":
        return bytes(4)
    if kind == "multi":
        return bytes([rng.randint(224, 239)] + [rng.randrange(256) for _ in range(3)])
    return bytes([rng.choice([10, 192, 172, 1, 100, 223, 240, 127])] + [rng.randrange(256) for _ in range(3)])


def r_ip6(rng, kind=None):
    kind = kind or rng.choice(["uni"] * 6 + ["ff02", "ffxx", "zero"])
    if kind == "zero":
        return bytes(16)
    b = bytearray(rng.randrange(256) for _ in range(16))
    if kind == "uni":
        b[0] = rng.choice([0x20, 0xfe, 0xfd, 0x00])
    elif kind == "ff02":
        b[0], b[1] = 0xff, 0x02
        if rng.random() < 0.4:
            b = bytearray(bytes([0xff, 0x02] + [0] * 13 + [rng.choice([1, 2])]))      # ff02::1 / ff02::2
    else:
        b[0], b[1] = 0xff, rng.choice([0x01, 0x05, 0x0e, 0x12, 0x00])
    return bytes(b)


def r_u16(rng):
    return rng.choice([0, 0, 1, 0xffff, 0xffff, 0x0100, 0x00ff, 53, 67, 68, rng.randrange(65536), rng.randrange(65536)]).to_bytes(2, "big")


def l_eth(rng):
    return f"eth:src={hx(r_mac(rng, rng.choice(['uni'] * 8 + ['multi'])))},dst={hx(r_mac(rng))}"


def l_dot3(rng):
    return f"dot3:src={hx(r_mac(rng, 'uni'))},dst={hx(r_mac(rng))}"


def l_dot1q(rng):
    return f"dot1q:tci={hx(rng.choice([0, 1, 0x0fff, 0xffff, 0xe001, rng.randrange(65536)]).to_bytes(2, 'big'))}"


def l_ip(rng, proto):
    src = r_ip4(rng, rng.choice(["uni"] * 8 + ["zero", "multi"]))
    dst = r_ip4(rng)
    if rng.random() < 0.08:
        src, dst = bytes(4), bytes([255] * 4)          # DHCP discover shape
    fo = rng.choice([0, 0x4000, 0x2000, 0x00b9, rng.randrange(65536)])
    nop = rng.choice([0] * 8 + [1, 3, 4, 8])
    s = (f"ip:tos={hx([rng.choice([0, 0, 0x10, rng.randrange(256)])])},id={hx(r_u16(rng))},fo={hx(fo.to_bytes(2, 'big'))},"
         f"ttl={hx([rng.choice([1, 64, 128, 255, rng.randrange(256)])])},p={hx([proto])},src={hx(src)},dst={hx(dst)}")
    if nop:
        s += f",nop={nop}"
    return s


def l_ipv6(rng):
    return f"ipv6:src={hx(r_ip6(rng, rng.choice(['uni'] * 8 + ['zero'])))},dst={hx(r_ip6(rng))}"


def l_ports(rng, name):
    sp, dp = r_u16(rng), r_u16(rng)
    if rng.random() < 0.08:
        dp = sp
    return f"{name}:sp={hx(sp)},dp={hx(dp)}"


def l_icmp(rng, types=(8, 13, 17)):
    return f"icmp:type={hx([rng.choice(types)])},id={hx(r_u16(rng))},seq={hx(r_u16(rng))}"


def l_icmpv6(rng, types=(128,)):
    return f"icmpv6:type={hx([rng.choice(types)])},id={hx(r_u16(rng))},seq={hx(r_u16(rng))}"


def l_raw(rng):
    return f"raw:n={rng.choice([0, 1, 4, 5, 8, 20, 28, 40, rng.randint(0, 64)])}"


def transport(rng, v6):
    """(list of layer descs, ip protocol number) inside the fragment the property speaks about, plus the other matchers"""
    k = rng.random()
    if k < 0.18:
        return [l_ports(rng, "tcp")] + ([l_raw(rng)] if rng.random() < 0.5 else []), 6
    if k < 0.36:
        return [l_ports(rng, "udp"), l_raw(rng)], 17
    if k < 0.50:
        return [l_ports(rng, "udp"), f"dns:id={hx(r_u16(rng))}"], 17
    if k < 0.68:
        if v6:
            return [l_icmpv6(rng)], 58
        return [l_icmp(rng)], 1
    if k < 0.72:
        return [l_icmpv6(rng, (128, 128, 129, 133, 134, 135, 136, 1, 3))] if v6 else [l_icmp(rng, (8, 0, 3, 11, 13, 14, 17, 18, 5))], (58 if v6 else 1)
    if k < 0.77:
        return [l_ports(rng, "udp")], 17                                       # UDP without a payload
    if k < 0.82:
        xid = rng.choice([0, 1, 0xffffffff, rng.randrange(2**32), rng.randrange(2**32)])
        return [l_ports(rng, "udp"), rng.choice(["bootp", "dhcp"]) + f":xid={hx(xid.to_bytes(4, 'big'))}"], 17
    if k < 0.87:
        t = rng.choice([1, 1, 3, 3, 5, 11, 12, 13])
        rest = [rng.randrange(256), 0, 0] if t in (12, 13) else [rng.randrange(256) for _ in range(3)]
        return [l_ports(rng, "udp"), f"dhcpv6:hdr={hx([t] + rest)}"], 17
    if k < 0.91:
        return [l_ports(rng, rng.choice(["udp", "tcp"])), "other"], 17
    if k < 0.95:
        return [l_raw(rng)], rng.choice([47, 50, 89, 132, 1, 6])
    if k < 0.97:
        return ["other"], 253
    return [], rng.choice([6, 17, 1, 59])


def routed(layer):
    """an IP without a parent PDU (outermost, or held by a PDUCacher) gets an unspecified source address filled in from
    the routing table when it is serialised: machine dependent, so the generator does not produce it"""
    return layer.replace("src=00000000", "src=0a000001") if layer.startswith("ip:") else layer


CACHEABLE = ("eth", "ip", "ipv6", "udp", "tcp", "icmp", "dot1q", "dns")


def gen_stack(rng):
    k = rng.random()
    if k < 0.04:
        arp = f"arp:spa={hx(r_ip4(rng, rng.choice(['uni', 'uni', 'zero', 'lastE'])))},tpa={hx(r_ip4(rng, rng.choice(['uni', 'uni', 'lastE', 'bcast'])))}"
        return rng.choice([[l_eth(rng)], [l_eth(rng)], [l_eth(rng), l_dot1q(rng)], [l_dot3(rng)]]) + [arp]
    if k < 0.08:
        return [l_dot3(rng)] + rng.choice([[], ["other"], [l_raw(rng)], [l_raw(rng)]])
    if k < 0.09:
        return ["sll"] + rng.choice([[], [l_raw(rng)], [routed(l_ip(rng, 1)), l_icmp(rng)]])
    if k < 0.10:
        return rng.choice([[l_eth(rng)], [l_eth(rng), l_raw(rng)], [l_eth(rng), l_dot1q(rng)], ["radiotap"], ["radiotap", l_raw(rng)],
                           ["radiotap", "other"], [f"loopback:family={hx(rng.choice([2, 24, 30, 26, rng.randrange(2**32)]).to_bytes(4, 'little'))}"]])
    v6 = rng.random() < 0.4
    tr, proto = transport(rng, v6)
    net = [l_ipv6(rng)] if v6 else [l_ip(rng, proto)]
    k = rng.random()
    if k < 0.55:
        link = [l_eth(rng)]
    elif k < 0.75:
        link = [l_eth(rng), l_dot1q(rng)] + ([l_dot1q(rng)] if rng.random() < 0.4 else [])
    elif k < 0.80:
        link = [l_dot3(rng)]
    elif k < 0.92:
        link = []
    elif k < 0.96:
        link = [f"loopback:family={hx((30 if v6 else 2).to_bytes(4, 'little'))}"]
    else:
        link = ["radiotap"]
    if not v6 and (not link or link[-1] == "cacher"):
        # an IP without a parent gets its unspecified source filled in from the routing table: machine dependent
        net = [routed(net[0])]
    st = link + net + tr
    if rng.random() < 0.12:
        # not directly under Loopback: Loopback::write_serialization downcasts its inner PDU by pdu_type(), which a
        # PDUCacher<IP> answers as IP (UBSan: invalid downcast) — the PDUCacher look-up finding of C13, not a matcher
        idx = [i for i, l in enumerate(st) if l.split(":")[0] in CACHEABLE and not (i and st[i - 1].startswith("loopback"))]
        if idx:
            i = rng.choice(idx)
            st = st[:i] + ["cacher", routed(st[i])] + st[i + 1:]
    return st


SINGLE_CLASSES = [
    lambda r: [l_eth(r)], lambda r: [l_dot3(r)], lambda r: [l_dot1q(r)], lambda r: [routed(l_ip(r, r.choice([1, 6, 17])))],
    lambda r: [l_ipv6(r)], lambda r: [l_ports(r, "tcp")], lambda r: [l_ports(r, "udp")], lambda r: [l_icmp(r)],
    lambda r: [l_icmpv6(r, (128, 133, 135))], lambda r: [f"dns:id={hx(r_u16(r))}"],
    lambda r: [f"bootp:xid={hx(r.randrange(2**32).to_bytes(4, 'big'))}"], lambda r: [f"dhcp:xid={hx(r.randrange(2**32).to_bytes(4, 'big'))}"],
    lambda r: [f"dhcpv6:hdr={hx([1] + [r.randrange(256) for _ in range(3)])}"], lambda r: ["radiotap"],
    lambda r: [f"loopback:family={hx(r.choice([2, 30, r.randrange(2**32)]).to_bytes(4, 'little'))}"],
    lambda r: [f"arp:spa={hx(r_ip4(r, 'uni'))},tpa={hx(r_ip4(r, 'uni'))}"], lambda r: [l_raw(r)], lambda r: ["other"], lambda r: ["sll"],
    lambda r: ["cacher", routed(l_ip(r, 17))], lambda r: ["cacher", l_eth(r)],
]


# ----------------------------------------------------------------------------- reply generators

def parse_state(state):
    out = []
    for item in state.split("/"):
        name, _, args = item.partition(":")
        kv = dict(a.split("=", 1) for a in args.split(",") if "=" in a)
        out.append((name, kv))
    return out


def fields_of(state, mirror):
    """byte fields of the libtins-built mirror: [(layer.field, offset, length)] and the offset of every layer"""
    off, fl, starts = 0, [], []
    for name, kv in parse_state(state):
        if name == "cacher":
            continue
        starts.append((name, off, kv))
        if name in ("eth", "dot3"):
            fl += [(name + ".dst", off, 6), (name + ".src", off + 6, 6), (name + ".type", off + 12, 2)]; off += 14
        elif name == "dot1q":
            fl += [("dot1q.tci", off, 2), ("dot1q.type", off + 2, 2)]; off += 4
        elif name == "ip":
            fl += [("ip.vihl", off, 1), ("ip.tos", off + 1, 1), ("ip.len", off + 2, 2), ("ip.id", off + 4, 2), ("ip.fo", off + 6, 2),
                   ("ip.ttl", off + 8, 1), ("ip.proto", off + 9, 1), ("ip.ck", off + 10, 2), ("ip.src", off + 12, 4), ("ip.dst", off + 16, 4)]
            off += 20
        elif name == "ipv6":
            fl += [("ipv6.vtf", off, 4), ("ipv6.plen", off + 4, 2), ("ipv6.nh", off + 6, 1), ("ipv6.hl", off + 7, 1),
                   ("ipv6.src", off + 8, 16), ("ipv6.dst", off + 24, 16)]; off += 40
        elif name == "tcp":
            fl += [("tcp.sp", off, 2), ("tcp.dp", off + 2, 2), ("tcp.seq", off + 4, 4), ("tcp.ack", off + 8, 4), ("tcp.doff", off + 12, 1),
                   ("tcp.flags", off + 13, 1), ("tcp.win", off + 14, 2), ("tcp.ck", off + 16, 2), ("tcp.urg", off + 18, 2)]; off += 20
        elif name == "udp":
            fl += [("udp.sp", off, 2), ("udp.dp", off + 2, 2), ("udp.len", off + 4, 2), ("udp.ck", off + 6, 2)]; off += 8
        elif name in ("icmp", "icmpv6"):
            fl += [(name + ".type", off, 1), (name + ".code", off + 1, 1), (name + ".ck", off + 2, 2), (name + ".id", off + 4, 2),
                   (name + ".seq", off + 6, 2)]; off += 8
        elif name == "dns":
            fl += [("dns.id", off, 2), ("dns.flags", off + 2, 2), ("dns.counts", off + 4, 8)]; off += 12
        elif name in ("bootp", "dhcp"):
            fl += [("bootp.op", off, 1), ("bootp.xid", off + 4, 4), ("bootp.secs", off + 8, 2)]; off += 236
        elif name == "dhcpv6":
            fl += [("dhcpv6.type", off, 1), ("dhcpv6.xid", off + 1, 3)]; off += 4
        elif name == "arp":
            fl += [("arp.op", off + 6, 2), ("arp.spa", off + 14, 4), ("arp.tpa", off + 24, 4)]; off += 28
        elif name == "loopback":
            fl += [("loopback.family", off, 4)]; off += 4
        elif name == "radiotap":
            fl += [("radiotap.len", off + 2, 2)]
            off += mirror[off + 2] | (mirror[off + 3] << 8) if len(mirror) >= off + 4 else 8
        else:
            break
    return [f for f in fl if f[1] + f[2] <= len(mirror)], starts


def perturb(rng, b, off, ln):
    b = bytearray(b)
    old = bytes(b[off:off + ln])
    k = rng.random()
    if k < 0.4:
        i = rng.randrange(ln * 8)
        b[off + i // 8] ^= 1 << (i % 8)
    elif k < 0.6:
        v = (int.from_bytes(old, "big") + rng.choice([1, -1])) % (1 << (8 * ln))
        b[off:off + ln] = v.to_bytes(ln, "big")
    elif k < 0.75:
        b[off:off + ln] = rng.choice([bytes(ln), bytes([255] * ln), old[::-1]])
    else:
        b[off:off + ln] = bytes(rng.randrange(256) for _ in range(ln))
    return bytes(b)


EXT_TYPES = [0, 43, 60, 44, 51, 135, 59, 50, 139, 6, 17, 58]

# the fields the property lists as matched (every one is perturbed octet by octet and replaced by boundary values)
MATCHED = {"eth.dst", "eth.src", "dot3.dst", "dot3.src", "dot1q.tci", "ip.src", "ip.dst", "ipv6.src", "ipv6.dst", "tcp.sp", "tcp.dp",
           "udp.sp", "udp.dp", "icmp.type", "icmp.id", "icmp.seq", "icmpv6.type", "icmpv6.id", "icmpv6.seq", "dns.id", "bootp.xid",
           "dhcpv6.type", "dhcpv6.xid", "arp.spa", "arp.tpa", "loopback.family"}


def boundary_values(rng, name, old):
    """boundary values for a matched field: broadcast / multicast / unspecified addresses, class-D look-alikes, ports 0 and 65535"""
    ln = len(old)
    vals = [bytes(ln), bytes([255] * ln)]
    if name.endswith((".src", ".dst")) and ln == 6:
        vals += [bytes([old[0] | 1]) + old[1:], bytes([0x01, 0x00, 0x5e, 0, 0, 1]), bytes([0x33, 0x33, 0, 0, 0, 1])]
    elif ln == 4 and name.split(".")[0] in ("ip", "arp"):
        vals += [bytes([224, 0, 0, 1]), bytes([239, 255, 255, 250]), old[:3] + bytes([rng.randint(224, 239)]),
                 bytes([rng.randint(224, 239)]) + old[1:], old[:3] + bytes([255]), old[::-1]]
    elif ln == 16:
        vals += [bytes([0xff, 0x02] + [0] * 13 + [1]), bytes([0xff, 0x02] + [0] * 13 + [2]), bytes([0xff, 0x02]) + old[2:],
                 bytes([0xff]) + old[1:], bytes(15) + bytes([1]), old[:15] + bytes([old[15] ^ 1])]
    elif ln == 2:
        vals += [bytes([0, 1]), bytes([0xff, 0xfe]), old[::-1], ((int.from_bytes(old, "big") + 1) % 65536).to_bytes(2, "big"),
                 ((int.from_bytes(old, "big") - 1) % 65536).to_bytes(2, "big")]
    elif name == "dhcpv6.type":
        vals += [bytes([12]), bytes([13]), bytes([7]), bytes([2])]
    elif name in ("icmp.type", "icmpv6.type"):
        vals += [bytes([t]) for t in (0, 3, 8, 11, 14, 18, 128, 129, 1)]
    elif ln == 3 or name == "bootp.xid":
        vals += [old[::-1], ((int.from_bytes(old, "big") + 1) % (1 << (8 * ln))).to_bytes(ln, "big")]
    return [v for v in vals if v != old]


def matched_field_variants(rng, mirror, fl, quick):
    """every matched field: one bit flipped in every octet separately, and the boundary values"""
    out = []
    for name, off, ln in fl:
        if name not in MATCHED:
            continue
        old = bytes(mirror[off:off + ln])
        for i in range(ln):
            if quick and ln == 16 and i % 3 != rng.randrange(3) and i not in (0, 1, 15):
                continue
            m = bytearray(mirror); m[off + i] ^= 1 << rng.randrange(8)
            out.append((f"octet:{name}", bytes(m)))
        bv = boundary_values(rng, name, old)
        if quick and len(bv) > 4:
            bv = rng.sample(bv, 4)
        for v in bv:
            out.append((f"boundary:{name}", bytes(mirror[:off]) + v + bytes(mirror[off + ln:])))
    return out


def ok_chain(rng, base_nh, kinds=(0, 43, 44, 60, 135)):
    """a well-formed chain of the extension headers the specification follows (fragment = first fragment, reserved 0)"""
    chain = [rng.choice(kinds) for _ in range(rng.choice([1, 1, 2, 2, 3, 4, 6]))]
    blob = bytearray()
    for i, t in enumerate(chain):
        nxt = chain[i + 1] if i + 1 < len(chain) else base_nh
        if t == 44:
            blob += bytes([nxt, 0, 0, rng.choice([0, 1, 6, 7])] + [rng.randrange(256) for _ in range(4)])
        else:
            units = rng.choice([0, 0, 0, 1, 2, rng.randint(0, 5), 255 if rng.random() < 0.03 else 0])
            blob += bytes([nxt, units] + [rng.randrange(256) for _ in range((units + 1) * 8 - 2)])
    return chain, bytes(blob)


def v6_ok_variants(rng, state, mirror, off, n, fl):
    """the mirrored reply behind well-formed chains (specification: accept), a matched field behind the chain perturbed
    (reject), and the edges of the walk: chain cut one header early / a header's length one unit off / reserved octet
    or offset of the fragment header non-zero / nothing after the last header"""
    out = []
    base_nh = mirror[off + 6]
    inner = [f for f in fl if f[1] >= off + 40 and f[0] in MATCHED]
    for _ in range(n):
        chain, blob = ok_chain(rng, base_nh)
        m = bytearray(mirror[:off + 40]) + blob + bytearray(mirror[off + 40:])
        m[off + 6] = chain[0]
        out.append(("v6chain", bytes(m)))
        if inner:
            name, o, ln = rng.choice(inner)
            p = bytearray(m); p[o + len(blob) + rng.randrange(ln)] ^= 1 << rng.randrange(8)
            out.append((f"v6chain-perturb:{name}", bytes(p)))
        k = rng.random()
        e = bytearray(m)
        if k < 0.25:                                             # the first header claims one unit more / less
            e[off + 41] = (e[off + 41] + rng.choice([1, 255])) % 256
        elif k < 0.45:                                           # the fixed header announces the second header's type
            e[off + 6] = blob[0]
        elif k < 0.6:                                            # the packet ends with the last extension header
            e = e[:off + 40 + len(blob)]
        elif k < 0.8:                                            # the last header announces another extension header
            pos = off + 40
            for t in chain[:-1]:
                pos += (e[pos + 1] + 1) * 8
            e[pos] = rng.choice([0, 60, 43, 59, 51])
        else:                                                    # a fragment header that is not the one of a first fragment
            pos = off + 40
            hit = False
            for t in chain:
                if t == 44:
                    if rng.random() < 0.5:
                        e[pos + 1] = rng.choice([1, 2, 255])     # reserved octet
                    else:
                        e[pos + 2] = rng.choice([0, 1, 0x80]); e[pos + 3] |= 8
                    hit = True
                    break
                pos += (e[pos + 1] + 1) * 8
            if not hit:
                e = e[:rng.randint(off + 40, len(e))]
        out.append(("v6chain-edge", bytes(e)))
    return out


def udp_len_variants(mirror, off):
    """the UDP length field is not matched: values below the header size, and the datagram cut right behind the header"""
    out = []
    for v in (0, 1, 7, 8, 9, 0xffff):
        m = bytearray(mirror); m[off + 4:off + 6] = v.to_bytes(2, "big")
        out.append(("udplen", bytes(m)))
        out.append(("udplen", bytes(m[:off + 8])))
    return out


def tcp_flag_variants(mirror, off):
    """SYN-ACK, RST, RST-ACK, ACK, FIN-ACK, PSH-ACK, no flag, all flags: the flags are not matched"""
    out = []
    for fl in (0x12, 0x04, 0x14, 0x10, 0x11, 0x18, 0x00, 0xff):
        m = bytearray(mirror); m[off + 13] = fl
        out.append(("tcpflags", bytes(m)))
    return out


def v6_ext_variants(rng, mirror, off, n):
    """insert extension-header chains after the IPv6 header at `off` (well formed, overlong, truncated)"""
    out = []
    base_nh = mirror[off + 6]
    for _ in range(n):
        chain = [rng.choice(EXT_TYPES[:7] if rng.random() < 0.8 else EXT_TYPES) for _ in range(rng.randint(1, 4))]
        blob = bytearray()
        for i, t in enumerate(chain):
            nxt = chain[i + 1] if i + 1 < len(chain) else base_nh
            units = rng.choice([0, 0, 0, 1, 2, rng.randint(0, 6)])
            hdr = bytearray([nxt, units] + [rng.randrange(256) for _ in range((units + 1) * 8 - 2)])
            k = rng.random()
            if k < 0.1:
                hdr[1] = rng.choice([255, units + 1, 31])          # claims more than is there
            elif k < 0.15:
                hdr = hdr[:rng.randint(0, len(hdr) - 1)]          # physically truncated
            blob += hdr
        m = bytearray(mirror[:off + 40]) + blob + bytearray(mirror[off + 40:])
        m[off + 6] = chain[0]
        if rng.random() < 0.2:
            m = m[:rng.randint(off + 40, len(m))]
        out.append(("v6ext", bytes(m)))
    return out


def ip_opt_variants(rng, mirror, off, n):
    out = []
    for _ in range(n):
        m = bytearray(mirror)
        k = rng.random()
        if k < 0.5:
            words = rng.randint(1, 10)
            opts = bytes(rng.choice([1, 1, 0, 3, 0x45, rng.randrange(256)]) for _ in range(words * 4))
            m = m[:off + 20] + opts + m[off + 20:]
            m[off] = 0x40 | (5 + words)
        elif k < 0.75:
            m[off] = (m[off] & 0xf0) | rng.choice([0, 1, 4, 6, 15])       # header length that is not there / too small
        else:
            m[off] = (rng.randrange(16) << 4) | (m[off] & 0x0f)           # other version
        out.append(("ipopt", bytes(m)))
    return out


def tcp_opt_variants(rng, mirror, off, n):
    out = []
    for _ in range(n):
        m = bytearray(mirror)
        if rng.random() < 0.5:
            words = rng.randint(1, 10)
            m = m[:off + 20] + bytes(rng.randrange(256) for _ in range(words * 4)) + m[off + 20:]
            m[off + 12] = ((5 + words) << 4) | (m[off + 12] & 0x0f)
        else:
            m[off + 12] = (rng.randrange(16) << 4) | (m[off + 12] & 0x0f)
        out.append(("tcpopt", bytes(m)))
    return out


def unreachable_variants(rng, mirror, req, off, hdr, n):
    """ICMP destination unreachable (and other ICMP errors) quoting the request header exactly / perturbed / truncated,
    from the request's destination or from a third party, with and without IP options in front"""
    out = []
    quoted_tail = req[off + 20:off + 28] if len(req) >= off + 28 else bytes(8)
    for _ in range(n):
        q = bytearray(hdr)
        k = rng.random()
        tag = "unreach-exact"
        if k < 0.45:
            i = rng.randrange(160); q[i // 8] ^= 1 << (i % 8); tag = "unreach-quote-differs"
        elif k < 0.55:
            q = bytearray(rng.randrange(256) for _ in range(20)); tag = "unreach-quote-differs"
        words = rng.choice([0, 0, 0, 1, 2])
        src = bytes(hdr[16:20]) if rng.random() < 0.3 else r_ip4(rng, "uni")
        dst = bytes(hdr[12:16]) if rng.random() < 0.7 else r_ip4(rng, "uni")
        typ = 3 if rng.random() < 0.8 else rng.choice([11, 12, 4, 5, 0])
        if typ != 3:
            tag = "icmp-error-other"
        skip = rng.choice([8] * 6 + [4, 0, 12])                  # bytes between the ICMP type and the quoted header
        if skip != 8 and tag == "unreach-exact":
            tag = "unreach-quote-misplaced"
        icmp = bytes([typ, rng.choice([0, 1, 3, 13]), 0, 0] + [0] * 4)[:skip] + bytes(q) + quoted_tail
        if skip == 0:
            icmp = bytes([typ]) + icmp
        if rng.random() < 0.15:
            icmp = icmp[:rng.randint(0, len(icmp))]; tag += "-trunc"
        iph = bytearray([0x40 | (5 + words), 0xc0, 0, 0, rng.randrange(256), rng.randrange(256), 0, 0, 64, 1, 0, 0]) + src + dst
        iph += bytes(rng.choice([1, 3, 0x45]) for _ in range(words * 4))
        tot = len(iph) + len(icmp)
        iph[2:4] = tot.to_bytes(2, "big")
        out.append((tag, bytes(mirror[:off]) + bytes(iph) + icmp))
    return out


def replies_for(rng, state, mirror, req, tier_mult, others):
    """[(tag, reply bytes)] for one request"""
    fl, starts = fields_of(state, mirror)
    out = [("mirror", mirror), ("request-itself", req), ("empty", b"")]
    for name, off, ln in fl:
        for _ in range(tier_mult):
            out.append(("perturb:" + name, perturb(rng, mirror, off, ln)))
    out += matched_field_variants(rng, mirror, fl, tier_mult == 1)
    # two fields at once
    for _ in range(2 * tier_mult):
        if len(fl) >= 2:
            (n1, o1, l1), (n2, o2, l2) = rng.sample(fl, 2)
            out.append(("perturb2", perturb(rng, perturb(rng, mirror, o1, l1), o2, l2)))
    # truncation at and around every layer boundary, plus random cuts; appended garbage
    cuts = set()
    for _, off, _ in starts:
        cuts |= {off - 1, off, off + 1, off + 3, off + 4, off + 7, off + 8, off + 9, off + 12, off + 13, off + 19, off + 20, off + 39, off + 40}
    cuts |= {len(mirror) - 1, rng.randint(0, len(mirror)), rng.randint(0, len(mirror))}
    for c in sorted(c for c in cuts if 0 <= c < len(mirror)):
        out.append(("trunc", mirror[:c]))
    out.append(("extended", mirror + bytes(rng.randrange(256) for _ in range(rng.randint(1, 40)))))
    # random bit flips anywhere; random bytes of the same length
    for _ in range(2 * tier_mult):
        m = bytearray(mirror)
        for _ in range(rng.choice([1, 1, 2, 5])):
            if m:
                i = rng.randrange(len(m) * 8); m[i // 8] ^= 1 << (i % 8)
        out.append(("bitflip", bytes(m)))
    out.append(("random", bytes(rng.randrange(256) for _ in range(len(mirror)))))
    for name, off, kv in starts:
        if name == "ipv6" and len(mirror) >= off + 40:
            out += v6_ext_variants(rng, mirror, off, 3 * tier_mult)
            out += v6_ok_variants(rng, state, mirror, off, 3 * tier_mult, fl)
        if name == "ip" and len(mirror) >= off + 20:
            out += ip_opt_variants(rng, mirror, off, 2 * tier_mult)
            out += unreachable_variants(rng, mirror, req, off, bytes.fromhex(kv["hdr"]), 3 * tier_mult)
        if name == "tcp" and len(mirror) >= off + 20:
            out += tcp_opt_variants(rng, mirror, off, 2 * tier_mult)
            out += tcp_flag_variants(mirror, off)
        if name == "udp" and len(mirror) >= off + 8:
            out += udp_len_variants(mirror, off)
    # replies to other requests
    for o in others:
        out.append(("other-request's-mirror", o))
    return out


# ----------------------------------------------------------------------------- the run

def run_gen(exe, stacks):
    """phase 1: the harness builds every request through the public API and serialises request and mirrored reply"""
    ops = ["gen " + "/".join(s) for s in stacks]
    res, faults = core.run_harness_lines(exe, [], ops, case_start=("gen",))
    out = []
    for op, r in zip(ops, res):
        w = r.split(" ")
        if len(w) == 4 and w[0] == "gen" and w[1].startswith("state=") and w[2].startswith("mirror=") and w[3].startswith("req="):
            mh, rh = w[2][7:], w[3][4:]
            out.append((w[1][6:], bytes.fromhex(mh) if mh != "-" else b"", bytes.fromhex(rh) if rh != "-" else b""))
        else:
            out.append((op, None, r))
    return out


def classify(op, impl):
    w = op.split(" ")
    tag = w[3].lstrip("#").split(":")[0] if len(w) > 3 else w[0]
    return f"{tag}:{impl.split(' ')[0][:8]}"


GROUPS = {"len-random": "lengths", "len-mirror": "lengths", "len-stack": "lengths", "trunc": "trunc", "perturb": "perturb", "perturb2": "perturb",
          "bitflip": "perturb", "random": "perturb", "v6ext": "options", "ipopt": "options", "tcpopt": "options", "tcpflags": "options", "udplen": "options",
          "octet": "matched", "boundary": "matched", "v6chain": "v6chain", "v6chain-perturb": "v6chain", "v6chain-edge": "v6chain"}


def group_of(op):
    w = op.split(" ")
    tag = w[3].lstrip("#").split(":")[0] if len(w) > 3 else w[0]
    if tag == "corpus" or tag == "layout":
        return "corpus"
    if tag.startswith("unreach") or tag.startswith("icmp-error"):
        return "icmp-error"
    return GROUPS.get(tag, "mirror")


def sig_of(kind, detail, case):
    w = case[-1].split(" ")
    top = w[1].split("/")[0].split(":")[0] if len(w) > 1 else ""
    tag = w[3].lstrip("#") if len(w) > 3 else ""
    clause = detail.split(" ")[1] if kind == "spec" and len(detail.split(" ")) > 1 else ""
    m = __import__("re").search(r"@(\S+)", detail)
    return {"kind": kind, "clause": clause, "top": top, "site": m.group(1) if m else "",
            "tag": tag if tag.startswith("corpus") else tag.split(":")[0]}


def build_ops(chk, exe, rng):
    quick = chk.tier == "quick"
    ops = ["layout"]
    # (0) regression corpus: minimal inputs of past findings run first
    for f in sorted(glob.glob(os.path.join(core.VERIF, "corpus", "C14", "*.ops"))):
        ops += [l.rstrip("\n") for l in open(f) if l.strip() and not l.startswith("#")]
    gen_failures = []
    # (1) every class as the outermost object, with and without an inner RawPDU: every buffer length 0..128,
    #     random contents and the (perturbed) mirror cut / padded to that length
    singles = []
    for mk in SINGLE_CLASSES:
        for with_inner in (False, True):
            st = mk(rng)
            if with_inner:
                if st[-1].split(":")[0] in ("raw", "other", "icmp", "icmpv6", "dns", "bootp", "dhcp", "dhcpv6", "arp"):
                    continue
                st = st + [l_raw(rng)]
            singles.append(st)
    for state, mirror, req in run_gen(exe, singles):
        if mirror is None:
            gen_failures.append((state, req)); continue
        top = max(128, min(len(mirror), 300) + 8)                   # BootP / DHCP: beyond the 236-byte header
        for L in range(0, top + 1):
            if L <= 128 or not quick or L % 4 == 0 or L >= top - 16:
                ops.append(f"m {state} {hx(bytes(rng.randrange(256) for _ in range(L)))} #len-random")
            base = (mirror + bytes(rng.randrange(256) for _ in range(top + 1)))[:L]
            if not quick or L % 2 == 0 or L < 48 or L >= top - 16:
                ops.append(f"m {state} {hx(base)} #len-mirror")
    # (2) request stacks: mirrored reply, perturbations, truncations, structural variants
    n = 260 if quick else 16000
    mult = 1 if quick else 2
    stacks = [gen_stack(rng) for _ in range(n)]
    gens = run_gen(exe, stacks)
    good = [(s, m, r) for s, m, r in gens if m is not None]
    gen_failures += [(s, r) for s, m, r in gens if m is None]
    # (2a) the stacks the specification newly covers: every buffer length 0 .. |reply| + 8 of the mirrored reply
    #      (for IPv6 of the mirrored reply behind a chain of extension headers), once per stack shape
    NEW = {"bootp", "dhcp", "dhcpv6", "arp", "dot3", "loopback", "radiotap", "ipv6", "sll"}
    seen_shapes = set()
    for state, mirror, req in good:
        names = tuple(n for n, _ in parse_state(state) if n != "cacher")
        if not (NEW & set(names) or names.count("dot1q") >= 2) or names in seen_shapes:
            continue
        if quick and len(seen_shapes) >= 24:
            break
        seen_shapes.add(names)
        base = mirror
        if "ipv6" in names:
            fl, starts = fields_of(state, mirror)
            off = [o for n, o, _ in starts if n == "ipv6"][0]
            if len(mirror) >= off + 40:
                base = v6_ok_variants(rng, state, mirror, off, 1, fl)[0][1]
        tail = bytes(rng.randrange(256) for _ in range(8))
        for L in range(0, len(base) + 9):
            if quick and len(base) > 200 and 60 < L < len(base) - 24 and L % 4:
                continue
            ops.append(f"m {state} {hx((base + tail)[:L])} #len-stack")
    for i, (state, mirror, req) in enumerate(good):
        others = [good[rng.randrange(len(good))][1] for _ in range(2)]
        for tag, reply in replies_for(rng, state, mirror, req, mult, others):
            ops.append(f"m {state} {hx(reply)} #{tag}")
        if not quick and i % 40 == 0:
            for L in range(0, len(mirror) + 1):                    # every truncation length of the mirror
                ops.append(f"m {state} {hx(mirror[:L])} #trunc")
    return ops, gen_failures


def spec_distribution(chk, exe_ops, impl):
    joined = [f"{o} ||| {i}" for o, i in zip(exe_ops, impl)]
    spec = core.run_driver("spec", AREA, "\n".join(joined) + "\n")
    return collections.Counter(" ".join(s.split(" ")[:2]) for s in spec)


def run(chk):
    from translator import gen_limits
    gen_limits.main([])          # Gen/Limits.lean: constants and limits read from the current source
    chk.trusted.append("translator/gen_limits.py (constants / limits of the source -> Gen/Limits.lean: compiled probe + "
                       "preprocessed function bodies at named anchors; tied to the model numerals by Props/Limits/C14.lean)")
    problems = chk.prove(MODULES, AUDIT, want_leanchecker=(chk.tier == "thorough"))
    problems = gen_limits.name_failures(chk, problems, "C14")   # name the tie theorems that fail
    exe, err = core.build_harness(HARNESS, extra=HARNESS_EXTRA)
    if exe is None:
        chk.violation("implementation does not build: " + err[-1500:], ["build-error"], nofail=True)
        return
    rng = random.Random(chk.seed)
    ops, gen_failures = build_ops(chk, exe, rng)
    if gen_failures:
        s, r = gen_failures[0]
        chk.violation(f"harness could not build {len(gen_failures)} generated request(s): {s} -> {r}"[:600],
                      ["machinery-error gen", s, str(r)], nofail=True)
    stats = collections.Counter()
    # one correspondence run per family of replies, so that every family gets its own (shrunk, de-duplicated) reports
    groups = collections.OrderedDict()
    for op in ops:
        groups.setdefault(group_of(op), []).append(op)
    CH = 60000
    for g, gops in groups.items():
        for i in range(0, len(gops), CH):
            stats += corr.correspond(chk, AREA, exe, gops[i:i + CH], case_start=CASE_START, classify=classify, sig_of=sig_of,
                                     max_reports=(16 if g == "corpus" else 6))
    # distribution of what the specification demanded (evidence only)
    sample = ops if chk.tier == "quick" else ops[:200000]
    impl, _ = core.run_harness_lines(exe, [], sample, CASE_START)
    verdicts = spec_distribution(chk, sample, impl)
    chk.extra["spec_verdicts"] = dict(verdicts)
    for p in problems:
        found = stats.get("spec", 0) + stats.get("fault", 0)
        if not found:
            chk.violation("proof obligation no longer checks: " + p[:1500], ["theorem-or-audit-failure", p[:4000]], nofail=True)
    chk.cov["rule"] = ("one evaluation = one matches_response(ptr,len) call on a request object built through the public API and "
                       "serialised; replies: libtins-serialised mirror, request itself, every matched field perturbed octet by octet and "
                       "replaced by boundary values (broadcast / multicast / unspecified addresses, class-D look-alikes in either byte "
                       "order, ff02::1, ports 0 and 65535), single/double field perturbations, TCP flag variants, truncations, IP/TCP "
                       "option variants, well-formed IPv6 extension-header chains + a matched field perturbed behind them + the edges "
                       "of the walk, malformed chains, ICMP errors quoting the request, other requests' mirrors, random bytes and the "
                       "(padded) mirror at every length 0..max(128, header+8) for every class, every length 0..|reply|+8 for one "
                       "stack of every newly specified shape; distinct_nontrivial = distinct (op, result) pairs")
    chk.assumptions += [
        "little-endian bit-field branch of the headers (this platform); big-endian #if branches are not modelled",
        "total_sz passed to the matcher equals the real size of the buffer (what PacketSender::recv_match_loop passes)",
        "the request object is in its post-serialisation state (PacketSender sends before it matches); IP header_ is "
        "taken from the libtins serialisation of the request and given to the model",
        "matched fields of the specification: reply destination = request source (not matched when the request's IPv4 source is "
        "0.0.0.0), reply source = request destination unless that is a group address (Ethernet group bit, IPv4 255.255.255.255 or "
        "224/4, IPv6 ff00::/8), both ports, ICMP/ICMPv6 reply type + identifier + sequence, DNS id, VLAN id, BootP/DHCP xid, DHCPv6 "
        "transaction id + 'the reply is not a relay message', ARP sender/target protocol address.  A reply whose source differs "
        "from a *group* destination is neither demanded nor forbidden (the code accepts it for the Ethernet group bit, "
        "255.255.255.255 and ff02::/16 only)",
        "not matched by libtins and therefore unmatched in the specification: BootP opcode, ARP opcode, TCP flags, every "
        "next-protocol tag (a reply of another protocol / EtherType / loopback family is `unspecified`, not `reject`)",
        "second kind of accepted reply: IPv4 / ICMP type 3 (any code) whose octets 8..27 equal the request's 20-byte header as "
        "serialised — from any source to any destination, whatever follows; ICMP errors of other types, and ICMPv6 errors, have "
        "no accept clause",
        "IPv6 chains the specification follows: any sequence of hop-by-hop (0), routing (43), fragment (44), destination options "
        "(60), mobility (135) headers, each whole and followed by at least one octet.  Restrictions taken from RFC 8200 §4.5 for "
        "what a conforming peer sends: a fragment header has its reserved octet zero and offset 0 (first fragment).  A non-zero "
        "reserved octet is the known finding KF-C14-5 (the code takes it for a length; the oracle evaluates such replies on "
        "their RFC view = the octet zeroed, clause fragment_reserved_ignored).  Also outside the relation, compared "
        "model-vs-code only: a reply that ends exactly with an extension header is not followed (loop condition total_sz > 8; "
        "such a packet has no upper layer); no-next-header (59) is walked like an extension header; AH (51), ESP (50), HIP, "
        "shim6 are not walked",
        "DHCPv6 relay-forward / relay-reply *requests* have no clause (libtins never matches them: dhcpv6_matches_iff); "
        "SLL has no matcher and cannot be sent (PDU default: rawpdu_and_default)",
    ]
    chk.trusted += ["correspondence harness harness/c14_match.cpp + generators in checks/C14.py",
                    "header sizes and protocol constants: `layout` op compares the tree's sizeof()/enums with the model's constants",
                    "g++ 12 / ASan+UBSan build of the repo's working tree; exact-size malloc block per reply buffer"]
    chk.extra["modelled_not_proved"] = [
        "RawPDU, PDU default (SLL, LLC, Dot11, ...), PDUCacher, DHCPv6 relay requests, ICMPv6 router/neighbour solicitation: "
        "matcher_noFault + closed-form theorems + correspondence; no clause in the mirrored-reply relation (oracle: unspecified)",
        "IPv6 replies whose chain contains AH / ESP / no-next-header / a non-first or reserved-octet-set fragment header, or that "
        "end with an extension header: walk modelled, fault-freedom and fuel bound proved, correspondence on generated chains; "
        "the relation has no clause for them",
        "replies of another protocol than the request's (cross-protocol confusion: no matcher compares a next-protocol tag) and "
        "replies from a unicast source to a multicast (non-broadcast) request: model + correspondence only",
    ]
    corr.finalize_cov(chk)


def replay(path):
    exe, err = core.build_harness(HARNESS, extra=HARNESS_EXTRA)
    if exe is None:
        print("build failed:", err[-2000:]); return 1
    ops = [l.rstrip("\n") for l in open(path) if not l.startswith("#") and l.strip()]
    impl, mod, spec, faults = corr.evaluate(AREA, exe, ops, CASE_START)
    bad = corr.first_problem(ops, impl, mod, spec)
    for o, a, b, c in zip(ops, impl, mod, spec):
        print(o[:400]); print("  impl :", a[:300]); print("  model:", b[:300]); print("  spec :", c)
    if bad:
        print(f"VIOLATION property=C14 replay={path}")
        return 1
    return 0
