"""C06 — TCP stream reassembly delivers exactly the sent byte stream."""
import random
from vlib import core, corr

AREA = "C06"
MODULES = ["TinsModel.Props.C06"]
AUDIT = "Audit/C06.lean"
LEVEL = "proof"
MANIFEST = dict(
    text="Lean 4 theorems over a code-shaped executable model of DataTracker::process_payload (uint32 wrap explicit), "
         "tied to the code by differential correspondence on random/exhaustive arrival histories under ASan/UBSan and by "
         "a spec oracle (the Lean spec itself, executable) evaluated on the implementation's own output.",
    note="Trusted: Lean kernel + standard axioms; hand-written model tied by correspondence (harness/c06_tracker.cpp); "
         "std::map successor modelled order-theoretically; generator coverage bounds what the tie sees.",
    technique="Lean 4 proof (invariant/refinement over arrival histories) + model/impl correspondence",
    design="DESIGN.md §6 C06")

BOUNDARY_ISNS = [0, 1, 2**31 - 1, 2**31, 2**32 - 1] + [2**32 - k for k in range(2, 26)]


def hexs(b):
    return b.hex() if b else "-"


def gen_case(rng, max_len, max_segs):
    L = rng.choice([0, 1, 2, 3, 5, 8, 13, 24, rng.randint(0, max_len), rng.randint(0, max_len)])
    L = min(L, max_len)
    s = bytes(rng.randrange(256) for _ in range(L))
    isn = rng.choice(BOUNDARY_ISNS) if rng.random() < 0.7 else rng.randrange(2**32)
    if rng.random() < 0.3 and L:
        isn = (2**32 - rng.randint(0, L)) % 2**32          # the stream crosses the wrap point
    ops = [f"init {isn} {hexs(s)}"]
    segs = []
    style = rng.random()
    if style < 0.4 and L:
        # a partition of the stream, shuffled, with duplicates and re-cut retransmissions
        cuts = sorted(set([0, L] + [rng.randint(0, L) for _ in range(rng.randint(0, max_segs))]))
        segs = [(a, b - a) for a, b in zip(cuts, cuts[1:])]
        segs += [rng.choice(segs) for _ in range(rng.randint(0, 3))]
        for _ in range(rng.randint(0, 3)):
            a = rng.randint(0, L); segs.append((a, rng.randint(0, L - a)))
    else:
        for _ in range(rng.randint(1, max_segs)):
            a = rng.randint(-6, L)
            ln = rng.randint(0, max(0, L - a))
            if a < 0 and rng.random() < 0.5:
                ln = rng.randint(0, -a)       # entirely stale
            segs.append((a, ln))
    rng.shuffle(segs)
    for a, ln in segs:
        ln = min(ln, L - a) if a + ln > L else ln
        data = bytes(rng.randrange(256) for _ in range(max(0, min(-a, ln)))) + s[max(a, 0):max(a + ln, 0)]
        ops.append(f"seg {(isn + a) % 2**32} {hexs(data)} @{a}")
    if rng.random() < 0.1:
        ops.append(f"adv {(isn + rng.randint(0, L + 3)) % 2**32}")
        for _ in range(rng.randint(0, 3)):
            a = rng.randint(0, L); ln = rng.randint(0, L - a)
            ops.append(f"seg {(isn + a) % 2**32} {hexs(s[a:a+ln])} @{a}")
    return ops


def exhaustive_cases(limit):
    """all arrival orders of the pieces of every composition of a short stream, at boundary ISNs"""
    import itertools
    out = []
    s = bytes(range(1, 7))
    for isn in [0, 2**31 - 3, 2**32 - 3, 2**32 - 6]:
        for cutmask in range(2 ** 5):
            cuts = [0] + [i + 1 for i in range(5) if cutmask >> i & 1] + [6]
            segs = [(a, b - a) for a, b in zip(cuts, cuts[1:])]
            if len(segs) > 4:
                continue
            for perm in itertools.permutations(segs + [segs[0]]):
                out.append([f"init {isn} {hexs(s)}"] + [f"seg {(isn + a) % 2**32} {hexs(s[a:a+l])} @{a}" for a, l in perm])
                if len(out) >= limit:
                    return out
    return out


def classify(op, impl):
    w = op.split(" ")
    if w[0] != "seg":
        return w[0]
    tag = "seg"
    if impl.startswith("r=1"):
        tag += ":delivered"
    elif "buf=" in impl and not impl.endswith("buf="):
        tag += ":buffered"
    else:
        tag += ":ignored-or-empty"
    if w[-1].startswith("@-"):
        tag += ":stale-start"
    return tag


def sig_of(kind, detail, case):
    return {"kind": kind, "clause": detail.split(" ")[1] if kind == "spec" else ""}


def run(chk):
    problems = chk.prove(MODULES, AUDIT, want_leanchecker=(chk.tier == "thorough"))
    exe, err = core.build_harness("c06_tracker")
    if exe is None:
        chk.violation("implementation does not build: " + err[-1500:], ["build-error"], nofail=True)
        return
    rng = random.Random(chk.seed)
    ncases = 1500 if chk.tier == "quick" else 40000
    ops = []
    for c in exhaustive_cases(400 if chk.tier == "quick" else 10**6):
        ops += c
    for i in range(ncases):
        big = (i % 50 == 0)
        ops += gen_case(rng, 4096 if big else 48, 40 if big else 9)
    stats = corr.correspond(chk, AREA, exe, ops, case_start=("init",), classify=classify, sig_of=sig_of)
    if chk.tier == "thorough":
        for c in range(4):
            ops = []
            for i in range(40):
                ops += gen_case(rng, 65535, 400)
            stats += corr.correspond(chk, AREA, exe, ops, case_start=("init",), classify=classify, sig_of=sig_of)
    for p in problems:
        # a theorem no longer checks: the run above was the search for a concrete failing input
        found = stats.get("spec", 0) + stats.get("fault", 0)
        if not found:
            chk.violation("proof obligation no longer checks: " + p[:1500], ["theorem-or-audit-failure", p[:4000]], nofail=True)
    chk.cov["rule"] = ("cases = (stream, ISN, arrival history of segments cut from the stream incl. stale, duplicate, "
                       "overlapping, empty); distinct_nontrivial counts distinct (operation, implementation result) pairs")
    chk.assumptions += [
        "std::map iterator successor is modelled order-theoretically (least greater key, else least key)",
        "payload equality with s.take k is compared through length + FNV-1a 64 in the run-time oracle",
        "segments with |payload| >= 2^31 (vector::erase past the end, UB) are outside the property's hypothesis",
    ]
    chk.trusted += ["correspondence harness harness/c06_tracker.cpp + generators in checks/C06.py",
                    "g++ 12 / ASan+UBSan build of /repo's working tree"]
    corr.finalize_cov(chk)


def replay(path):
    exe, err = core.build_harness("c06_tracker")
    ops = [l.rstrip("\n") for l in open(path) if not l.startswith("#") and l.strip()]
    impl, mod, spec, faults = corr.evaluate(AREA, exe, ops, ("init",))
    bad = corr.first_problem(ops, impl, mod, spec)
    for o, a, b, c in zip(ops, impl, mod, spec):
        print(o[:200]); print("  impl :", a[:300]); print("  model:", b[:300]); print("  spec :", c)
    if bad:
        print(f"VIOLATION property=C06 replay={path}")
        return 1
    return 0
