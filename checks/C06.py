"""C06 — TCP stream reassembly delivers exactly the sent byte stream."""
import random
from vlib import core, corr

AREA = "C06"
MODULES = ["TinsModel.Props.C06", "TinsModel.Props.C06Sessions", "TinsModel.Props.C06Hyp", "TinsModel.Props.Limits.C06"]   # + the constants / limits tied to the source (translator/gen_limits.py)
AUDIT = ["Audit/C06.lean", "Audit/C06Sessions.lean", "Audit/C06Hyp.lean", "Audit/LimitsC06.lean"]
LEVEL = "proof"
MANIFEST = dict(
    text="Lean 4 theorems over code-shaped executable models of DataTracker::process_payload/advance_sequence, "
         "Flow::process_packet (over the C07 model of the Flow state machine: update_state, SYN offset) and the legacy "
         "TCPStream / TCPStreamFollower (generic_process, update, the session table keyed by the 4-tuple, the data / end "
         "functors; uint32 wrap explicit): refinement of a set-of-arrived-positions spec for all streams, all ISNs "
         "(wrap-around included) and all arrival histories, via an abstract tracker over absolute positions and a "
         "simulation under the key map a -> (isn+a) mod 2^32; for the legacy follower a reachable-state invariant of the "
         "session table, a projection theorem (every connection's session and functor calls are those of the "
         "single-connection machine over its own packets, for every capture and every interleaving) and the "
         "single-connection machine phase by phase composed with the legacy refinement (follower_interleaving); each "
         "hypothesis of the main theorem shown necessary by a witness (Props/C06Hyp.lean). "
         "Tied to the code by differential correspondence on random/exhaustive arrival histories under ASan/UBSan "
         "(DataTracker directly, Flow with real IP/TCP/RawPDU packets incl. SYN / FIN / RST segments, TCPStreamFollower "
         "with 2-4 interleaved scripted connections: functor trace + whole session table after every packet) and by a "
         "spec oracle (the Lean spec itself, executable) evaluated on the implementation's own output.",
    note="Trusted: Lean kernel + standard axioms; hand-written models tied by correspondence (harness/c06_*.cpp); "
         "std::map successor modelled order-theoretically, std::map<StreamInfo,_> as an association list under the "
         "equivalence of StreamInfo::operator< (proved to be equality of the four fields); generator coverage bounds what "
         "the tie sees; long chunks and the delivered payload are compared through length + FNV-1a 64.",
    technique="Lean 4 proof (invariant + simulation/refinement over arrival histories; projection of a multi-connection "
              "state machine onto per-connection machines) + model/impl correspondence",
    design="DESIGN.md §6 C06")
MANIFEST["note"] += (" Constants and limits of the C++ source that the model restates (translator/gen_limits.py -> Gen/Limits.lean: "
                     "compiled probe + preprocessed function bodies at named anchors) are tied to the model's numerals by the "
                     "theorems of lean/TinsModel/Props/Limits/C06.lean (audit: Audit/LimitsC06.lean); tools/LIMITS-INVENTORY.md lists "
                     "what is tied and what is not.")

BOUNDARY_ISNS = [0, 1, 2**31 - 1, 2**31, 2**32 - 1] + [2**32 - k for k in range(2, 26)]


def hexs(b):
    return b.hex() if b else "-"


def gen_case(rng, max_len, max_segs):
    L = rng.choice([0, 1, 2, 3, 5, 8, 13, 24, rng.randint(0, max_len), rng.randint(0, max_len)])
    L = min(L, max_len)
    s = bytes(rng.randrange(256) for _ in range(L))
    isn = rng.choice(BOUNDARY_ISNS) if rng.random() < 0.7 else rng.randrange(2**32)
    if rng.random() < 0.3 and L:
        isn = (2**32 - rng.randint(0, L)) % 2**32          # the stream crosses the wrap point
    ops = [f"init {isn} {hexs(s)}"]
    segs = []
    style = rng.random()
    if style < 0.4 and L:
        # a partition of the stream, shuffled, with duplicates and re-cut retransmissions
        cuts = sorted(set([0, L] + [rng.randint(0, L) for _ in range(rng.randint(0, max_segs))]))
        segs = [(a, b - a) for a, b in zip(cuts, cuts[1:])]
        segs += [rng.choice(segs) for _ in range(rng.randint(0, 3))]
        for _ in range(rng.randint(0, 3)):
            a = rng.randint(0, L); segs.append((a, rng.randint(0, L - a)))
    else:
        for _ in range(rng.randint(1, max_segs)):
            a = rng.randint(-6, L)
            ln = rng.randint(0, max(0, L - a))
            if a < 0 and rng.random() < 0.5:
                ln = rng.randint(0, -a)       # entirely stale
            segs.append((a, ln))
    rng.shuffle(segs)
    for a, ln in segs:
        ln = min(ln, L - a) if a + ln > L else ln
        data = bytes(rng.randrange(256) for _ in range(max(0, min(-a, ln)))) + s[max(a, 0):max(a + ln, 0)]
        ops.append(f"seg {(isn + a) % 2**32} {hexs(data)} @{a}")
    if rng.random() < 0.1:
        ops.append(f"adv {(isn + rng.randint(0, L + 3)) % 2**32}")
        for _ in range(rng.randint(0, 3)):
            a = rng.randint(0, L); ln = rng.randint(0, L - a)
            ops.append(f"seg {(isn + a) % 2**32} {hexs(s[a:a+ln])} @{a}")
    return ops


def exhaustive_cases(limit, L=6, maxsegs=4, isns=(0, 2**31 - 3, 2**32 - 3, 2**32 - 6), recut=False):
    """all arrival orders of the pieces of every composition of a short stream plus one extra segment (a duplicate
    of the first piece and, with `recut`, a retransmission with different boundaries that straddles the pieces),
    at boundary ISNs (the stream crosses 2^31 resp. 2^32)"""
    import itertools
    out = []
    s = bytes(range(1, L + 1))
    for isn in isns:
        for cutmask in range(2 ** (L - 1)):
            cuts = [0] + [i + 1 for i in range(L - 1) if cutmask >> i & 1] + [L]
            segs = [(a, b - a) for a, b in zip(cuts, cuts[1:])]
            if len(segs) > maxsegs:
                continue
            extras = [segs[0]] + ([(1, L - 2)] if recut and L > 3 else [])
            for extra in extras:
                for perm in itertools.permutations(segs + [extra]):
                    out.append([f"init {isn} {hexs(s)}"] + [f"seg {(isn + a) % 2**32} {hexs(s[a:a+l])} @{a}" for a, l in perm])
                    if len(out) >= limit:
                        return out
    return out


def dup_case(rng):
    """directed: in-order delivery with immediate exact retransmissions, retransmissions that end exactly at the
    delivery point, and empty segments at / around the delivery point"""
    L = rng.randint(1, 24)
    s = bytes(rng.randrange(256) for _ in range(L))
    isn = rng.choice(BOUNDARY_ISNS) if rng.random() < 0.7 else rng.randrange(2**32)
    ops = [f"init {isn} {hexs(s)}"]
    k = 0
    while k < L:
        n = rng.randint(1, L - k)
        segs = [(k, n)]
        k += n
        for _ in range(rng.randint(0, 2)):
            style = rng.random()
            if style < 0.4:
                segs.append(segs[0])                               # exact retransmission
            elif style < 0.7:
                a = rng.randint(-3, k); segs.append((a, k - a))    # ends exactly at the delivery point
            elif style < 0.85:
                segs.append((k + rng.randint(-1, 1), 0))           # empty segment at / next to the delivery point
            else:
                a = rng.randint(0, k); segs.append((a, rng.randint(0, k - a)))   # entirely old
        for a, ln in segs:
            if a > L:
                continue
            ln = min(ln, L - a)
            data = bytes(rng.randrange(256) for _ in range(max(0, min(-a, ln)))) + s[max(a, 0):max(a + ln, 0)]
            ops.append(f"seg {(isn + a) % 2**32} {hexs(data)} @{a}")
    return ops


def to_flow(rng, case):
    """the same case through Flow::process_packet with real IP/TCP/RawPDU packets; in a third of the cases the flow is
    opened by a SYN (Flow::update_state sets the expected sequence number; sometimes the SYN carries data, TCP Fast Open),
    segments carry PSH / FIN / RST / SYN flags (data is handled in every state; the payload of a SYN segment starts one past
    its sequence number), the SYN is retransmitted later"""
    out = []
    stateful = rng.random() < 0.35
    isn = 0
    for op in case:
        w = op.split(" ")
        if w[0] == "init":
            isn = int(w[1])
            if not stateful:
                out.append("f" + op)
                continue
            # the flow is created with some other sequence number; the SYN brings the real one
            r = rng.random()
            if r < 0.12:
                # FIN / RST before any SYN: the flow leaves UNKNOWN, so a later SYN does not move the expected sequence number
                out.append(f"finit {isn} {w[2]}")
                out.append(f"fpkt {rng.choice([FIN | ACK, RST])} {rng.randrange(2**32)} ~")
                out.append(f"fpkt {SYN} {rng.randrange(2**32)} ~")
            else:
                out.append(f"finit {rng.choice([isn, 0, (isn + 7) % 2**32, rng.randrange(2**32)])} {w[2]}")
                if r < 0.3:
                    out.append(f"fbare {rng.randrange(2**32)}")        # an ACK in UNKNOWN changes nothing
                if r < 0.5 and w[2] != "-":
                    # TCP Fast Open: the SYN that opens the flow carries the first bytes of the stream
                    s = bytes.fromhex(w[2])
                    out.append(f"fpkt {SYN} {(isn - 1) % 2**32} {hexs(s[:rng.randint(0, len(s))])} @0")
                else:
                    out.append(f"fpkt {rng.choice([SYN, SYN | ACK])} {(isn - 1) % 2**32} ~")
        elif w[0] == "seg":
            if stateful and rng.random() < 0.5:
                seq, hx, off = int(w[1]), w[2], w[3]
                fl = rng.choice([ACK | PSH, ACK | FIN, ACK | FIN | PSH, RST, RST | ACK, ACK | PSH | 32, SYN | ACK, SYN])
                if fl & SYN:
                    seq = (seq - 1) % 2**32                              # the SYN occupies one sequence number
                out.append(f"{'fpktp' if rng.random() < 0.3 else 'fpkt'} {fl} {seq} {hx} {off}")
            else:
                out.append(("fsegp " if rng.random() < 0.3 else "fseg ") + " ".join(w[1:]))
            if stateful and rng.random() < 0.05:
                out.append(f"fpkt {rng.choice([SYN, FIN | ACK, RST])} {(isn - 1) % 2**32} ~")
            if rng.random() < 0.05:
                out.append(f"fbare {w[1]}")
        elif w[0] == "adv":
            out.append("f" + op)
    if rng.random() < 0.03:
        out.insert(rng.randint(1, len(out)), "fignore")
    return out


def to_legacy(rng, case):
    """the same case through TCPStreamFollower (client direction carries the stream; server direction is noise)"""
    out = []
    sisn = rng.choice(BOUNDARY_ISNS)
    spos = 0
    for op in case:
        w = op.split(" ")
        if w[0] == "init":
            out.append(f"linit {w[1]} {sisn} {w[2]}")
        elif w[0] == "seg":
            out.append(("lsegp c " if rng.random() < 0.3 else "lseg c ") + " ".join(w[1:]))
            r = rng.random()
            if r < 0.08:
                n = rng.randint(0, 4)
                out.append(f"lseg s {(sisn + spos + rng.choice([0, 0, 0, 2, -1])) % 2**32} {hexs(bytes(rng.randrange(256) for _ in range(n)))}")
                spos += n if out[-1].split(' ')[2] == str((sisn + spos) % 2**32) else 0
            elif r < 0.12:
                out.append(f"lbare c {w[1]}")
        # advance_sequence has no counterpart in the legacy follower: the case ends there
        elif w[0] == "adv":
            break
    return out


def rand_segs(rng, L, max_segs):
    """(offset, length) pairs cut from a stream of length L: a shuffled partition with duplicates and re-cut
    retransmissions, or arbitrary overlapping / stale / empty segments"""
    segs = []
    if rng.random() < 0.5 and L:
        cuts = sorted(set([0, L] + [rng.randint(0, L) for _ in range(rng.randint(0, max_segs))]))
        segs = [(a, b - a) for a, b in zip(cuts, cuts[1:])]
        segs += [rng.choice(segs) for _ in range(rng.randint(0, 2))]
        for _ in range(rng.randint(0, 2)):
            a = rng.randint(0, L); segs.append((a, rng.randint(0, L - a)))
        if rng.random() < 0.3:
            segs.pop(rng.randrange(len(segs)))          # a hole that may stay open
    else:
        for _ in range(rng.randint(0, max_segs)):
            a = rng.randint(-4, L)
            ln = rng.randint(0, max(0, L - a))
            if a < 0 and rng.random() < 0.5:
                ln = rng.randint(0, -a)
            segs.append((a, ln))
    rng.shuffle(segs)
    return [(a, min(ln, L - a) if a + ln > L else ln) for a, ln in segs]


def seg_bytes(rng, s, a, ln):
    return bytes(rng.randrange(256) for _ in range(max(0, min(-a, ln)))) + s[max(a, 0):max(a + ln, 0)]


# raw `ip_addr_` values: the numeric order of the stored member differs from the order of the dotted form
HOSTS = [0x0200000A, 0x0100000A, 0x01000002, 0x02000001, 0xFFFFFFFF, 1]   # not 0: IP::serialize fills in a source address for 0.0.0.0
FIN, SYN, RST, PSH, ACK = 1, 2, 4, 8, 16


def conn_script(rng, idx, tup, big=False):
    """one scripted connection of the legacy follower: declaration line + packet lines (in the connection's own order).
    Handshake, data both ways (reordered, duplicated, overlapping, stale-start; ISNs at and across the wrap), then FIN or
    RST from either side (with or without data), then packets after the end."""
    ca, sa, cp, sp = tup
    def stream():
        L = rng.choice([0, 1, 2, 3, 5, 8, 13, 24, rng.randint(0, 48)])
        if big:
            L = rng.randint(40, 1500)
        return bytes(rng.randrange(256) for _ in range(L))
    sc, ss = stream(), stream()
    def isn(L):
        r = rng.random()
        if r < 0.35 and L:
            return (2**32 - rng.randint(0, L)) % 2**32          # the stream crosses the wrap point
        return rng.choice(BOUNDARY_ISNS) if r < 0.8 else rng.randrange(2**32)
    cisn, sisn = isn(len(sc)), isn(len(ss))
    decl = f"mconn {idx} {ca} {sa} {cp} {sp} {cisn} {sisn} {hexs(sc)} {hexs(ss)}"
    def pkt(from_client, flags, seq, ack, payload, off=None):
        a, b, p, q = (ca, sa, cp, sp) if from_client else (sa, ca, sp, cp)
        op = "mpktp" if rng.random() < 0.25 else "mpkt"
        pl = "~" if payload is None else hexs(payload)
        return f"{op} {a} {b} {p} {q} {flags} {seq % 2**32} {ack % 2**32} {pl}" + (f" @{off}" if off is not None else "")
    out = [pkt(True, SYN, cisn - 1, 0, None)]
    if rng.random() < 0.1:
        out.append(pkt(True, SYN, cisn - 1, 0, None))             # retransmitted SYN
    out.append(pkt(False, SYN | ACK, sisn - 1, cisn, None))
    if rng.random() < 0.6:
        out.append(pkt(True, ACK, cisn, sisn, None))
    data = [(True, a, ln) for a, ln in rand_segs(rng, len(sc), 40 if big else 7)] + \
           [(False, a, ln) for a, ln in rand_segs(rng, len(ss), 40 if big else 7)]
    rng.shuffle(data)
    def data_pkt(fc, a, ln, flags):
        s, i, other = (sc, cisn, sisn) if fc else (ss, sisn, cisn)
        return pkt(fc, flags, i + a, other, seg_bytes(rng, s, a, ln), a)
    last = None
    if data and rng.random() < 0.4:
        last = data.pop()
    for fc, a, ln in data:
        out.append(data_pkt(fc, a, ln, ACK | (PSH if rng.random() < 0.3 else 0)))
        if rng.random() < 0.05:
            out.append(pkt(fc, ACK, (cisn if fc else sisn) + a, 0, None))     # bare ACK
    r = rng.random()
    if r < 0.92:
        endflags = rng.choice([FIN | ACK, FIN, RST, RST | ACK, FIN | RST | ACK])
        if last is not None:
            out.append(data_pkt(last[0], last[1], last[2], endflags))        # FIN / RST segment carrying data
        else:
            fc = rng.random() < 0.5
            out.append(pkt(fc, endflags, (cisn + len(sc)) if fc else (sisn + len(ss)), 0, None))
        # after the end: the other side's FIN, a late retransmission, a bare ACK -- none of them may reach a functor
        for _ in range(rng.randint(0, 3)):
            fc = rng.random() < 0.5
            k = rng.random()
            if k < 0.4:
                out.append(pkt(fc, rng.choice([FIN | ACK, RST, ACK]), (cisn + len(sc)) if fc else (sisn + len(ss)), 0, None))
            else:
                s = sc if fc else ss
                a = rng.randint(0, len(s)); ln = rng.randint(0, len(s) - a)
                out.append(data_pkt(fc, a, ln, ACK))
    else:
        if last is not None:
            out.append(data_pkt(last[0], last[1], last[2], ACK))
        return decl, out, False
    return decl, out, True


def wild_script(rng, tup):
    """packets of a 4-tuple the oracle knows nothing about (model / implementation correspondence and the frame clause
    only): no SYN at all, a SYN+ACK first, a RST answering the SYN, data before the handshake completes"""
    ca, sa, cp, sp = tup
    def pkt(fc, flags, seq, ack, payload):
        a, b, p, q = (ca, sa, cp, sp) if fc else (sa, ca, sp, cp)
        return f"mpkt {a} {b} {p} {q} {flags} {seq % 2**32} {ack % 2**32} {'~' if payload is None else hexs(payload)}"
    out = []
    style = rng.random()
    isn = rng.choice(BOUNDARY_ISNS)
    if style < 0.25:                        # never opened
        out += [pkt(rng.random() < 0.5, rng.choice([ACK, SYN | ACK, FIN | ACK, RST]), isn, 5, rng.choice([None, b"", b"\x01\x02"]))
                for _ in range(rng.randint(1, 4))]
    elif style < 0.5:                       # connection refused: the session never completes its handshake
        out += [pkt(True, SYN, isn - 1, 0, None), pkt(False, RST | ACK, 0, isn, None), pkt(True, ACK, isn, 1, b"\x07")]
    elif style < 0.75:                      # data and FIN before the SYN+ACK, SYN+ACK from the client side
        out += [pkt(True, SYN, isn - 1, 0, None), pkt(True, ACK, isn, 0, b"\x01\x02"), pkt(False, FIN | ACK, 7, isn, None),
                pkt(True, SYN | ACK, 99, 1000, None), pkt(True, ACK, 1000, 0, b"\x03"), pkt(False, ACK, 100, 0, b"\x04\x05"),
                pkt(False, ACK | FIN, 102, 0, b"\x06")]
    else:                                   # simultaneous open / SYN carrying data / second SYN+ACK
        out += [pkt(True, SYN, isn - 1, 0, b"\x09"), pkt(False, SYN, 41, 0, None), pkt(False, SYN | ACK, 41, isn, None),
                pkt(True, ACK, isn, 42, b"\x01"), pkt(False, SYN | ACK, 77, isn + 1, None), pkt(False, ACK, 42, 0, b"\x02\x03"),
                pkt(True, RST, isn + 1, 0, b"\x04")]
    return out


def session_case(rng, big=False):
    """2-4 scripted connections interleaved through one TCPStreamFollower: same ports on swapped hosts, one port different,
    ports swapped; sometimes one of them is closed and re-opened (a new stream with the next identifier), sometimes packets
    of an undeclared 4-tuple run in between"""
    a, b, c = rng.sample(HOSTS, 3)
    p, q = rng.choice([(4321, 80), (80, 80), (0, 65535), (1024, 1025)])
    # (a,b,q,p) would be the reverse of (b,a,p,q): the same connection as far as any follower can tell
    # (and with p == q the swapped hosts are the reverse tuple as well)
    tuples = [(a, b, p, q), (b, a, p, q) if p != q else (c, b, p, q), (a, b, p, (q + 1) % 65536), (a, c, p, q)]
    n = rng.randint(2, 4)
    rng.shuffle(tuples)
    decls, scripts = [], []
    for i in range(n):
        d, sc, ended = conn_script(rng, i, tuples[i], big and i == 0)
        decls.append(d)
        if ended and rng.random() < 0.2:
            d2, sc2, _ = conn_script(rng, i, tuples[i])  # the same 4-tuple again after the first incarnation ended
            sc = sc + [d2] + sc2
        scripts.append(sc)
    if rng.random() < 0.3:
        scripts.append(wild_script(rng, rng.choice([(c, a, p, q), (c, b, 5, 6), (b, b, 7, 7), (b, a, q, p)])))
    out = ["minit"] + decls
    idx = [0] * len(scripts)
    live = [i for i in range(len(scripts)) if scripts[i]]
    while live:
        i = rng.choice(live)
        out.append(scripts[i][idx[i]])
        idx[i] += 1
        if idx[i] == len(scripts[i]):
            live.remove(i)
    return out


# Witnesses of lean/TinsModel/Props/C06Hyp.lean: histories OUTSIDE the property's hypothesis (one hypothesis dropped each), run on the
# real DataTracker on every run: the model must agree with the code on them and the oracle must reject them with the named clause
# (so the `..._needed` theorems speak about what the code does, and the oracle is seen to reject something on every run).
HYPOTHESIS_WITNESSES = [
    ("half_window_needed", ["init 0 07", "seg 0 07 @0", "seg 2147483649 - @-2147483647"], "buffered-state"),
    ("half_window_needed_nonempty", ["init 0 0708", "seg 0 0708 @0", "seg 2147483649 09 @-2147483647"], "buffered-state"),
    ("segment_inside_needed", ["init 5 01", "seg 7 - @2"], "buffered-state"),
    ("segment_agrees_needed", ["init 5 0102", "seg 5 0109 @0"], "delivered-prefix"),
]


def hypothesis_witnesses(chk, exe):
    for name, ops, clause in HYPOTHESIS_WITNESSES:
        impl, mod, spec, _ = corr.evaluate(AREA, exe, ops, ("init",))
        if impl != mod:
            chk.violation(f"witness {name}: model and DataTracker differ: impl {impl[-1][:200]} | model {mod[-1][:200]}",
                          ops + ["# impl:  " + x for x in impl] + ["# model: " + x for x in mod], nofail=True,
                          signature={"kind": "diff", "family": "witness", "clause": name})
        elif not spec[-1].startswith("violates " + clause) or any(x.startswith("violates") for x in spec[:-1]):
            chk.violation(f"witness {name}: the oracle no longer rejects the history with `{clause}`: {spec[-1][:200]}",
                          ops + ["# spec:  " + x for x in spec], nofail=True,
                          signature={"kind": "oracle", "family": "witness", "clause": name})
        chk.cov["evaluations"] += len(ops)


def oversize_witness(chk, exe):
    """`oversize_segment_dropped` on the real class: an in-order segment of 2^31 + 1 bytes is discarded whole (defined behaviour,
    no sanitizer report: `erase_in_bounds`); 2 GiB of zero pages, thorough tier only"""
    for isn in (0, 4294967295):
        ops = [f"init {isn}", f"bigseg {isn} 2147483649 7"]
        impl, faults = core.run_harness_lines(exe, (), ops, ("init",))
        want = f"r=0 seq={isn} total=0 plen=0 ph=14695981039346656037 buf="
        if len(impl) < 2 or impl[1] != want:
            chk.violation(f"oversize_segment_dropped does not describe DataTracker: got {impl[-1][:200]} want {want}",
                          ops + ["# impl:  " + x for x in impl], nofail=True,
                          signature={"kind": "diff", "family": "witness", "clause": "oversize_segment_dropped"})
        chk.cov["evaluations"] += 2


def classify(op, impl):
    w = op.split(" ")
    if w[0] in ("mpkt", "mpktp"):
        ev = impl.split(" ")[0] if impl.startswith("ev=") else "?"
        fl = int(w[5]) if len(w) > 5 and w[5].isdigit() else 0
        tag = w[0] + ":" + "".join(n for b, n in ((SYN, "S"), (ACK, "A"), (FIN, "F"), (RST, "R")) if fl & b)
        tag += ":data" if len(w) > 8 and w[8] != "~" else ":bare"
        tag += ":" + ("D" if "D" in ev else "") + ("E" if "E" in ev else "") if ev not in ("ev=-", "?") else ""
        tag += ":nsess=" + str(0 if impl.endswith("sess=-") else impl.count(";") + 1) if " sess=" in impl else ""
        return tag
    if w[0] not in ("seg", "fseg", "fsegp", "lseg", "lsegp"):
        return w[0]
    tag = w[0]
    if impl.startswith("r=1"):
        tag += ":delivered"
    elif ("buf=" in impl and not impl.endswith("buf=")) or (" c=" in impl and not impl.split(" c=")[1].split(" ")[0].endswith("/")):
        tag += ":buffered"
    else:
        tag += ":ignored-or-empty"
    if " ooo=1" in impl:
        tag += ":ooo"
    if w[-1].startswith("@-"):
        tag += ":stale-start"
    return tag


def sig_of(kind, detail, case):
    fam = {"i": "tracker", "f": "flow", "l": "legacy", "m": "sessions"}.get(case[0][:1], "?") if case else "?"
    return {"kind": kind, "family": fam, "clause": detail.split(" ")[1] if kind == "spec" else ""}


HARNESSES = [("c06_tracker", (), ("init",), lambda rng, c: c),
             ("c06_flow", (), ("finit",), to_flow),
             ("c06_legacy", ("-fno-access-control",), ("linit", "minit"), to_legacy)]


def build_all():
    exes = {}
    for name, extra, _, _ in HARNESSES:
        exe, err = core.build_harness(name, extra=extra)
        if exe is None:
            return None, f"{name}: {err}"
        exes[name] = exe
    return exes, None


def run(chk):
    from translator import gen_limits
    gen_limits.main([])          # Gen/Limits.lean: constants and limits read from the current source
    chk.trusted.append("translator/gen_limits.py (constants / limits of the source -> Gen/Limits.lean: compiled probe + "
                       "preprocessed function bodies at named anchors; tied to the model numerals by Props/Limits/C06.lean)")
    problems = chk.prove(MODULES, AUDIT, want_leanchecker=(chk.tier == "thorough"))
    problems = gen_limits.name_failures(chk, problems, "C06")   # name the tie theorems that fail
    exes, err = build_all()
    if exes is None:
        chk.violation("implementation does not build: " + err[-1500:], ["build-error"], nofail=True)
        return
    rng = random.Random(chk.seed)
    ncases = 6000 if chk.tier == "quick" else 40000
    if chk.tier == "quick":
        cases = list(exhaustive_cases(400))
    else:
        cases = list(exhaustive_cases(10**6)) + \
            list(exhaustive_cases(10**6, L=7, maxsegs=5, isns=(1, 2**31 - 1, 2**32 - 1, 2**32 - 4), recut=True))
    for i in range(ncases):
        big = (i % 50 == 0)
        cases.append(gen_case(rng, 4096 if big else 48, 40 if big else 9))
        if i % 3 == 0:
            cases.append(dup_case(rng))
    stats = __import__("collections").Counter()
    hypothesis_witnesses(chk, exes["c06_tracker"])
    if chk.tier == "thorough":
        oversize_witness(chk, exes["c06_tracker"])
    for name, _, start, conv in HARNESSES:
        # the tracker sees every case; Flow and the legacy follower (real packets, slower) every second one
        step = 1 if name == "c06_tracker" else 2
        ops = []
        for c in cases[::step]:
            ops += conv(rng, c)
        stats += corr.correspond(chk, AREA, exes[name], ops, case_start=start, classify=classify, sig_of=sig_of)
    # the legacy follower's session table: interleaved scripted connections (Driver/C06Sessions.lean)
    nsess = 1200 if chk.tier == "quick" else 20000
    ops = []
    for i in range(nsess):
        ops += session_case(rng, big=(i % 40 == 0))
    stats += corr.correspond(chk, AREA, exes["c06_legacy"], ops, case_start=("linit", "minit"), classify=classify, sig_of=sig_of)
    if chk.tier == "thorough":
        # streams up to 64 KiB with up to 400 segments (the oracle slices the stream per buffered chunk per
        # operation, so these are few: about 30 s of oracle time for each stream above 32 KiB)
        for c in range(3):
            big = [gen_case(rng, 65535, 400) for _ in range(12)]
            for name, _, start, conv in HARNESSES:
                ops = []
                for cs in (big if name == "c06_tracker" else big[:4]):
                    ops += conv(rng, cs)
                stats += corr.correspond(chk, AREA, exes[name], ops, case_start=start, classify=classify, sig_of=sig_of)
    for p in problems:
        # a theorem no longer checks: the run above was the search for a concrete failing input
        found = stats.get("spec", 0) + stats.get("fault", 0)
        if not found:
            chk.violation("proof obligation no longer checks: " + p[:1500], ["theorem-or-audit-failure", p[:4000]], nofail=True)
    chk.cov["rule"] = ("cases = (stream, ISN, arrival history of segments cut from the stream incl. stale, duplicate, "
                       "overlapping, empty, exact retransmissions); each case runs on DataTracker directly, through "
                       "Flow::process_packet (a third of the cases opened by a SYN, with SYN / FIN / RST / PSH segments) and through "
                       "TCPStreamFollower with real IP/TCP/RawPDU packets; session cases = 2-4 scripted connections (same ports "
                       "on swapped hosts, one port different, a third host; ISNs at and across the wrap; handshake, data both "
                       "ways, FIN / RST with or without data, late packets, re-opened tuples, undeclared 4-tuples) interleaved "
                       "through one follower; distinct_nontrivial counts distinct (operation, implementation result) pairs")
    chk.assumptions += [
        "std::map iterator successor is modelled order-theoretically (least greater key, else least key)",
        "payload equality with s.take k is compared through length + FNV-1a 64 in the run-time oracle",
        "theorem hypotheses, each shown necessary by a witness in Props/C06Hyp.lean that is replayed on the real DataTracker on "
        "every run (HYPOTHESIS_WITNESSES): (1) every segment starts less than 2^31 before the current delivery point (RFC 1982 "
        "leaves the distance 2^31 undefined; half_window_needed / half_window_needed_nonempty: such a segment is buffered as if "
        "it lay ahead); (2) it carries bytes of the stream (segment_agrees_needed) - which for a non-empty segment implies "
        "that it ends inside the stream (agrees_gives_inside; segment_inside_needed: the empty segment beyond the end); "
        "(3) |s| < 2^31 (stream_bound_needed, for every longer stream)",
        "segments of 2^31 bytes and more are outside the hypothesis but are NOT undefined behaviour: both vector::erase calls of "
        "process_payload stay in range for every payload size (erase_in_bounds); the end of such a segment compares as lying "
        "before its start, an in-order one of more than 2^31 bytes is discarded whole (oversize_segment_dropped; run on the real "
        "class with 2^31+1 bytes in the thorough tier, exactly 2^31 bytes are still delivered)",
        "byte counter compared exactly for streams <= 64 KiB (tracker_refines_spec) and modulo 2^32 for streams "
        "< 2^31 (tracker_refines_spec_wide): the counter is a uint32_t; exact iff the sum of the chunk sizes is < 2^32 "
        "(byte_counter_exact_iff_small), for which 64 KiB is a sufficient bound, not the largest one",
        "legacy follower: the two endpoints of a connection differ (Conn.OK.distinct; otherwise TCPStream::update sends both "
        "directions to the client side) and two connections are distinct iff their unordered 4-tuples are (a tuple and its "
        "reverse are the same session for TCPStreamFollower); fewer than 2^64 packets for pairwise distinct stream identifiers",
    ]
    chk.trusted += ["correspondence harnesses harness/c06_tracker.cpp, c06_flow.cpp, c06_legacy.cpp (the last built "
                    "with -fno-access-control to print private per-direction state and the session table) + generators in "
                    "checks/C06.py",
                    "g++ 12 / ASan+UBSan build of /repo's working tree"]
    chk.extra["modelled_not_proved"] = [
        "legacy follower outside the scripted fragment (correspondence-only, generator `wild_script`): simultaneous open, data / "
        "FIN / RST before the SYN+ACK (ignored: a refused connection keeps its session for ever - `handshake`), a second SYN+ACK, "
        "a connection whose two endpoints are equal; follow_streams over a BaseSniffer (only the iterator-range overload is driven)",
        "Flow::update_state itself and the AckTracker are C07 / C19 (TinsModel/Follower/Model.lean `Flow.updateState`, Props/C07, "
        "Props/C19); C06 imports that model: flow_callbacks is stated over SF.Flow.processPacket in every state, "
        "flow_update_state_tracker / flow_syn_opens say what update_state does to the reassembly state; recovery mode "
        "(Flow with a recovery handler) is C07's recovery_skips_hole",
    ]
    corr.finalize_cov(chk)


def harness_for(ops):
    first = next((l for l in ops if l.strip()), "init")
    for name, extra, start, _ in HARNESSES:
        if first.split(" ", 1)[0] in start:
            return name, extra, start
    return HARNESSES[0][:3]


def replay(path):
    ops = [l.rstrip("\n") for l in open(path) if not l.startswith("#") and l.strip()]
    name, extra, start = harness_for(ops)
    exe, err = core.build_harness(name, extra=extra)
    impl, mod, spec, faults = corr.evaluate(AREA, exe, ops, start)
    bad = corr.first_problem(ops, impl, mod, spec)
    for o, a, b, c in zip(ops, impl, mod, spec):
        print(o[:200]); print("  impl :", a[:300]); print("  model:", b[:300]); print("  spec :", c)
    if bad:
        print(f"VIOLATION property=C06 replay={path}")
        return 1
    return 0
