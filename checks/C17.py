"""C17 — capture files round-trip and the capture loop survives any frame."""
import importlib.util, os, random, struct
from vlib import core, corr

AREA = "C17"
MODULES = ["TinsModel.Props.C17", "TinsModel.Props.Limits.C17"]   # + the constants / limits tied to the source (translator/gen_limits.py)
AUDIT = ["Audit/C17.lean", "Audit/LimitsC17.lean"]
LEVEL = "proof"
MANIFEST = dict(
    text="Lean 4 theorems over code-shaped executable models of (a) BaseSniffer as a state machine over ANY sequence of "
         "public calls on one live sniffer (next_packet, sniff_loop, iteration, set_extract_raw_pdus, set_filter valid / "
         "empty / not compiling, set_pcap_sniffing_method, stop_sniff also from inside the functor, move construction / "
         "assignment mid-capture, link_type), the per-link-type handlers and Timestamp, (b) PacketWriter as a state machine "
         "over any interleaving of write(PDU&) / write(T&) / write(Packet&) / write(begin,end) and moves of the live writer, "
         "on top of a model of the pcap savefile format whose assumed facts are named hypotheses (SavefileFacts, ReadFacts); "
         "dispatch table, catch clauses, writer link types and snapshot length are regenerated from the source on every run. "
         "Tied to the code by a differential harness that writes real capture files with PacketWriter through every write "
         "call (wall-clock stamps checked against two gettimeofday readings, whole file compared byte for byte with the "
         "model's encodeFile for every link type and for stamps at the 32-bit boundaries) and reads them with FileSniffer "
         "through single reads and scripted sessions of calls (pcap_loop, pcap_dispatch and an exact-size-copy sniffing method "
         "under ASan/UBSan; BPF filters compared with pcap_offline_filter called directly) and by a spec oracle evaluated "
         "frame by frame under the raw mode and filter in force (frames_out, byte-identical, timestamps, sticky clean end, "
         "stop_sniff interrupts once, no escape but the functor's own exceptions, no leak).",
    note="Trusted: Lean kernel + standard axioms; libpcap's savefile reader/writer and BPF engine (the facts assumed about "
         "them are the structures SavefileFacts / ReadFacts; the byte-level model satisfying them is compared with the real "
         "library on every file and every frame, not proved about libpcap); the dissectors are an abstract oracle here (their "
         "outcome on each frame is obtained by calling the constructors directly) — their correctness is C01/C03's subject; "
         "harness + generators.",
    technique="Lean 4 proof (induction over call sequences with a ghost log of the frames each next_packet moved past and "
              "the configuration in force, refinement loop -> filterMap, encode/decode round trip over named libpcap "
              "hypotheses) + model/implementation correspondence on real pcap files and scripted API sessions",
    design="DESIGN.md §6 C17")
MANIFEST["note"] += (" Constants and limits of the C++ source that the model restates (translator/gen_limits.py -> Gen/Limits.lean: "
                     "compiled probe + preprocessed function bodies at named anchors) are tied to the model's numerals by the "
                     "theorems of lean/TinsModel/Props/Limits/C17.lean (audit: Audit/LimitsC17.lean); tools/LIMITS-INVENTORY.md lists "
                     "what is tied and what is not.")

# ----------------------------------------------------------------------------------------------- tables

_gen = None


def gen_module():
    global _gen
    if _gen is None:
        p = os.path.join(core.VERIF, "translator", "gen_c17.py")
        spec = importlib.util.spec_from_file_location("gen_c17", p)
        _gen = importlib.util.module_from_spec(spec)
        spec.loader.exec_module(_gen)
    return _gen


# link-type tokens of the harness and the classes whose direct constructor outcome a frame of that DLT needs
CLASSES = {1: ["Dot3", "EthernetII"], 0: ["Loopback"], 113: ["SLL"], 192: ["PPI"], 12: ["IP", "IPv6"],
           127: ["RadioTap"], 105: ["Dot11"]}
PDU_CLASS = {1: ["EthernetII", "Dot3"], 0: ["Loopback"], 113: ["SLL"], 192: ["PPI"], 12: ["IP", "IPv6"],
             127: ["RadioTap"], 105: ["Dot11"]}

FILTERS = ["ip", "tcp", "udp", "ip6", "icmp", "arp", "tcp port 80", "udp port 53", "host 10.0.0.1", "src host 10.0.0.2",
           "ip and not tcp", "tcp or udp", "len > 60", "less 40", "greater 100", "ip[8] > 10", "not ip",
           "tcp[tcpflags] & tcp-syn != 0", "ip6 and udp", "ether[0] & 1 = 0", "type mgt", "type data",
           "wlan addr1 ff:ff:ff:ff:ff:ff", "net 10.0.0.0/24", "portrange 50-100"]

# ----------------------------------------------------------------------------------------------- packet builders


def csum(b):
    if len(b) % 2:
        b += b"\0"
    s = sum(struct.unpack("!%dH" % (len(b) // 2), b))
    while s >> 16:
        s = (s & 0xffff) + (s >> 16)
    return (~s) & 0xffff


def rb(rng, n):
    return bytes(rng.randrange(256) for _ in range(n))


def ipaddr(rng):
    return rng.choice([bytes([10, 0, 0, 1]), bytes([10, 0, 0, 2]), bytes([192, 168, 1, rng.randrange(256)]), rb(rng, 4)])


def l4(rng, proto, paylen):
    pay = rb(rng, paylen)
    sp, dp = (rng.choice([53, 80, 443, 67, 68, 123, 1234, rng.randrange(65536)]) for _ in range(2))
    if proto == 17:
        return struct.pack("!HHHH", sp, dp, 8 + len(pay), 0) + pay
    if proto == 6:
        flags = rng.choice([0x02, 0x12, 0x10, 0x18, 0x11, 0x04])
        return struct.pack("!HHIIBBHHH", sp, dp, rng.randrange(2**32), rng.randrange(2**32), 5 << 4, flags, 8192, 0, 0) + pay
    if proto == 1:
        return struct.pack("!BBHHH", rng.choice([8, 0, 3, 11]), 0, 0, rng.randrange(65536), rng.randrange(65536)) + pay
    return pay


def ipv4(rng, paylen=None):
    proto = rng.choice([6, 17, 1, 6, 17, rng.randrange(256)])
    body = l4(rng, proto, rng.choice([0, 1, 4, 20, 60, 200]) if paylen is None else paylen)
    opts = b""
    if rng.random() < 0.1:
        opts = bytes([1, 1, 1, 1])
    ihl = 5 + len(opts) // 4
    h = struct.pack("!BBHHHBBH", 0x40 | ihl, 0, ihl * 4 + len(body), rng.randrange(65536), rng.choice([0, 0x4000]),
                    rng.choice([1, 11, 64, 255]), proto, 0) + ipaddr(rng) + ipaddr(rng) + opts
    h = h[:10] + struct.pack("!H", csum(h)) + h[12:]
    return h + body


def ipv6(rng):
    nh = rng.choice([6, 17, 58, 59])
    body = l4(rng, nh, rng.choice([0, 8, 40]))
    return struct.pack("!IHBB", 0x60000000 | rng.randrange(2**20), len(body), nh, 64) + rb(rng, 16) + rb(rng, 16) + body


def arp(rng):
    return struct.pack("!HHBBH", 1, 0x0800, 6, 4, rng.choice([1, 2])) + rb(rng, 6) + ipaddr(rng) + rb(rng, 6) + ipaddr(rng)


def l3(rng):
    r = rng.random()
    if r < 0.6:
        return 0x0800, ipv4(rng)
    if r < 0.8:
        return 0x86dd, ipv6(rng)
    if r < 0.9:
        return 0x0806, arp(rng)
    return rng.choice([0x88cc, 0x8100, 0x0805, 0x05dd, 0x0600, 0x07ff, 0x0800, rng.randrange(65536)]), rb(rng, rng.randrange(40))


def llc_snap(et):
    return bytes([0xaa, 0xaa, 0x03, 0, 0, 0]) + struct.pack("!H", et)


def eth(rng):
    if rng.random() < 0.2:                                   # 802.3 with LLC
        body = rng.choice([llc_snap(0x0800) + ipv4(rng), bytes([0x42, 0x42, 0x03]) + rb(rng, 35), rb(rng, rng.randrange(50))])
        return rb(rng, 6) + rb(rng, 6) + struct.pack("!H", rng.choice([len(body), len(body), rng.randrange(0x800)])) + body
    et, body = l3(rng)
    return rng.choice([b"\xff" * 6, rb(rng, 6)]) + rb(rng, 6) + struct.pack("!H", et) + body


def loopback(rng):
    fam, body = rng.choice([(2, ipv4(rng)), (10, ipv6(rng)), (26, bytes([0x42, 0x42, 0x03]) + rb(rng, 10)),
                            (rng.randrange(64), rb(rng, 12))])
    return struct.pack("<I", fam) + body


def sll(rng):
    et, body = l3(rng)
    return struct.pack("!HHH", rng.randrange(5), 1, 6) + rb(rng, 8) + struct.pack("!H", et) + body


def dot11(rng):
    r = rng.random()
    a = [rng.choice([b"\xff" * 6, rb(rng, 6)]) for _ in range(3)]
    if r < 0.4:                                              # data / QoS data carrying LLC+SNAP+IP
        qos = rng.random() < 0.4
        fc0 = 0x88 if qos else 0x08
        fc1 = rng.choice([0x01, 0x02, 0x00, 0x03, 0x41])
        h = bytes([fc0, fc1]) + struct.pack("<H", rng.randrange(65536)) + a[0] + a[1] + a[2] + struct.pack("<H", rng.randrange(65536))
        if fc1 & 3 == 3:
            h += rb(rng, 6)
        if qos:
            h += rb(rng, 2)
        et, body = l3(rng)
        return h + llc_snap(et) + body
    if r < 0.8:                                              # management
        sub = rng.choice([8, 4, 5, 0, 1, 10, 11, 12, 2, 3])
        h = bytes([sub << 4, 0]) + struct.pack("<H", 0) + a[0] + a[1] + a[2] + struct.pack("<H", rng.randrange(65536))
        fixed = {8: 12, 5: 12, 0: 4, 1: 6, 10: 2, 11: 6, 12: 2, 2: 10, 3: 6, 4: 0}[sub]
        body = rb(rng, fixed)
        for _ in range(rng.randrange(4)):
            n = rng.randrange(12)
            body += bytes([rng.choice([0, 1, 3, 5, 48, 221, rng.randrange(256)]), n]) + rb(rng, n)
        return h + body
    sub = rng.choice([11, 12, 13, 10, 8, 9, 14, 15])         # control
    n = {11: 16, 12: 10, 13: 10, 10: 16, 8: 16, 9: 16, 14: 16, 15: 16}[sub]
    return (bytes([0x04 | (sub << 4), 0]) + rb(rng, n - 2))[:n]


def radiotap(rng):
    r = rng.random()
    if r < 0.5:
        hdr = struct.pack("<BBHI", 0, 0, 8, 0)
    elif r < 0.8:                                            # flags + rate + channel
        hdr = struct.pack("<BBHI", 0, 0, 16, 0x0e) + bytes([rng.choice([0, 0x10]), rng.randrange(256)]) + struct.pack("<HH", 2437, 0x00a0) + b"\0\0"
        hdr = hdr[:16]
    else:
        hdr = struct.pack("<BBHI", 0, 0, 12, 0x20) + struct.pack("<bB", -40, 0) + b"\0\0"
    body = dot11(rng)
    if len(hdr) > 8 and hdr[8] & 0x10:
        body += rb(rng, 4)                                   # FCS at end
    return hdr + body


def ppi(rng):
    dlt, body = rng.choice([(105, dot11(rng)), (1, eth(rng)), (127, radiotap(rng)), (0, loopback(rng)), (12, rb(rng, 20))])
    fields = b""
    if rng.random() < 0.3:
        fields = struct.pack("<HH", 2, 20) + rb(rng, 20)
    return struct.pack("<BBHI", 0, 0, 8 + len(fields), dlt) + fields + body


def rawip(rng):
    return ipv4(rng) if rng.random() < 0.65 else ipv6(rng)


BUILDERS = {1: eth, 0: loopback, 113: sll, 105: dot11, 127: radiotap, 192: ppi, 12: rawip}


def mutate(rng, b):
    b = bytearray(b)
    r = rng.random()
    if r < 0.35 and b:
        return bytes(b[:rng.randrange(len(b) + 1)])         # truncation at every length
    if r < 0.6 and b:
        for _ in range(rng.randint(1, 3)):
            i = rng.randrange(len(b))
            b[i] ^= 1 << rng.randrange(8)
        return bytes(b)
    if r < 0.8 and b:
        i = rng.randrange(min(len(b), 40))
        b[i] = rng.choice([0, 0xff, 0x7f, 0x80, (b[i] + 1) & 255, (b[i] - 1) & 255])
        return bytes(b)
    if r < 0.9:
        return bytes(b) + rb(rng, rng.randrange(1, 9))
    return rb(rng, rng.choice([0, 1, 2, 3, 4, 8, 12, 13, 14, 15, 16, 20, 24, 32, rng.randrange(80)]))


def gen_frame(rng, dlt):
    r = rng.random()
    if r < 0.5:
        return BUILDERS[dlt](rng)
    if r < 0.85:
        return mutate(rng, BUILDERS[dlt](rng))
    if r < 0.9:
        other = rng.choice(list(BUILDERS))
        return BUILDERS[other](rng)                          # a frame of another link type
    return rb(rng, rng.choice([0, 0, 1, 2, 4, 12, 13, 14, 20, rng.randrange(100)]))


def gen_ts(rng):
    r = rng.random()
    if r < 0.7:
        return rng.randrange(0, 2**31), rng.randrange(0, 10**6)
    if r < 0.8:
        return rng.choice([0, 1, 2**31 - 1, 1700000000]), rng.choice([0, 1, 999999])
    if r < 0.88:                                             # microseconds that carry into the seconds
        return rng.randrange(0, 2**31 - 10), rng.choice([10**6, 10**6 + 1, 2 * 10**6 - 1, rng.randrange(10**6, 5 * 10**6)])
    if r < 0.95:                                             # beyond what the 32-bit file fields hold
        return rng.choice([2**31, 2**32 - 1, 2**32, 2**32 + 5, 2**33 + 7, rng.randrange(2**31, 2**34)]), rng.randrange(0, 10**6)
    return rng.choice([-1, -2, -(2**31)]), rng.choice([0, -1, 5])


# ----------------------------------------------------------------------------------------------- cases


def hexs(b):
    return b.hex() if b else "-"


def tokens_for(tables):
    toks = []
    for name, v in tables["writer_enum"]:
        toks.append(("E:" + name, v))
    for name, v in tables["data_link_types"]:
        toks.append(("T:" + name, v))
    toks.append(("N:0", 0))
    return toks


def gen_reads(rng, case, nframes, thorough):
    """the tail of a case: close, reads through every API, optional truncation"""
    ops = ["close" if rng.random() < 0.85 else "rotate"]
    flt = case["filter"]

    def one_read():
        api = rng.choice(["next", "loop", "iter", "next", "loop"])
        filt = rng.choice(["none", "empty", "cfg", "ctor", "post", "clr"]) if flt else rng.choice(["none", "empty"])
        kv = [f"api={api}", f"filt={filt}", f"raw={1 if rng.random() < 0.35 else 0}"]
        if rng.random() < 0.25:
            kv.append("src=fp")
        if rng.random() < 0.2:
            kv.append("mv=1")
        if api == "next" and rng.random() < 0.3:
            # the user flips the raw mode of the live sniffer after K delivered packets (seeded/C17d: a cached handler)
            kv.append(f"tog={rng.randint(1, max(1, nframes))}")
        if api == "loop":
            if rng.random() < 0.5:
                kv.append(f"max={rng.choice([1, 2, 3, nframes, nframes + 1, rng.randint(1, max(1, nframes))])}")
            if rng.random() < 0.4:
                kv.append(f"stop={rng.randint(1, max(1, nframes))}")
            if rng.random() < 0.4:
                idx = sorted(set(rng.randrange(max(1, nframes)) for _ in range(rng.randint(1, 3))))
                kv.append("thr=" + ",".join(f"{i}:{rng.choice(['mal', 'nf'])}" for i in idx))
            if rng.random() < 0.3:
                kv.append("cb=pdu")
        if api == "iter" and rng.random() < 0.6:
            kv.append(f"stop={rng.randint(1, max(1, nframes))}")
        line = "read " + " ".join(kv)
        if filt in ("cfg", "ctor", "post") and rng.random() < 0.06:
            # an expression libpcap cannot compile: refused (constructor throws invalid_pcap_filter, set_filter returns false)
            return line + " bad=1 f=" + rng.choice(["tcp port", "ip and and udp", "host 300.1.1.1", "((", "len >", "no such primitive"])
        if filt in ("cfg", "ctor", "post", "clr"):
            line += " f=" + flt
        return line

    for _ in range(rng.randint(1, 3) if not thorough else rng.randint(3, 6)):
        ops.append(one_read())
    for _ in range(rng.choice([0, 1, 1, 2]) if not thorough else rng.randint(1, 3)):
        ops.append(gen_session(rng, case, nframes))
    if case["tok"].startswith("T:") and flt and rng.random() < 0.6:
        ops.append(f"offline {rng.choice(['pdu', 'buf'])} f={flt}")
    if rng.random() < 0.25:
        ops.append(f"chop {rng.choice([1, 2, 3, 8, 15, 16, 17, 20, rng.randint(1, 200), rng.randint(1, 4000)])}")
        ops.append(one_read())
        ops.append(one_read())
    return ops


def gen_session(rng, case, nframes):
    """a script of calls on ONE live FileSniffer: next_packet, sniff_loop, iteration, configuration calls (also from
    inside the functor), stop_sniff, moves, link_type, interleaved at random"""
    sf = case.get("sfilters", [])
    n = max(1, nframes)

    def side():
        if rng.random() < 0.6:
            return "-"
        acts = ["ss", "r0", "r1", "fe"] + [f"f{k}" for k in range(len(sf))]
        return "+".join(f"{rng.randrange(min(n, 3))}.{rng.choice(acts)}" for _ in range(rng.randint(1, 2)))

    def tok():
        r = rng.random()
        if r < 0.22:
            return "np"
        if r < 0.40:
            mx = rng.choice([0, 1, 1, 2, 2, 3, n, rng.randint(1, n)])
            stop = rng.choice([0, 0, 1, 2, rng.randint(1, n)])
            thr = "-"
            if rng.random() < 0.4:
                idx = sorted(set(rng.randrange(min(n, 4)) for _ in range(rng.randint(1, 3))))
                thr = "+".join(f"{i}.{rng.choice(['mal', 'nf', 'mal', 'nf', 'oth'])}" for i in idx)
            return f"loop:{mx}:{stop}:{thr}:{rng.choice(['k', 'k', 'u'])}:{side()}"
        if r < 0.55:
            return f"iter:{rng.choice([0, 1, 1, 2, 2, rng.randint(1, n)])}:{rng.choice([0, 0, 1])}:{side()}"
        if r < 0.65:
            return f"raw:{rng.randrange(2)}"
        if r < 0.75:
            return "filt:" + (str(rng.randrange(len(sf))) if sf and rng.random() < 0.8 else "e")
        if r < 0.79:
            return f"bad:{rng.randrange(6)}"
        if r < 0.84:
            return "meth:" + rng.choice("ldx")
        if r < 0.89:
            return "mvc"
        if r < 0.94:
            return "mva"
        if r < 0.97:
            return "ss"
        return "lt"

    script = [tok() for _ in range(rng.randint(2, 9))]
    if rng.random() < 0.9:
        script.append("drain")
    init = str(rng.randrange(len(sf))) if sf and rng.random() < 0.3 else "none"
    line = f"session src={'fp' if rng.random() < 0.2 else 'name'} init={init} s={','.join(script)}"
    return line + "".join(" |f| " + f for f in sf)


def gen_wplan(rng, frames):
    """how the frames reach the writer: write(Packet&), write(PDU&), write(T&), write(begin, end) over several
    containers, with moves of the live writer in between; returns the plan and the frames (wall-clock written ones
    get a scripted clock reading the file format can hold; by-value ranges hold RawPDUs)"""
    plan, i, n = [], 0, len(frames)
    frames = list(frames)

    def wall(j, raw=False):
        how, _, _, b = frames[j]
        sec, usec = rng.choice([(rng.randrange(0, 2**31), rng.randrange(0, 10**6)), (0, 0), (2**31 - 1, 999999)])
        frames[j] = ("raw" if raw else how, sec, usec, b)

    while i < n:
        r = rng.random()
        if r < 0.55:
            plan.append(("w", i)); i += 1
        elif r < 0.70:
            wall(i); plan.append(("wp", i)); i += 1
        elif r < 0.78:
            wall(i); plan.append(("wq", i)); i += 1
        else:
            k = min(n - i, rng.choice([0, 1, 2, 3, 5]))
            kind = rng.choice(["val", "ptr", "uptr", "sptr", "list"])
            for j in range(i, i + k):
                wall(j, raw=(kind == "val"))
            plan.append(("range", kind, list(range(i, i + k)))); i += k
        if rng.random() < 0.08:
            plan.append((rng.choice(["wmv", "wma"]),))
    if rng.random() < 0.1:
        plan.append(("range", rng.choice(["val", "ptr", "list"]), []))
    return plan, frames


def gen_case(rng, toks, valid_filters, thorough, big=False):
    tok, dlt = rng.choice(toks)
    method = rng.choice(["loop", "dispatch", "exact", "exact"])
    fl = valid_filters.get(dlt, [])
    flt = rng.choice(fl) if fl and rng.random() < 0.7 else ""
    n = rng.choice([0, 1, 2, 3, 5, 8, 13, 20]) if not big else rng.randint(200, 1000)
    frames = []
    for _ in range(n):
        b = gen_frame(rng, dlt)
        how = "raw"
        if rng.random() < 0.35:
            how = "pdu:" + rng.choice(PDU_CLASS[dlt])
        sec, usec = gen_ts(rng)
        frames.append((how, sec, usec, b))
    c = dict(tok=tok, dlt=dlt, method=method, filter=flt, frames=frames)
    if fl and rng.random() < 0.6:
        c["sfilters"] = rng.sample(fl, min(len(fl), rng.randint(1, 3)))
    if rng.random() < 0.5 and not big:
        c["wplan"], c["frames"] = gen_wplan(rng, frames)
    return c


def regression_cases():
    """deterministic cases for the defects this property's work fixed (they must stay fixed)"""
    ip4 = bytes.fromhex("4500001c000100004011f97b0a0000010a00000200350035000800001122")
    out = []
    # zero-length frames on every link type, exact-size buffers
    for tok, dlt in [("T:IP", 12), ("T:EthernetII", 1), ("T:Loopback", 0), ("T:SLL", 113), ("T:PPI", 192),
                     ("T:Dot11", 105), ("T:RadioTap", 127)]:
        out.append(dict(tok=tok, dlt=dlt, method="exact", filter="", frames=[("raw", 10, 1, ip4), ("raw", 11, 2, b""),
                                                                             ("raw", 12, 3, b"\x45"), ("raw", 13, 4, ip4)]))
    # a frame longer than 65535 bytes must come back whole
    big = bytes(14) + bytes(i & 255 for i in range(65600))
    out.append(dict(tok="T:EthernetII", dlt=1, method="loop", filter="", frames=[("raw", 1, 1, big), ("raw", 2, 2, ip4)]))
    return out


def ann_line(case, fr):
    how, sec, usec, b = fr
    return f"ann {case['dlt']} {how} {hexs(b)} f={case['filter']}"


def probe_filters(exe, dlts):
    """which filter expressions libpcap compiles for which link type"""
    lines, keys = [], []
    for d in dlts:
        for f in FILTERS:
            lines.append(f"ann {d} raw 00 f={f}")
            keys.append((d, f))
    res, _ = core.run_harness_lines(exe, ["annotate", os.path.join(core.WORK, "tmp")], lines, ("ann", "annp"))
    ok = {}
    for (d, f), r in zip(keys, res):
        if " m=-1" not in r and " mo=-1" not in r and r.startswith("s="):
            ok.setdefault(d, []).append(f)
    return ok


def build_ops(chk, exe, cases, excluded):
    """annotate every frame through direct calls (pass 1: what the writer will store and what libpcap's filter says;
    pass 2: what the dissector constructors say about the stored bytes) and emit the op lines.  A frame whose direct
    dissection crashes is a finding of the dissector properties, not of the capture loop: it is dropped and counted.
    A crash while serializing a plain RawPDU is on the writer's own path: the frame stays in, so the check reports it."""
    args = ["annotate", os.path.join(core.WORK, "tmp")]
    lines, where = [], []
    for ci, c in enumerate(cases):
        for fi, fr in enumerate(c["frames"]):
            lines.append(ann_line(c, fr))
            where.append((ci, fi))
    res, _ = core.run_harness_lines(exe, args, lines, ("ann", "annp")) if lines else ([], [])
    ann1 = dict(zip(where, res))
    lines2, where2 = [], []
    for key in where:
        a = ann1.get(key, "")
        if a.startswith("s=") and not a.startswith("s=throw:"):
            c = cases[key[0]]
            lines2.append(f"annp {','.join(CLASSES[c['dlt']] + ['RawPDU'])} {a.split(' ')[0][2:]}")
            where2.append(key)
    res2, _ = core.run_harness_lines(exe, args, lines2, ("ann", "annp")) if lines2 else ([], [])
    ann2 = dict(zip(where2, res2))

    def drop(tag, a):
        key = tag + " " + (a.split(" ")[1].split("@")[-1] if a.startswith("FAULT") and " " in a else a.split(" ")[0])
        excluded[key] = excluded.get(key, 0) + 1

    # pass 3: what a savefile-compiled program of every session filter says about the stored bytes
    lines3, where3 = [], []
    for key in where2:
        c = cases[key[0]]
        a = ann1[key].split(" ")
        for k, f in enumerate(c.get("sfilters", [])):
            lines3.append(f"annf {c['dlt']} {a[1][4:]} {a[0][2:]} f={f}")
            where3.append((key, k))
    res3, _ = core.run_harness_lines(exe, args, lines3, ("ann", "annp", "annf")) if lines3 else ([], [])
    xbits = {}
    for (key, k), r in zip(where3, res3):
        xbits.setdefault(key, {})[k] = "1" if r == "x=1" else "0"

    ops = []
    for ci, c in enumerate(cases):
        ops.append(f"file {c['tok']} {c['method']}")
        kept = 0
        nsf = len(c.get("sfilters", []))
        tails = {}
        for fi, (how, sec, usec, b) in enumerate(c["frames"]):
            a = ann1.get((ci, fi), "")
            if a.startswith("s=throw:"):
                tails[fi] = f"{how} {sec} {usec} {hexs(b)} | {a}"
                continue
            if not a.startswith("s="):
                if how == "raw":
                    # the writer's own path (RawPDU::serialize, pcap) failed in the direct call: keep the frame
                    tails[fi] = f"{how} {sec} {usec} {hexs(b)} | s={hexs(b)} adv={len(b)} m=1 mo=1 p:RawPDU=ok:0/{len(b)}/0"
                    kept += 1
                else:
                    drop("write-side", a)
                continue
            p = ann2.get((ci, fi), "")
            if not p.startswith("p:"):
                drop("dissector", p)
                continue
            x = ""
            if nsf:
                x = " x=" + "".join(xbits.get((ci, fi), {}).get(k, "0") for k in range(nsf))
            tails[fi] = f"{how} {sec} {usec} {hexs(b)} | {a}{x} {p}"
            kept += 1
        plan = c.get("wplan") or [("w", fi) for fi in range(len(c["frames"]))]
        for step in plan:
            if step[0] in ("w", "wp", "wq"):
                if step[1] in tails:
                    ops.append(f"{step[0]} {tails[step[1]]}")
            elif step[0] == "range":
                ops.append(f"wr-begin {step[1]}")
                ops += [f"wr-item {tails[fi]}" for fi in step[2] if fi in tails and "| s=throw:" not in tails[fi]]
                ops.append("wr-end")
            else:
                ops.append(step[0])
        ops += c["tail"](kept) if callable(c.get("tail")) else c.get("tail", [])
    return ops


def classify(op, impl):
    w = op.split(" ")
    if w[0] == "session":
        kinds = sorted(set(t.split(":")[0] for t in next((x[2:] for x in w if x.startswith("s=")), "").split(",")))
        return "session:" + "+".join(kinds)[:60] + (":escape" if "escape" in impl else "")
    if w[0] in ("w", "wp", "wq", "wr-item"):
        tag = w[0] + ":" + w[1].split(":")[0]
        if " p:" in op:
            outs = [x.split("=", 1)[1].split(":")[0] for x in op.split(" ") if x.startswith("p:") and not x.startswith("p:RawPDU")]
            tag += ":" + ("parses" if "ok" in outs else "exc" if "exc" in outs else "malformed")
        return tag
    if w[0] == "read":
        kv = dict(x.split("=", 1) for x in w[1:] if "=" in x and not x.startswith("f="))
        tag = f"read:{kv.get('api')}:{'filter' if kv.get('filt') in ('cfg', 'ctor', 'post') else 'nofilter'}:{'raw' if kv.get('raw') == '1' else 'parsed'}"
        if "escape" in impl:
            tag += ":escape"
        return tag
    return w[0]


def sig_of(kind, detail, case):
    tok = case[0].split(" ")[1] if case and case[0].startswith("file ") else ""
    last = case[-1].split(" ")[0] if case else ""
    clause = ""
    if kind == "spec":
        clause = " ".join(detail.split(" ")[1:2])
    elif kind == "fault":
        clause = detail.split(" ", 1)[1] if " " in detail else detail
    if kind == "fault":
        return {"kind": kind, "clause": clause}
    return {"kind": kind, "clause": clause, "lt": tok, "op": last}


def run(chk):
    gen = gen_module()
    gen.main([])                                             # regenerate TinsModel/Gen/Capture.lean (only if changed)
    from translator import gen_limits
    gen_limits.main([])          # Gen/Limits.lean: constants and limits read from the current source
    chk.trusted.append("translator/gen_limits.py (constants / limits of the source -> Gen/Limits.lean: compiled probe + "
                       "preprocessed function bodies at named anchors; tied to the model numerals by Props/Limits/C17.lean)")
    problems = chk.prove(MODULES, AUDIT, want_leanchecker=(chk.tier == "thorough"))
    problems = gen_limits.name_failures(chk, problems, "C17")   # name the tie theorems that fail
    exe, err = core.build_harness("c17_capture")
    if exe is None:
        chk.violation("implementation does not build: " + err[-1500:], ["build-error"], nofail=True)
        return
    tables = gen.extract()
    toks = [t for t in tokens_for(tables) if t[1] in CLASSES]
    unsupported = [t for t in tokens_for(tables) if t[1] not in CLASSES]
    tmp = os.path.join(core.WORK, "tmp")
    os.makedirs(tmp, exist_ok=True)
    rng = random.Random(chk.seed)
    thorough = chk.tier == "thorough"
    valid_filters = probe_filters(exe, sorted(CLASSES))
    excluded = {}
    stats = {}

    def run_batch(cases):
        for c in cases:
            if "tail" not in c:
                r2 = random.Random(rng.randrange(2**62))
                c["tail"] = (lambda c, r2: (lambda n: gen_reads(r2, c, n, thorough)))(c, r2)
        ops = build_ops(chk, exe, cases, excluded)
        st = corr.correspond(chk, AREA, exe, ops, case_start=("file",), harness_args=(tmp,), classify=classify, sig_of=sig_of)
        for k, v in st.items():
            stats[k] = stats.get(k, 0) + v

    # 1. regressions of the fixed findings + a writer link type the reader does not know must not exist
    reg = regression_cases()
    for c in reg:
        c["tail"] = ["close", "read api=next filt=none raw=1", "read api=next filt=none raw=0",
                     "read api=loop filt=empty raw=0", "read api=iter filt=none raw=0 stop=1"]
    reg.append(dict(tok="T:RadioTap", dlt=127, method="loop", filter="",
                    frames=[("raw", 7, 7, bytes.fromhex("0000080000000000") + bytes(24))],
                    tail=["rotate", "read api=next filt=none raw=1 mv=1"]))
    for tok, dlt in unsupported:
        reg.append(dict(tok=tok, dlt=dlt, method="loop", filter="", frames=[],
                        tail=["close", "read api=next filt=none raw=0"]))
    # every link type of the writer's API x time stamps at the boundaries of the 32-bit file fields: the bytes pcap_dump
    # wrote are compared with the model's encodeFile (size and hash of the whole file), then read back
    ip4 = bytes.fromhex("4500001c000100004011f97b0a0000010a00000200350035000800001122")
    stamps = [(0, 0), (0, 999999), (1, 1000000), (2**31 - 1, 999999), (2**31, 0), (2**32 - 1, 999999), (2**32, 0),
              (2**32 + 1, 5), (-1, 0), (-(2**31), 0), (1700000000, 1999999), (2**31 - 2, 1999999)]
    for tok, dlt in toks:
        reg.append(dict(tok=tok, dlt=dlt, method="exact", filter="",
                        frames=[("raw", sec, usec, BUILDERS[dlt](random.Random(7 + i)) if i % 2 else ip4)
                                for i, (sec, usec) in enumerate(stamps)],
                        tail=["close", "read api=next filt=none raw=1", "read api=next filt=none raw=0",
                              "session src=name init=none s=lt,np,loop:2:0:-:k:-,iter:1:1:-,mvc,raw:1,np,mva,drain"]))
    # the other write calls: wall-clock stamped write(PDU&) / write(T&) / write(begin, end) over every container, moves of the
    # live writer mid-file, an advertised size that differs from the serialized size (IP total length beyond the capture)
    ip_long = bytes.fromhex("450005dc000100004011f97b0a0000010a00000200350035000800001122")
    for kind in ["val", "ptr", "uptr", "sptr", "list"]:
        fr = [("raw", 5, 5, ip4), ("raw", 2**31 - 1, 999999, b""), ("pdu:IP", 0, 0, ip_long), ("raw", 9, 9, ip4[:9]),
              ("pdu:IP", 77, 7, ip_long), ("raw", 8, 8, ip4)]
        if kind == "val":
            fr = [("raw",) + f[1:] for f in fr]
        reg.append(dict(tok="T:IP", dlt=12, method="exact", filter="", frames=fr,
                        wplan=[("w", 0), ("range", kind, [1, 2, 3]), ("wmv",), ("wp", 4), ("wma",), ("wq", 5),
                               ("range", kind, [])],
                        tail=["close", "read api=next filt=none raw=1", "read api=loop filt=none raw=0 max=2",
                              "session src=name init=none s=np,ss,np,np,raw:1,loop:0:0:1.mal+2.oth:k:0.ss,drain"]))
    # frames of unsupported DLTs cannot be annotated with CLASSES; they have no frames
    run_batch(reg)
    # 2. seeded random cases
    ncases = 3000 if not thorough else 36000      # sessions and the extra write calls make a case ~1.5x as long as before
    batch = 500 if not thorough else 1000
    done = 0
    while done < ncases:
        k = min(batch, ncases - done)
        run_batch([gen_case(rng, toks, valid_filters, thorough) for _ in range(k)])
        done += k
    # 3. long captures (up to 10^3 frames) and large frames
    nbig = 3 if not thorough else 40
    run_batch([gen_case(rng, toks, valid_filters, thorough, big=True) for _ in range(nbig)])
    if thorough:
        sizes = [1500, 9000, 65535, 65536, 65549, 100000, 262144]
        cs = []
        for tok, dlt in [("T:EthernetII", 1), ("T:IP", 12), ("T:Dot11", 105)]:
            frames = [("raw", 5 + i, i, BUILDERS[dlt](rng) + bytes((j * 7 + i) & 255 for j in range(s)))[0:4] for i, s in enumerate(sizes)]
            frames = [(h, s, u, b[:sz]) for (h, s, u, b), sz in zip(frames, sizes)]
            cs.append(dict(tok=tok, dlt=dlt, method=rng.choice(["loop", "exact"]), filter="", frames=frames))
        run_batch(cs)

    for p in problems:
        found = stats.get("spec", 0) + stats.get("fault", 0)
        if not found:
            chk.violation("proof obligation no longer checks: " + p[:1500], ["theorem-or-audit-failure", p[:4000]], nofail=True)
    chk.cov["rule"] = ("case = one capture file written with PacketWriter (link type token, frames = well-formed packets of "
                       "the link type / mutations / arbitrary bytes incl. empty, timestamps incl. carries and 32-bit "
                       "overflow; written through write(Packet&), wall-clock write(PDU&) / write(T&), write(begin,end) over five "
                       "containers, with moves of the live writer) then read back through next_packet / sniff_loop / range-for "
                       "with scripted functors, filters, truncated files, and through scripted sessions of calls on one live "
                       "sniffer; distinct_nontrivial counts distinct (operation, implementation result) pairs")
    chk.extra["frames_excluded_because_direct_dissection_failed"] = excluded
    chk.extra["filters_per_dlt"] = {str(k): len(v) for k, v in valid_filters.items()}
    chk.extra["modelled_not_proved"] = [
        "libpcap savefile reader/writer and BPF engine: assumed environment, stated as SavefileFacts (dump/open round trip) "
        "and ReadFacts R1-R4 (one call of a sniffing method: break_loop, end of file, filter rejects, filter accepts); the "
        "byte-level model is proved to satisfy them and is compared with libpcap on every file (whole-file size + hash "
        "against encodeFile, every link type, stamps at the 32-bit boundaries) and every frame",
        "dissector outcomes are an oracle obtained from direct constructor calls (subject of C01/C03)",
        "exception unwinding through libpcap's C frames (observed, not modelled; a session is abandoned after one)",
        "the value of the wall clock: write(PDU&) / write(T&) / write(begin,end) take the gettimeofday reading as an input of "
        "the model; the harness checks that the stored stamp lies between two readings taken around the call and then "
        "replaces it by the scripted one so that the file stays deterministic",
        "write(begin,end) over a range of Packet objects does not compile (dereference_until_pdu has no overload for "
        "Packet): the API offers it for PDUs and (smart) pointers only, which is what is exercised"]
    chk.extra["theorems_sessions"] = [
        "session_filtermap", "session_end_sticky", "stop_sniff_interrupts_once", "sniff_loop_only_functor_exceptions",
        "sniffer_move", "writer_session_roundtrip", "writer_session_roundtrip_model", "packet_stamp_roundtrip",
        "readFacts_readOne", "readFacts_unique", "modelSavefile_facts"]
    chk.assumptions += [
        "libpcap 1.10 savefile semantics: 32-bit signed time fields, frames longer than the declared snapshot length "
        "are cut, capture lengths above 262144 and short records end the file with an error",
        "a sniffing method called with cnt = 1 on a savefile handle behaves as ReadFacts R1-R4 say: break_loop set -> cleared, "
        "nothing read, handler not called (pcap_loop / pcap_dispatch return -2, the harness's pcap_next_ex method 0); end of "
        "file -> 0 (or -1 once after a broken record) without calling the handler; frames the installed program rejects are "
        "dropped within the call; an accepted frame is handed to the handler once and >= 0 comes back",
        "pcap_setfilter replaces the installed program; pcap_compile of an expression that does not compile returns -1 and "
        "changes nothing; the empty expression compiles to accept-all",
        "time stamps with seconds >= 2^31 or negative are outside the file format; their round trip is not demanded",
        "Ethernet length/type values 1501..2047 and frames shorter than 14 bytes: the oracle accepts either dissector",
        "libpcap compiles some expressions differently for a savefile handle than for a pcap_open_dead handle (e.g. "
        "`ip6` on DLT_NULL checks the BSD AF_INET6 values for a savefile, this host's value otherwise): the sniffer's "
        "filter is compared with a program compiled on a savefile handle, OfflinePacketFilter with one compiled on a dead handle",
        "configuration calls a functor makes on the sniffer are modelled as taking effect before the functor returns or "
        "throws (the scripted functor of the harness makes them first)"]
    chk.trusted += ["correspondence harness harness/c17_capture.cpp + generators in checks/C17.py",
                    "translator/gen_c17.py (preprocessor + regular expressions over src/sniffer.cpp and the writer headers)",
                    "g++ 12 / ASan+UBSan build of the repo's working tree; libpcap 1.10.3"]
    corr.finalize_cov(chk)


def replay(path):
    exe, err = core.build_harness("c17_capture")
    tmp = os.path.join(core.WORK, "tmp")
    os.makedirs(tmp, exist_ok=True)
    ops = [l.rstrip("\n") for l in open(path) if not l.startswith("#") and l.strip()]
    impl, mod, spec, faults = corr.evaluate(AREA, exe, ops, ("file",), harness_args=(tmp,))
    bad = corr.first_problem(ops, impl, mod, spec)
    for o, a, b, c in zip(ops, impl, mod, spec):
        print(o[:300]); print("  impl :", a[:400]); print("  model:", b[:400]); print("  spec :", c)
    if bad:
        print(f"VIOLATION property=C17 replay={path}")
        return 1
    return 0
