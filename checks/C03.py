"""C03 — see DESIGN.md §6 C03. Shares harness/wire_main.cpp and the Lean wire model with C01–C04."""
from checks import wire_checks

LEVEL = "proof"
MANIFEST = dict(
    text="Per-layer reparse theorems (codec inverses) for the modelled layers + model/implementation correspondence of parse, serialize, re-parse and second serialization; view equality is checked by the Lean oracle on the implementation's own field dumps for every class with a dump.",
    note="Proof covers the Lean models of the classes listed in the evidence (modelled_classes) and the generic backbone; "
         "the tie is differential correspondence under sanitizers; unmodelled classes get the implementation-side oracle only. "
         "Trusted: Lean kernel + standard axioms, hand-written models, harness, generators, translator/gen_tags.py.",
    technique="Lean 4 proof over executable byte-level models + model/impl correspondence + spec oracle on impl output",
    design="DESIGN.md §6 C03")


def run(chk):
    wire_checks.run_property(chk, "C03", want_parse=True, want_build=False)


def replay(path):
    return wire_checks.replay("C03", path)
