"""C03 — see DESIGN.md §6 C03. Shares harness/wire_main.cpp and the Lean wire model with C01–C04."""
from checks import wire_checks

LEVEL = "proof"
MANIFEST = dict(
    text="Lean 4: per-class reparse theorems (parse of what write_serialization wrote gives the same view back, TLV / option list round trips by "
         "induction) for all seven families, lifted by induction over the stack and the generated next-protocol tables to the whole-packet "
         "theorem whole_packet_c03: every accepted packet of any depth made of the 53 modelled classes (explicit exclusions: PPI/PKTAP, "
         "datagrams too long for their 16-bit length field, ICMP with extensions / non-ghost-free quotes = known findings, top-level IP with "
         "source 0.0.0.0) serializes, re-parses with the same entry point to the same classes with the same views, and through IP/IPv6 to the "
         "same payload byte for byte; the second clause — serializing the re-parsed packet reproduces the first serialization byte for "
         "byte whenever the innermost payload is non-empty — is whole_packet_c03_fixpoint, over the same seven families and hypotheses "
         "(Wire/Chain/Fix*.lean: per-class lemmas 'the re-parsed object writes the same bytes in a context the writers cannot tell "
         "apart', induction over the stack inner chain first; derived lengths / tags / checksums / option padding / RadioTap FCS are "
         "recomputed from the same inputs, minimum-frame padding that reached the payload is payload the second time, padding cut off "
         "by an IP / IPv6 / PPPoE / EAPOL length is re-created); whole_packet_c03_full states both clauses together; for API-built "
         "stacks built_packet_c03_fixpoint with the one explicit exclusion NoAppAll (Dot1Q append_padding_, KF-C04-L2-4, refuted on a "
         "witness). Correspondence of parse, serialize, re-parse and second serialization for every class; view equality and the "
         "fixed point (clause reserialize-fixpoint) are checked by the Lean oracle on the implementation's own output.",
    note="The theorems are about hand-written, code-shaped Lean models of 53 entry classes in seven families (link layers, IPv4 + options / AH / ESP, "
         "IPv6 + extension headers, TCP + options / UDP, ICMP / ICMPv6 + extensions, DHCP / DHCPv6 / BootP / RTP / VXLAN / ARP / STP, 802.11 / "
         "RadioTap / EAPOL; list in the evidence: modelled_classes); the tie to the C++ is differential correspondence of every line under "
         "ASan/UBSan/LSan plus the Lean spec oracle evaluated on the implementation's own output; DNS as an entry class and the paths "
         "the model cannot express (host routing table in IP::prepare_for_serialize, EAPOL null result) get the implementation-side oracle "
         "only (evidence: unmodelled_lines). Trusted: Lean kernel + propext/Classical.choice/Quot.sound, the models, harness, generators, "
         "translator/gen_tags.py; allocator / lifetime behaviour is observed by the sanitizers, not proved.",
    technique="Lean 4 proof over executable byte-level models + model/impl correspondence + spec oracle on impl output",
    design="DESIGN.md §6 C03")
MANIFEST["note"] += (" Constants and limits of the C++ source that the model restates (translator/gen_limits.py -> Gen/Limits.lean: "
                     "compiled probe + preprocessed function bodies at named anchors) are tied to the model's numerals by the "
                     "theorems of lean/TinsModel/Props/Limits/Wire.lean (audit: Audit/LimitsWire.lean); tools/LIMITS-INVENTORY.md lists "
                     "what is tied and what is not.")


def run(chk):
    wire_checks.run_property(chk, "C03", want_parse=True, want_build=False)


def replay(path):
    return wire_checks.replay("C03", path)
