"""C07 — stream follower tracks connections, directions and lifetimes."""
import random
from vlib import core, corr

AREA = "C07"
MODULES = ["TinsModel.Props.C07", "TinsModel.Props.Limits.C07"]   # + the constants / limits tied to the source (translator/gen_limits.py)
AUDIT = ["Audit/C07.lean", "Audit/LimitsC07.lean"]
LEVEL = "proof"
HARNESS = "c07_follower"
HARNESS_EXTRA = ["-fno-access-control"]       # the buffering limits have no public setter
CASE_START = ("case",)
MANIFEST = dict(
    text="Lean 4 theorems over a code-shaped executable model of StreamIdentifier / Flow / Stream / StreamFollower "
         "(generic in the connection key; per-flow reassembly = the C06 DataTracker model, per-flow ACK tracking = the C19 "
         "AckTracker model, both imported with their theorems): identifier injectivity, announce_once, forget_iff / "
         "forget_reason, memory_bound over the three limits (chunks, bytes, SACKed intervals), sacked_limit, route_correct, "
         "flow_is_fold (per-flow state = Flow::process_packet folded over the sub-history routed to the flow, for every "
         "interleaving), per_flow_delivery (C06's refinement theorem composed with that fold: each data callback is handed "
         "exactly the stream prefix up to the frontier), ignore_data, callback_not_set_path, recovery_skips_hole, "
         "trace_refines_reference_live. "
         "Tied to the code by differential correspondence on interleaved multi-connection IPv4/IPv6 captures (callback "
         "trace, find_stream, per-flow buffer counters and ACK-tracker state) under ASan/UBSan, and a reference-connection-"
         "table oracle (Lean, executable) evaluated on the implementation's own callback trace.",
    note="Trusted: Lean kernel + standard axioms; hand-written model tied by correspondence (harness/c07_follower.cpp, built "
         "with -fno-access-control to lower the two private buffering limits; the SACKed-interval limit is a compile-time "
         "constant, read from the source by the check, reported by the harness and crossed by floods of limit+1 disjoint SACK "
         "blocks); what the application does in the new-stream callback (auto-cleanup, enable_ack_tracking per flow, use_sack, "
         "ignore_*_data, enable_recovery_mode, no callback at all) is part of the modelled configuration; what recovery mode does "
         "to the data is compared model-vs-code only (no oracle clause of its own); "
         "generator coverage bounds what the tie sees.",
    technique="Lean 4 proof (invariants over packet histories, projection onto one connection, simulation between key "
              "functions, composition with the C06 / C19 theorems) + model/impl correspondence",
    design="DESIGN.md §6 C07")
MANIFEST["note"] += (" Constants and limits of the C++ source that the model restates (translator/gen_limits.py -> Gen/Limits.lean: "
                     "compiled probe + preprocessed function bodies at named anchors) are tied to the model's numerals by the "
                     "theorems of lean/TinsModel/Props/Limits/C07.lean (audit: Audit/LimitsC07.lean); tools/LIMITS-INVENTORY.md lists "
                     "what is tied and what is not.")

FIN, SYN, RST, PSH, ACK = 1, 2, 4, 8, 16
M32 = 2 ** 32
BOUNDARY_ISNS = [0, 1, 2 ** 31 - 1, 2 ** 31, 2 ** 32 - 1, 2 ** 32 - 2, 2 ** 32 - 7, 2 ** 32 - 30]

V4_HOSTS = ["0a000001", "0a000002", "0a000003", "c0a80101", "01020304", "ffffffff", "00000000"]
# IPv6 pool of the main workload: never of the form a.b.c.d:: (low 12 bytes non-zero), but close to it
V6_HOSTS = ["20010db8000000000000000000000001", "20010db8000000000000000000000002", "fe800000000000000000000000000001",
            "00000000000000000000ffff0a000001", "0a000001000000000000000000000001", "0a000002000000000000000000000100",
            "00000000000000000000000000000001"]
PORTS = [80, 443, 1234, 1235, 40000, 0, 65535, 1]


def hexs(b):
    return b.hex() if b else "-"


def max_sacked_from_source():
    """DEFAULT_MAX_SACKED_INTERVALS as written in the source (the third limit of StreamFollower::process_packet is a
    compile-time constant; the harness answers every `case` line with the compiled value and the oracle compares)"""
    import os, re
    try:
        src = open(os.path.join(core.REPO, "src", "tcp_ip", "stream_follower.cpp")).read()
    except OSError:
        return None
    m = re.search(r"DEFAULT_MAX_SACKED_INTERVALS\s*=\s*(\d+)\s*;", src)
    return int(m.group(1)) if m else None


MAXS = 1024


class Recv:
    """what the receiver of one direction holds: merged half-open runs of stream offsets"""
    def __init__(self):
        self.runs = []

    def add(self, a, b):
        if b <= a:
            return
        out, placed = [], False
        for (x, y) in self.runs:
            if y < a or b < x:
                out.append((x, y))
            else:
                a, b = min(a, x), max(b, y)
        out.append((a, b))
        self.runs = sorted(out)

    def frontier(self):
        return self.runs[0][1] if self.runs and self.runs[0][0] <= 0 else 0

    def above(self):
        k = self.frontier()
        return [(x, y) for (x, y) in self.runs if x > k]


def pad_v4(h):
    return h + "0" * 24


class Conn:
    def __init__(self, fam, ca, cp, sa, sp, rng, maxlen):
        self.fam, self.ca, self.cp, self.sa, self.sp = fam, ca, cp, sa, sp
        pick = lambda: rng.choice(BOUNDARY_ISNS) if rng.random() < 0.4 else rng.randrange(M32)
        self.isn = {"c": pick(), "s": pick()}
        ln = lambda: min(maxlen, rng.choice([0, 1, 2, 5, 9, 17, 40, rng.randint(0, maxlen), rng.randint(0, maxlen)]))
        self.data = {"c": bytes(rng.randrange(256) for _ in range(ln())), "s": bytes(rng.randrange(256) for _ in range(ln()))}
        if rng.random() < 0.25:       # a stream that crosses the sequence wrap point
            d = rng.choice("cs")
            self.isn[d] = (M32 - 1 - rng.randint(0, len(self.data[d]))) % M32
        self.pkts = []
        self.rcv = {"c": Recv(), "s": Recv()}
        self.ackmode = "receiver" if rng.random() < 0.7 else "max"
        self.rng = rng

    def sack_opts(self, d, ackoff):
        """SACK option of a packet sent in direction d (acknowledging the other direction's stream)"""
        rng = self.rng
        o = "s" if d == "c" else "c"
        base = self.isn[o] + 1
        r = rng.random()
        if r < 0.45:
            return ""
        if r < 0.80 and self.ackmode == "receiver":
            runs = self.rcv[o].above()
            if not runs:
                return ""
            rng.shuffle(runs)
            runs = runs[:rng.randint(1, 4)]
            return "sk=" + ",".join(f"{(base + x) % M32},{(base + y) % M32}" for (x, y) in runs)
        if r < 0.90:                                          # plausible blocks above the ACK, not tied to the data
            edges, pos = [], ackoff + rng.randint(1, 4)
            for _ in range(rng.randint(1, 3)):
                ln = rng.randint(1, 6)
                edges += [(base + pos) % M32, (base + pos + ln) % M32]
                pos += ln + rng.randint(1, 5)
            return "sk=" + ",".join(map(str, edges))
        if r < 0.94:                                          # not what a receiver emits: at / below the ACK, empty, reversed, far
            v = rng.randrange(5)
            a = (base + ackoff) % M32
            if v == 0: return f"sk={(a - 3) % M32},{(a + 2) % M32}"
            if v == 1: return f"sk={a},{(a + 5) % M32}"
            if v == 2: return f"sk={(a + 9) % M32},{(a + 4) % M32}"
            if v == 3: return f"sk={(a + 2 ** 31 - 2) % M32},{(a + 2 ** 31 + 3) % M32}"
            return f"sk={(a + 4) % M32},{(a + 4) % M32}"
        if r < 0.96:
            return "sk=-"                                    # a SACK option without edges
        if r < 0.98:                                          # an odd number of edges
            a = (base + ackoff) % M32
            return f"sk={(a + 2) % M32},{(a + 4) % M32},{(a + 8) % M32}"
        n = rng.choice([1, 2, 3, 5, 6, 7, 9, 13])            # malformed: not a whole number of 32-bit edges
        return "skraw=" + bytes(rng.randrange(256) for _ in range(n)).hex()

    def key(self):
        return (self.fam,) + tuple(sorted([(self.ca, self.cp), (self.sa, self.sp)]))

    def ends(self, d):
        return (self.ca, self.cp, self.sa, self.sp) if d == "c" else (self.sa, self.sp, self.ca, self.cp)

    def decls(self):
        out = []
        for d in "cs":
            a, ap, b, bp = self.ends(d)
            out.append(f"decl {self.fam} {a} {ap} {b} {bp} {self.isn[d]} {hexs(self.data[d])}")
        return out

    def pk(self, d, flags, off, payload, opts="", ackoff=None, seq=None):
        """packet in direction d whose first byte is stream offset `off` (off=-1: the SYN's own sequence number)"""
        o = "s" if d == "c" else "c"
        s = (self.isn[d] + 1 + off) % M32 if seq is None else seq
        a = 0 if ackoff is None else (self.isn[o] + 1 + ackoff) % M32
        src, sp, dst, dp = self.ends(d)
        pl = "none" if payload is None else hexs(payload)
        if payload is not None and seq is None and off >= -1:
            self.rcv[d].add(max(off, 0) if not (flags & SYN) else 0, (off if not (flags & SYN) else 0) + len(payload))
        if ackoff is not None and (flags & ACK) and not (flags & RST):
            if self.ackmode == "receiver" and not (flags & (SYN | FIN)):
                ackoff = self.rcv[o].frontier()
                a = (self.isn[o] + 1 + ackoff) % M32
            so = self.sack_opts(d, ackoff)
            if so:
                opts = (opts + " " + so).strip()
        self.pkts.append(f"{self.fam} {src} {sp} {dst} {dp} {flags} {s} {a} {pl}" + (" " + opts if opts else ""))


def cut_segments(rng, L, maxsegs, reorder):
    """(off, len) pieces of a stream of length L: a partition, possibly reordered, with duplicates, overlapping re-cuts,
    stale starts"""
    if L == 0:
        return []
    cuts = sorted(set([0, L] + [rng.randint(0, L) for _ in range(rng.randint(0, maxsegs))]))
    segs = [(a, b - a) for a, b in zip(cuts, cuts[1:])]
    extra = []
    for _ in range(rng.randint(0, 2)):
        extra.append(rng.choice(segs))                      # retransmission
    for _ in range(rng.randint(0, 2)):
        a = rng.randint(0, L)
        extra.append((a, rng.randint(0, L - a)))            # re-cut retransmission
    if reorder == 0:
        out = segs
    elif reorder == 1:                                       # local swaps
        out = list(segs)
        for i in range(len(out) - 1):
            if rng.random() < 0.3:
                out[i], out[i + 1] = out[i + 1], out[i]
    else:
        out = list(segs)
        rng.shuffle(out)
    for e in extra:
        out.insert(rng.randint(0, len(out)), e)
    return out


def script(rng, c, style, cfg):
    """fill c.pkts with the packets of one connection (per-connection order = capture order)"""
    LC, LS = len(c.data["c"]), len(c.data["s"])
    opts = lambda: " ".join(x for x in [("mss=%d" % rng.choice([536, 1460, 65535, 0])) if rng.random() < 0.6 else "",
                                         "sack" if rng.random() < 0.5 else ""] if x)
    sent = {"c": 0, "s": 0}
    if style in ("full", "flood", "synonly", "nosynack"):
        # TCP Fast Open: the SYN (and the SYN+ACK) may carry the first bytes of the stream
        tfo = lambda d: c.data[d][:rng.randint(1, 8)] if rng.random() < 0.2 and c.data[d] else None
        c.pk("c", SYN, -1, tfo("c"), opts())
        if rng.random() < 0.1:
            c.pk("c", SYN, -1, None, opts())                 # SYN retransmission
        if style == "synonly":
            return
        if style != "nosynack":
            c.pk("s", SYN | ACK, -1, tfo("s"), opts(), ackoff=0)
        c.pk("c", ACK, 0, None, ackoff=0)
    reorder = rng.choice([0, 0, 1, 1, 2])
    segs = {"c": cut_segments(rng, LC, 6, reorder), "s": cut_segments(rng, LS, 6, reorder)}
    if style == "flood":
        # many out-of-order chunks in one direction: the first byte is withheld until late (or forever)
        d = rng.choice("cs")
        L = len(c.data[d])
        if L >= 2:
            pieces = [(i, rng.randint(1, min(3, L - i))) for i in range(1, L)]
            rng.shuffle(pieces)
            hold = [(0, 1)] if rng.random() < 0.5 else []
            segs[d] = pieces[:rng.randint(1, len(pieces))] + hold
    order = ["c"] * len(segs["c"]) + ["s"] * len(segs["s"])
    rng.shuffle(order)
    idx = {"c": 0, "s": 0}
    for d in order:
        off, ln = segs[d][idx[d]]; idx[d] += 1
        o = "s" if d == "c" else "c"
        data = c.data[d][off:off + ln]
        r = rng.random()
        if r < 0.04 and ln:                                  # stale bytes before the stream start (negative offset)
            k = rng.randint(1, 4)
            c.pk(d, PSH | ACK, off - k, bytes(rng.randrange(256) for _ in range(k)) + data, ackoff=sent[o]) if off == 0 else \
                c.pk(d, PSH | ACK, off - min(k, off), c.data[d][off - min(k, off):off + ln], ackoff=sent[o])
        elif r < 0.06:
            c.pk(d, ACK, off, b"", ackoff=sent[o])           # an empty RawPDU (API-only)
        elif r < 0.08 and ln:
            c.pk(d, PSH | ACK, off, bytes((x ^ 0x55) for x in data), ackoff=sent[o])   # inconsistent bytes
        else:
            c.pk(d, rng.choice([ACK, PSH | ACK]), off, data, ackoff=sent[o])
        sent[d] = max(sent[d], off + ln)
        if rng.random() < 0.15:
            c.pk(o, ACK, sent[o], None, ackoff=sent[d])      # pure ACK the other way
    close = rng.choice(["fin", "fin", "rst", "none", "finrst", "halffin"]) if style != "flood" else rng.choice(["none", "fin"])
    if close in ("fin", "halffin"):
        first = rng.choice("cs"); second = "s" if first == "c" else "c"
        L1 = len(c.data[first]); L2 = len(c.data[second])
        c.pk(first, FIN | ACK, L1, None, ackoff=L2)
        if close == "fin":
            if rng.random() < 0.5:
                c.pk(second, ACK, L2, None, ackoff=L1 + 1)
            c.pk(second, FIN | ACK, L2, None, ackoff=L1 + 1)
            c.pk(first, ACK, L1 + 1, None, ackoff=L2 + 1)   # the last ACK arrives after the connection is forgotten
    elif close == "rst":
        d = rng.choice("cs")
        c.pk(d, rng.choice([RST, RST | ACK]), len(c.data[d]), None, ackoff=0)
    elif close == "finrst":
        d = rng.choice("cs")
        c.pk(d, FIN | RST | ACK, len(c.data[d]), None, ackoff=0)
    if rng.random() < 0.2 and c.pkts:
        del c.pkts[rng.randrange(len(c.pkts))]               # a packet the capture missed
    if rng.random() < 0.1 and c.pkts:
        i = rng.randrange(len(c.pkts)); c.pkts.insert(i, c.pkts[i])   # a packet captured twice


def pick_endpoints(rng, fam, prev, collide_with=None):
    hosts = V4_HOSTS if fam == "v4" else V6_HOSTS
    if collide_with is not None:
        # the IPv6 connection a.b.c.d:: with the same ports as an IPv4 connection (either orientation)
        c = collide_with
        e = (pad_v4(c.ca), c.cp, pad_v4(c.sa), c.sp)
        return e if rng.random() < 0.5 else (e[2], e[3], e[0], e[1])
    same = [p for p in prev if p.fam == fam]
    if same and rng.random() < 0.6:
        b = rng.choice(same)
        v = rng.randrange(6)
        if v == 0: return (b.ca, (b.cp + 1) % 65536, b.sa, b.sp)          # differs in one port
        if v == 1: return (b.ca, b.cp, b.sa, (b.sp + 1) % 65536)
        if v == 2: return (b.sa, b.cp, b.ca, b.sp)                         # same ports on swapped hosts
        if v == 3: return (b.ca, b.sp, b.sa, b.cp)                         # swapped ports
        if v == 4: return (b.ca, b.cp, rng.choice(hosts), b.sp)            # one host differs
        return (b.ca, b.cp, b.ca, b.sp)                                    # both ends on one host
    return (rng.choice(hosts), rng.choice(PORTS), rng.choice(hosts), rng.choice(PORTS))


def gen_case(rng, collide=False, big=False, defaults=False):
    ka = rng.choice([300000000, 300000000, 300000000, 1000, 50000, 50000, 1 if rng.random() < 0.3 else 7])
    cfg = dict(attach=int(rng.random() < 0.45), maxc=rng.choice([512, 512, 512, 512, 2, 3, 5, 8, 0 if rng.random() < 0.3 else 4]),
               maxb=rng.choice([3145728, 3145728, 3145728, 3145728, 10, 40, 100, 0 if rng.random() < 0.3 else 25]),
               ka=ka, acl=int(rng.random() < 0.8), ooo=int(rng.random() < 0.5),
               ack=rng.choice([0, 0, 1, 2, 3, 3, 3]), usesack=int(rng.random() < 0.4),
               ign=rng.choice([0, 0, 0, 0, 0, 0, 1, 2, 3]), maxs=MAXS)
    if defaults:
        cfg.update(maxc=512, maxb=3145728)
    if rng.random() < 0.08:
        cfg["rec"] = rng.choice([0, 1, 5, 30, 30, 100, 2 ** 31, 2 ** 32 - 1])   # Stream::enable_recovery_mode(window)
    if rng.random() < 0.04:
        cfg["nocb"] = 1                                      # no new-stream callback installed: callback_not_set path
    ops = ["case " + " ".join(f"{k}={v}" for k, v in cfg.items())]
    n = rng.choice([1, 2, 2, 3, 3, 4, 6, 8])
    conns, keys = [], set()
    for i in range(n):
        fam = rng.choice(["v4", "v6"])
        coll = None
        if collide and i >= 1 and any(p.fam == "v4" for p in conns) and rng.random() < 0.7:
            fam, coll = "v6", rng.choice([p for p in conns if p.fam == "v4"])
        if collide and i == 0:
            fam = "v4"
        ca, cp, sa, sp = pick_endpoints(rng, fam, conns, coll)
        c = Conn(fam, ca, cp, sa, sp, rng, 3000 if big else 48)
        fresh = c.key() not in keys and not (ca == sa and cp == sp)
        keys.add(c.key())
        style = rng.choice(["full", "full", "full", "mid", "flood", "synonly", "nosynack"])
        if defaults:
            style = "flood"
        if style == "mid" and not cfg["attach"] and rng.random() < 0.7:
            style = "full"
        script(rng, c, style, cfg)
        if fresh:
            ops += c.decls()
        conns.append(c)
    # interleave, keeping each connection's order
    t = rng.choice([0, 1, ka, 10 * ka + 7])
    left = [list(c.pkts) for c in conns]
    cur = None
    mono = rng.random() < 0.93
    while any(left):
        alive = [i for i, l in enumerate(left) if l]
        if cur not in alive or rng.random() < 0.6:
            cur = rng.choice(alive)
        r = rng.random()
        gap = rng.randint(0, max(1, ka // 400)) if r < 0.9 else rng.randint(0, ka) if r < 0.95 else rng.randint(ka, 3 * ka + 2)
        if not mono and rng.random() < 0.1:
            t = max(0, t - rng.randint(0, ka))
        else:
            t += gap
        ops.append(f"pkt {t} " + left[cur].pop(0))
        if rng.random() < 0.08:
            c = rng.choice(conns)
            v = rng.randrange(4)
            if v == 0: ops.append(f"find {c.fam} {c.ca} {c.cp} {c.sa} {c.sp}")
            elif v == 1: ops.append(f"find {c.fam} {c.sa} {c.sp} {c.ca} {c.cp}")
            elif v == 2: ops.append(f"find {c.fam} {c.ca} {c.sp} {c.sa} {c.cp}")
            elif c.fam == "v4" and collide: ops.append(f"find v6 {pad_v4(c.ca)} {c.cp} {pad_v4(c.sa)} {c.sp}")
            else: ops.append(f"find {c.fam} {c.ca} {(c.cp + 1) % 65536} {c.sa} {c.sp}")
    for c in conns:
        ops.append(f"find {c.fam} {c.ca} {c.cp} {c.sa} {c.sp}")
    return ops


def source_defaults():
    """the limits of a default-constructed StreamFollower as the CURRENT source has them (translator/gen_limits.py);
    the documented values where the translator found nothing"""
    from translator import gen_limits
    v = gen_limits.values()
    g = lambda k, d: v.get(k) if v.get(k) is not None else d
    return dict(maxc=g("followerMaxChunks", 512), maxb=g("followerMaxBytes", 3145728), ka=g("followerKeepAliveUs", 300000000))


def default_limit_case(rng, which):
    """cross the limits of a default-constructed follower (the case line names none of them, so the harness leaves what the
    constructor set, the model takes Gen.Limits, the oracle the documented 512 chunks / 3 MiB / 5 min) with a flood of
    out-of-order segments, or stay idle for keep-alive -1 / +0 / +1 microseconds.  How far the flood goes is read from
    the generated table, so the boundary is crossed at the value the source currently says."""
    lim = source_defaults()
    ops = [f"case attach={rng.randrange(2)} acl=1 ooo=0 ack={rng.randrange(4)} maxs={MAXS}"]
    fam = rng.choice(["v4", "v6"])
    h = V4_HOSTS if fam == "v4" else V6_HOSTS
    a, b = h[0], h[1]
    isn = rng.randrange(M32)
    t = 5
    ops.append(f"pkt {t} {fam} {a} 1000 {b} 80 {SYN} {isn} 0 none")
    ops.append(f"pkt {t} {fam} {b} 80 {a} 1000 {SYN | ACK} 77 {(isn + 1) % M32} none")
    if which == "chunks":
        order = list(range(1, min(max(lim["maxc"], 512), 20000) + 8))
        rng.shuffle(order)
        for i in order:
            t += 1
            ops.append(f"pkt {t} {fam} {a} 1000 {b} 80 {ACK} {(isn + 1 + 2 * i) % M32} 78 {hexs(bytes([i % 256]))}")
    elif which == "bytes":
        size = 65000
        for i in range(1, min(max(lim["maxb"], 3145728), 2 ** 26) // size + 4):
            t += 1
            src, sp, dst, dp, s0 = (a, 1000, b, 80, isn) if i % 2 else (b, 80, a, 1000, 77)
            ops.append(f"pkt {t} {fam} {src} {sp} {dst} {dp} {ACK} {(s0 + 1 + 10 + i * size) % M32} 78 {hexs(bytes([i % 256]) * size)}")
    else:                   # keep-alive: other connections' packets move the clock to the boundary
        for n, ka in enumerate(sorted({lim["ka"], 300000000})):
            for k, dt in enumerate([ka - 1, ka, ka + 1, 2 * ka + 2]):
                ops.append(f"pkt {t + dt} {fam} {a} {2000 + 10 * n + k} {b} 80 {SYN} {isn} 0 none")
                ops.append(f"find {fam} {a} 1000 {b} 80")
    ops.append(f"find {fam} {a} 1000 {b} 80")
    return ops


def sack_limit_case(rng, variant):
    """cross the SACKed-interval limit (a compile-time constant: MAXS + 1 disjoint blocks are needed, four per segment).
    variants: client  - all blocks reported by the client, only its flow is tracked
              both    - the two flows together cross the limit, each alone stays below it
              exact   - stop at exactly MAXS intervals, cover some by a cumulative ACK, then cross
              untracked - the crossing direction is not tracked: nothing may happen
              buffers - the crossing segment also exceeds the chunk limit: the reason must be BUFFERED_DATA
              attach  - a connection attached mid-stream (trackers default-constructed; SACK only after use_sack)"""
    fam = rng.choice(["v4", "v6"])
    h = V4_HOSTS if fam == "v4" else V6_HOSTS
    a, b = h[0], h[1]
    ic, isv = rng.choice(BOUNDARY_ISNS + [rng.randrange(M32)]), rng.choice(BOUNDARY_ISNS + [rng.randrange(M32)])
    ack = {"client": 1, "both": 3, "exact": rng.choice([1, 3]), "untracked": 2, "buffers": 3, "attach": 3}[variant]
    maxc = 0 if variant == "buffers" else 512
    usesack = 1 if variant == "attach" else rng.randrange(2)
    attach = 1 if variant == "attach" else rng.randrange(2)
    ops = [f"case attach={attach} maxc={maxc} maxb=3145728 ka=300000000 acl=1 ooo=0 ack={ack} usesack={usesack} ign=0 maxs={MAXS}"]
    t = 5
    cs = f"{fam} {a} 1000 {b} 80"; sc = f"{fam} {b} 80 {a} 1000"
    if variant == "attach":
        # default-constructed trackers start at ACK number 0: keep everything just above 0
        ic, isv = 10, 20
        ops.append(f"pkt {t} {cs} {ACK} 11 21 aa")
    else:
        ops.append(f"pkt {t} {cs} {SYN} {ic} 0 none")
        ops.append(f"pkt {t} {sc} {SYN | ACK} {isv} {(ic + 1) % M32} none")
        ops.append(f"pkt {t} {cs} {ACK} {(ic + 1) % M32} {(isv + 1) % M32} none")
        ops.append(f"pkt {t} {sc} {ACK} {(isv + 1) % M32} {(ic + 1) % M32} none")
    # position of block i above the acknowledged point of a direction: 3 sequence numbers apart, 1 or 2 long
    def blocks(base, first, n):
        return ",".join(f"{(base + 2 + 3 * i) % M32},{(base + 2 + 3 * i + rng.randint(1, 2)) % M32}" for i in range(first, first + n))
    need = MAXS + 1
    sent = {"c": 0, "s": 0}
    def send(d, n, extra=""):
        nonlocal t
        t += 1
        base = (isv + 1) if d == "c" else (ic + 1)        # the client acknowledges the server's stream
        line, seq, ackn = (cs, (ic + 1) % M32, (isv + 1) % M32) if d == "c" else (sc, (isv + 1) % M32, (ic + 1) % M32)
        if variant == "attach":
            seq = (seq + 1) % M32 if d == "c" else seq
        ops.append(f"pkt {t} {line} {ACK} {seq} {ackn} none sk={blocks(base, sent[d], n)}" + extra)
        sent[d] += n
    if variant in ("client", "untracked", "buffers", "attach"):
        d = "c"
        while sent[d] + 4 < need:
            send(d, 4)
        if variant == "buffers":
            # the crossing segment carries an out-of-order payload: one buffered chunk > maxc = 0
            t += 1
            ops.append(f"pkt {t} {cs} {ACK} {(ic + 1 + 50) % M32} {(isv + 1) % M32} bb sk={blocks(isv + 1, sent[d], need - sent[d])}")
        else:
            while sent[d] < need:
                send(d, 1)
        send(d, 2)                                           # after the termination: not tracked any more (or untracked direction)
    elif variant == "both":
        half = need // 2
        for d in "cs":
            while sent[d] + 4 <= half - 1:
                send(d, 4)
        while sent["c"] + sent["s"] < need:
            send(rng.choice("cs"), 1)
        send("c", 1)
    else:                                                    # exact
        d = "c"
        while sent[d] + 4 <= MAXS:
            send(d, 4)
        while sent[d] < MAXS:
            send(d, 1)
        ops.append(f"find {fam} {a} 1000 {b} 80")
        # a cumulative ACK covering the first 10 blocks erases them; a block bridging two neighbours merges them
        t += 1
        ops.append(f"pkt {t} {cs} {ACK} {(ic + 1) % M32} {(isv + 1 + 2 + 3 * 10) % M32} none")
        t += 1
        ops.append(f"pkt {t} {cs} {ACK} {(ic + 1) % M32} {(isv + 1 + 2 + 3 * 10) % M32} none sk={(isv + 1 + 2 + 3 * 20) % M32},{(isv + 1 + 2 + 3 * 23 + 1) % M32}")
        ops.append(f"find {fam} {a} 1000 {b} 80")
        n0 = sent[d]
        for _ in range(16):
            send(d, 1)
    ops.append(f"find {fam} {a} 1000 {b} 80")
    return ops


def exhaustive_interleavings(limit, rng):
    """small scope, exhaustive: every interleaving of two 3-packet connections that share hosts / ports in every way,
    x attach on/off x short/long time gaps"""
    import itertools
    A = ("v4", "0a000001", 1234, "0a000002", 80)
    Bs = [("v4", "0a000001", 1235, "0a000002", 80),     # differs in one port
          ("v4", "0a000002", 1234, "0a000001", 80),     # same ports on swapped hosts
          ("v4", "0a000001", 80, "0a000002", 1234),     # swapped ports
          ("v4", "0a000001", 1234, "0a000001", 80),     # both ends on one host
          ("v6", "00000000000000000000ffff0a000001", 1234, "00000000000000000000ffff0a000002", 80),   # v4-mapped bytes
          ("v6", "0a000001000000000000000000000001", 1234, "0a000002000000000000000000000001", 80)]   # near a.b.c.d::
    def scripts(c, isn_c, isn_s, dc, ds):
        fam, ca, cp, sa, sp = c
        cs = f"{fam} {ca} {cp} {sa} {sp}"; sc = f"{fam} {sa} {sp} {ca} {cp}"
        return {
            "syn-data-fin": [f"{cs} {SYN} {isn_c} 0 none", f"{cs} {PSH|ACK} {(isn_c+1)%M32} {(isn_s+1)%M32} {hexs(dc)}",
                             f"{cs} {FIN|ACK} {(isn_c+1+len(dc))%M32} {(isn_s+1)%M32} none"],
            "syn-synack-rst": [f"{cs} {SYN} {isn_c} 0 none", f"{sc} {SYN|ACK} {isn_s} {(isn_c+1)%M32} none",
                               f"{sc} {RST} {(isn_s+1)%M32} 0 none"],
            "data-data-fin": [f"{cs} {PSH|ACK} {(isn_c+1)%M32} {(isn_s+1)%M32} {hexs(dc)}",
                              f"{sc} {PSH|ACK} {(isn_s+1)%M32} {(isn_c+1+len(dc))%M32} {hexs(ds)}",
                              f"{sc} {FIN|ACK} {(isn_s+1+len(ds))%M32} {(isn_c+1+len(dc))%M32} none"],
            "fin-fin-ack": [f"{cs} {SYN} {isn_c} 0 none", f"{cs} {FIN|ACK} {(isn_c+1)%M32} {(isn_s+1)%M32} none",
                            f"{sc} {FIN|ACK} {(isn_s+1)%M32} {(isn_c+2)%M32} none"],
        }
    def decls(c, isn_c, isn_s, dc, ds):
        fam, ca, cp, sa, sp = c
        return [f"decl {fam} {ca} {cp} {sa} {sp} {isn_c} {hexs(dc)}", f"decl {fam} {sa} {sp} {ca} {cp} {isn_s} {hexs(ds)}"]
    out = []
    sa = scripts(A, 4294967294, 7, b"\x01\x02\x03", b"\x0a\x0b")
    for B in Bs:
        sb = scripts(B, 100, 4294967295, b"\x21\x22", b"\x31")
        for na, nb in itertools.product(sa, sb):
            for pos in itertools.combinations(range(6), 3):
                for attach in (0, 1):
                    for gaps in ("short", "long"):
                        ops = [f"case attach={attach} maxc=512 maxb=3145728 ka=1000 acl=1 ooo=1 ack=3 maxs={MAXS}"]
                        ops += decls(A, 4294967294, 7, b"\x01\x02\x03", b"\x0a\x0b") + decls(B, 100, 4294967295, b"\x21\x22", b"\x31")
                        ia = ib = 0; t = 10
                        for i in range(6):
                            t += 1 if gaps == "short" or i != 3 else 1500
                            if i in pos:
                                ops.append(f"pkt {t} " + sa[na][ia]); ia += 1
                            else:
                                ops.append(f"pkt {t} " + sb[nb][ib]); ib += 1
                        ops.append(f"find {A[0]} {A[1]} {A[2]} {A[3]} {A[4]}")
                        ops.append(f"find {B[0]} {B[1]} {B[2]} {B[3]} {B[4]}")
                        out.append(ops)
    if len(out) > limit:
        out = rng.sample(out, limit)
    return [l for c in out for l in c]


def classify(op, impl):
    w = op.split(" ")
    if w[0] != "pkt":
        return w[0] + (":none" if impl.endswith(" none") else ":found") if w[0] == "find" else w[0]
    tags = []
    ev = impl.split(" | ")[0]
    for name in ("new", "cdata", "sdata", "cooo", "sooo", "closed", "TIMEOUT", "BUFFERED_DATA", "SACKED_SEGMENTS", "exc"):
        if (name + " ") in ev:
            tags.append(name)
    if "partial=1" in ev and "new " in ev:
        tags.append("attach")
    if " rec=1" in impl:
        tags.append("recovery")
    if " civn=" in impl and (" civn=0 " not in impl or " sivn=0 " not in impl):
        tags.append("sacked")
    return "pkt:" + w[2] + ":" + ("+".join(tags) if tags else ("untracked" if impl.endswith("| none") else "quiet"))


def padded_key(fam, a, ap, b, bp):
    if fam == "v4":
        a, b = pad_v4(a), pad_v4(b)
    return tuple(sorted([(a, int(ap)), (b, int(bp))]))


def cross_family_collision(case):
    """does the (minimised) case contain an IPv4 and an IPv6 4-tuple whose zero-padded identifiers coincide"""
    seen = {}
    for l in case:
        w = l.split(" ")
        if w[0] == "pkt":
            fam, t = w[2], (w[3], w[4], w[5], w[6])
        elif w[0] == "find":
            fam, t = w[1], (w[2], w[3], w[4], w[5])
        else:
            continue
        seen.setdefault(padded_key(fam, *t), set()).add(fam)
    return any(len(v) == 2 for v in seen.values())


def sig_of(kind, detail, case):
    clause = detail.split(" ")[1] if kind == "spec" and " " in detail else ""
    return {"kind": kind, "clause": clause, "cross_family_padded_collision": cross_family_collision(case)}


def harness():
    return core.build_harness(HARNESS, extra=HARNESS_EXTRA)


def run(chk):
    from translator import gen_limits
    gen_limits.main([])          # Gen/Limits.lean: constants and limits read from the current source
    chk.trusted.append("translator/gen_limits.py (constants / limits of the source -> Gen/Limits.lean: compiled probe + "
                       "preprocessed function bodies at named anchors; tied to the model numerals by Props/Limits/C07.lean)")
    problems = chk.prove(MODULES, AUDIT, want_leanchecker=(chk.tier == "thorough"))
    problems = gen_limits.name_failures(chk, problems, "C07")   # name the tie theorems that fail
    exe, err = harness()
    if exe is None:
        chk.violation("implementation does not build: " + err[-1500:], ["build-error"], nofail=True)
        return
    rng = random.Random(chk.seed)
    quick = chk.tier == "quick"
    global MAXS
    m = max_sacked_from_source()
    if m is None:
        chk.violation("DEFAULT_MAX_SACKED_INTERVALS not found in src/tcp_ip/stream_follower.cpp (the limit constant the "
                      "model takes as a parameter)", ["limit-constant-not-found"], nofail=True)
    else:
        MAXS = m
    stats = {}
    total = lambda: sum(v.get("spec", 0) + v.get("fault", 0) for v in stats.values())

    def batch(name, ops):
        st = corr.correspond(chk, AREA, exe, ops, case_start=CASE_START, classify=classify, sig_of=sig_of)
        stats[name] = st

    # 0. corpus of minimised past failures (the witnesses of KF-C07-1..3) runs first
    import glob, os
    ops = []
    for f in sorted(glob.glob(os.path.join(core.VERIF, "corpus", "C07", "*.ops"))):
        ops += [l.rstrip("\n") for l in open(f) if l.strip() and not l.startswith("#")]
    if ops:
        batch("corpus", ops)
    # 1. main workload: mixed IPv4/IPv6, no cross-family padded collision possible
    for r in range(1 if quick else 12):
        ops = []
        for i in range(1200 if quick else 2500):
            ops += gen_case(rng, big=(i % 40 == 0))
        batch(f"main{r}", ops)
    # 1b. small-scope exhaustive: all interleavings of two 3-packet connections
    batch("exhaustive", exhaustive_interleavings(150 if quick else 10 ** 9, rng))
    # 2. the default limits (512 chunks / 3 MiB)
    ops = []
    for i in range(1 if quick else 6):
        ops += default_limit_case(rng, "chunks") + default_limit_case(rng, "bytes") + default_limit_case(rng, "keepalive")
    for i in range(4 if quick else 60):
        ops += gen_case(rng, defaults=True)
    batch("defaults", ops)
    # 2b. the SACKed-interval limit (a compile-time constant: floods of MAXS + 1 disjoint SACK blocks)
    ops = []
    variants = ["client", "both", "exact", "untracked", "buffers", "attach"]
    if MAXS <= 20000:
        for v in (variants if quick else variants * 4):
            ops += sack_limit_case(rng, v)
    batch("sacklimit", ops)
    # 3. cross-family workload: IPv4 connections and the IPv6 connections a.b.c.d:: with the same ports
    ops = []
    for i in range(150 if quick else 1500):
        ops += gen_case(rng, collide=True)
    batch("xfam", ops)
    for p in problems:
        if not total():
            chk.violation("proof obligation no longer checks: " + p[:1500], ["theorem-or-audit-failure", p[:4000]], nofail=True)
    chk.cov["rule"] = ("cases = (follower configuration incl. what the new-stream callback does, <= 8 scripted TCP connections over "
                       "IPv4/IPv6 with shared hosts/ports, receiver-model ACK / SACK options incl. malformed ones, interleaving, "
                       "timestamps) + floods crossing each of the three limits at its default; distinct_nontrivial counts "
                       "distinct (operation, implementation result) pairs")
    chk.assumptions += [
        "addresses are modelled as big-endian naturals; std::array<uint8_t,16> comparison = numeric comparison",
        "std::map<StreamIdentifier,Stream> is an association list; cleanup_streams visits expired entries in operator< order",
        "what the application does to a stream happens inside the new-stream callback and is part of the configuration: auto-cleanup "
        "off, Flow::enable_ack_tracking per flow, AckTracker::use_sack, ignore_client_data / ignore_server_data, "
        "enable_recovery_mode(window) (last, after the out-of-order callbacks); either every callback is installed or (nocb) "
        "no new-stream callback at all",
        "DEFAULT_MAX_SACKED_INTERVALS is a parameter of the model: the check reads the literal from src/tcp_ip/stream_follower.cpp, "
        "the harness reports the compiled value and the oracle compares the two on every case",
        "boost::icl::interval_set is the canonical interval list of the C19 model (validated against icl by the printed intervals)",
        "payload equality is compared through length + FNV-1a 64",
        "timestamps < 2^62 microseconds (std::chrono::microseconds is int64)",
    ]
    chk.trusted += ["correspondence harness harness/c07_follower.cpp (built with -fno-access-control to set the private "
                    "limits max_buffered_chunks_/max_buffered_bytes_) + generators in checks/C07.py",
                    "C06 DataTracker model and C19 AckTracker model (imported; their own ties are the C06 / C19 checks)",
                    "g++ 12 / ASan+UBSan build of the repo's working tree"]
    chk.extra["batches"] = {k: dict(v) for k, v in stats.items()}
    # how much of the workload the oracle actually judges (sample)
    sample = []
    for i in range(150):
        sample += gen_case(random.Random(chk.seed * 1000 + i))
    si, _, ss, _ = corr.evaluate(AREA, exe, sample, CASE_START, model=False)
    verd = {}
    for l in ss:
        k = " ".join(l.split(" ")[:2]) if l.startswith("violates") else l
        verd[k] = verd.get(k, 0) + 1
    chk.extra["oracle_verdicts_sample"] = verd
    chk.extra["modelled_not_proved"] = [
        "recovery mode (Stream::enable_recovery_mode / recovery_mode_handler): modelled (Flow.recEnd / recover), tied by "
        "correspondence, covered by every configuration-generic theorem and by recovery_skips_hole / recovery_stays_off; the "
        "oracle has no clause for what the handler does to the data (its deliver clause is switched off while recovery "
        "mode is configured) and per_flow_delivery_* asks for a flow without a handler (FlowInv.rc)",
        "per_flow_delivery_client/server start from a flow that satisfies FlowInv (out of UNKNOWN, tracker = C06's model): "
        "established by syn_starts_client for the client direction of a SYN-created stream, by attach_starts for both "
        "directions of an attached stream, by flow_step_syn for a server flow whose first segment is its SYN+ACK; a direction "
        "in which data arrived before its SYN (the SYN then resets the expected sequence number) is outside the hypothesis: "
        "oracle deliver clause and correspondence only",
        "the content of a flow's ACK tracker (cumulative ACK, maximal runs of SACKed positions) is C19's theorem about the "
        "imported AckTracker model; inside the follower it is judged by the oracle's acktrack clause (C19 stateVerdict) for "
        "acknowledgement histories a receiver emits, from the segment that completes the direction's handshake, and by "
        "correspondence otherwise (non-conforming SACKs, attached streams whose default-constructed trackers start at 0)",
        "follower without a new-stream callback (callback_not_set): modelled (stepX / runX), unique keys and the three limits "
        "proved for it (callback_not_set_path); the lifetime theorems (announce_once, forget_iff, flow_is_fold, ...) are "
        "stated for the follower with the callback installed (runX = run then)",
    ]
    corr.finalize_cov(chk)


def replay(path):
    exe, err = harness()
    ops = [l.rstrip("\n") for l in open(path) if not l.startswith("#") and l.strip()]
    impl, mod, spec, faults = corr.evaluate(AREA, exe, ops, CASE_START)
    bad = corr.first_problem(ops, impl, mod, spec)
    for o, a, b, c in zip(ops, impl, mod, spec):
        print(o[:200]); print("  impl :", a[:400]); print("  model:", b[:400]); print("  spec :", c)
    if bad:
        print(f"VIOLATION property=C07 replay={path}")
        return 1
    return 0
