"""C11 — RadioTap fields can be set in any order and read back."""
import glob, itertools, os, random, sys
from vlib import core, corr

sys.path.insert(0, os.path.join(core.VERIF, "translator"))
import gen_radiotap  # noqa: E402

AREA = "C11"
MODULES = ["TinsModel.Props.C11", "TinsModel.Props.Limits.C11"]   # + the constants / limits tied to the source (translator/gen_limits.py)
AUDIT = ["Audit/C11.lean", "Audit/LimitsC11.lean"]
LEVEL = "proof"
MANIFEST = dict(
    text="Lean 4 theorems over a code-shaped executable model of RadioTapParser (a fault-explicit version in which "
         "every raw read is bounds-tested, proved equal to the total one), RadioTapWriter::write_option "
         "(build_padding_vector, update_paddings) and the RadioTap constructors/setters/getters/serializer. "
         "(1) Parser: for every byte string the constructor, advance_field, skip_to_field, has_field, current_option and "
         "present() never read outside the buffer or the field table, terminate within explicit fuel, and throw only "
         "malformed_packet (parser_ctor_safe, parser_ops_safe, parser_walk_total, present_safe). (2) Setters: from every "
         "reachable object (default, parsed from any accepted bytes, written) every sequence of add_option calls with any "
         "field and value length never faults (write_option_safe, setters_never_fault, observers_never_fault); for every "
         "finite sequence of valid writes from the default header, a canonical parsed header, or any parsed header the "
         "decidable test decodeLayout accepts (chain of present words, later words empty / namespace bits / unknown "
         "bits, foreign trailing bytes) the payload is the well-aligned layout of the last-write map inside the unchanged "
         "frame, getters return the last write or field_not_present, present() has the domain as table bits "
         "(setters_any_order, setters_any_order_layout, setters_any_order_parsed_layout, getter_last_write_layout, "
         "setter_frame_partial); when the last present word announces table fields the chain and the first word's "
         "fields are still right and read back, only the bytes behind them are re-padded (write_layout_live, "
         "setters_any_order_live, setter_frame_live), and when those bytes are the well-aligned fields of the last word "
         "(decodeLayout2: e.g. two radiotap namespaces as the standard lays them out) they are re-aligned with their "
         "values and every getter returns the first word's value, else the last word's (write_two_words, "
         "getter_two_words, setters_two_words); the full frame statement SetterFrameAll is refuted on a "
         "vendor-namespace witness (setter_frame_fails, KF-C11-6, replayed on the real code on every run). "
         "(3) Serialization: length_covers for every object; serialize_reparse_any: for every payload the parser accepts "
         "the re-parsed object has the same version, pad and payload and the inner frame gets exactly its bytes. "
         "The field table, PresentFlags and the setter/getter field+width tables are regenerated from the source on every "
         "run and the table theorems re-decided; model, implementation (ASan/UBSan) and the executable spec oracle are "
         "compared on exhaustive small-scope and random setter histories, canonical / multi-word / vendor / truncated / "
         "noise headers followed by setter sequences, raw RadioTapParser walks over damaged option buffers, and "
         "serialize/re-parse round trips.",
    note="Trusted: Lean kernel + standard axioms; hand-written model tied by correspondence "
         "(harness/c11_radiotap.cpp); translator/gen_radiotap.py (regex over the three source files); FCS value "
         "checked against an independent CRC-32 in the harness; inner 802.11 frames are opaque bytes. Well-aligned = "
         "zero padding bytes; headers with non-zero padding, misaligned or truncated fields are covered by the safety "
         "theorems and the any-payload serialization theorem only. Known finding KF-C11-6: setters re-pad vendor / "
         "unknown-namespace bytes behind the first present word's fields when the last present word has table bits.",
    technique="Lean 4 proof (induction over field lists, padding-vector invariants for update_paddings, validated-chain "
              "invariant and progress measure for the parser, refinement checked=total) + model/impl correspondence + "
              "spec oracle written from the radiotap standard",
    design="DESIGN.md §6 C11")
MANIFEST["note"] += (" Constants and limits of the C++ source that the model restates (translator/gen_limits.py -> Gen/Limits.lean: "
                     "compiled probe + preprocessed function bodies at named anchors) are tied to the model's numerals by the "
                     "theorems of lean/TinsModel/Props/Limits/C11.lean (audit: Audit/LimitsC11.lean); tools/LIMITS-INVENTORY.md lists "
                     "what is tied and what is not.")

META = [(8, 8), (1, 1), (1, 1), (4, 2), (2, 2), (1, 1), (1, 1), (2, 2), (2, 2), (2, 2), (1, 1), (1, 1), (1, 1), (1, 1),
        (2, 2), (2, 2), (1, 1), (1, 1), (8, 4), (3, 1), (8, 4), (12, 2)]        # the radiotap standard (generator only)
SETTERS = {"tsft": 0, "flags": 1, "rate": 2, "channel": 3, "dbm_signal": 5, "dbm_noise": 6, "signal_quality": 7,
           "antenna": 11, "db_signal": 12, "rx_flags": 14, "tx_flags": 15, "data_retries": 17, "xchannel": 18, "mcs": 19}
NAMES = list(SETTERS)
UNSET_IN_DEFAULT = ["rate", "dbm_noise", "signal_quality", "db_signal", "tx_flags", "data_retries", "xchannel", "mcs"]
CASE_START = ("new", "parse", "walk", "skipto")
# valid 802.11 frames that libtins parses and re-serialises byte for byte
INNER = ["0800" + "00" * 22,
         "0841" + "2c00" + "112233445566" + "aabbccddeeff" + "010203040506" + "1000" + "deadbeef",
         "b400" + "0000" + "112233445566" + "aabbccddeeff"]


def hexs(b):
    return bytes(b).hex() if len(b) else "-"


def canon(m):
    w = sum(1 << b for b in m)
    out = bytearray(w.to_bytes(4, "little"))
    for b in sorted(m):
        while (len(out) + 4) % META[b][1]:
            out.append(0)
        out += m[b]
    return bytes(out)


def header(payload, version=0, pad=0, length=None):
    n = 4 + len(payload) if length is None else length
    return bytes([version, pad, n & 255, (n >> 8) & 255]) + payload


def rand_value(rng, bit):
    n = META[bit][0]
    r = rng.random()
    if r < 0.15:
        return bytes(n)
    if r < 0.3:
        return bytes([255] * n)
    v = bytearray(rng.randrange(256) for _ in range(n))
    if bit == 1 and rng.random() < 0.8:
        v[0] &= 0xbf            # FAILED_FCS makes libtins refuse to re-parse the frame; keep it rare
    return bytes(v)


def set_op(rng, name):
    return f"set {name} {hexs(rand_value(rng, SETTERS[name]))}"


def distinct_value(bit, k):
    """a value whose bytes identify (field, position in the history)"""
    return bytes(((bit * 11 + k * 37 + i * 3 + 1) & 0xbf) | (0x10 if bit == 1 and i == 0 else 0) for i in range(META[bit][0]))


def blank_parse():
    return "parse " + hexs(header(canon({})))


def exhaustive_cases(tier, rng):
    """small-scope exhaustive setter orders: from the default header over the 8 fields it does not carry, and from
    the blank parsed header over all 14 settable fields"""
    out = []
    kmax_default = 4 if tier == "quick" else 8     # thorough: every order of every subset of the 8 missing fields
    for k in range(1, kmax_default + 1):
        for perm in itertools.permutations(UNSET_IN_DEFAULT, k):
            out.append(["new"] + [f"set {f} {hexs(distinct_value(SETTERS[f], j))}" for j, f in enumerate(perm)])
    kmax_blank = 2 if tier == "quick" else 4
    for k in range(1, kmax_blank + 1):
        for perm in itertools.permutations(NAMES, k):
            out.append([blank_parse()] + [f"set {f} {hexs(distinct_value(SETTERS[f], j))}" for j, f in enumerate(perm)])
    return out


def random_case(rng, maxlen):
    style = rng.random()
    m = None
    if style < 0.45:
        ops = ["new"]
    else:
        # a canonical parsed header over a random subset of all 22 known fields
        bits = [b for b in range(22) if rng.random() < rng.choice([0.1, 0.3, 0.6])]
        m = {b: rand_value(rng, b) for b in bits}
        if 1 in m:
            m[1] = bytes([m[1][0] & 0xbf])
        ops = ["parse " + hexs(header(canon(m), version=rng.choice([0, 0, 1, 255]), pad=rng.choice([0, 0, 7])))]
    n = rng.choice([1, 2, 3, 5, 8, 13, rng.randint(1, maxlen)])
    for _ in range(n):
        r = rng.random()
        if r < 0.75:
            ops.append(set_op(rng, rng.choice(NAMES)))
        elif r < 0.9:
            b = rng.randrange(20)
            ops.append(f"add {b} {hexs(rand_value(rng, b))}")
        else:
            ops.append("ser " + rng.choice(INNER + ["-"]))
    if rng.random() < 0.5:
        ops.append("ser " + rng.choice(INNER))
    return ops


def mutated_case(rng):
    """parsed headers outside the canonical fragment: extended present words, vendor bits, truncation, wrong padding,
    wrong length field — correspondence (incl. sanitizer faults) only, the oracle answers `unspecified`"""
    bits = [b for b in range(22) if rng.random() < 0.3]
    m = {b: rand_value(rng, b) for b in bits}
    pl = bytearray(canon(m))
    length = None
    r = rng.random()
    if r < 0.25 and len(pl) > 4:
        pl = pl[:rng.randint(4, len(pl) - 1)]                         # truncated fields
    elif r < 0.5:
        w = int.from_bytes(pl[:4], "little") | (1 << 31)
        second = rng.choice([0, 1 << rng.randrange(22), rng.getrandbits(22), (1 << 31) | rng.getrandbits(22), 1 << 30, 1 << 29])
        pl = bytearray(w.to_bytes(4, "little")) + bytearray(second.to_bytes(4, "little")) + pl[4:]
        if rng.random() < 0.3:
            pl = pl[:rng.randint(4, len(pl))]
    elif r < 0.65:
        w = int.from_bytes(pl[:4], "little") | rng.getrandbits(32)
        pl[:4] = w.to_bytes(4, "little")                                # fields claimed but absent, reserved bits
    elif r < 0.8 and len(pl) > 4:
        i = rng.randint(4, len(pl))
        pl[i:i] = bytes(rng.randint(1, 3))                              # extra padding
    elif r < 0.9:
        # a length field the RadioTap layer itself rejects (the bytes after the header are always TAIL: the inner
        # 802.11 parser is not part of the model)
        length = rng.choice([0, 4, 7, 4 + len(pl) + rng.randint(25, 60), 65535])
    else:
        pl = bytearray(rng.randrange(256) for _ in range(rng.choice([4, 5, 8, 12, 20])))
    ops = ["parse " + hexs(header(bytes(pl), length=length))]
    for _ in range(rng.randint(1, 6)):
        if rng.random() < 0.85:
            ops.append(set_op(rng, rng.choice(NAMES)))
        else:
            ops.append("ser " + rng.choice(INNER))
    return ops


def enc_fields(m, at):
    """the fields of one present word laid out from payload offset `at` (alignment counted from the header start)"""
    out = bytearray()
    for b in sorted(m):
        while (at + len(out) + 4) % META[b][1]:
            out.append(0)
        out += m[b]
    return bytes(out)


def rand_fields(rng, p=None):
    p = rng.choice([0.1, 0.3, 0.6]) if p is None else p
    m = {b: rand_value(rng, b) for b in range(22) if rng.random() < p}
    if 1 in m:
        m[1] = bytes([m[1][0] & 0xbf])
    return m


def build_options(rng, shape=None):
    """an options buffer with a chain of 1..4 present words.  shape: 'inert' = the later words announce no field
    libtins knows (empty, unknown bits, namespace bits only), 'live' = the last word carries known field bits and the
    fields follow those of the first word, None = either.  Returns (bytes, description)."""
    shape = shape or rng.choice(["inert", "inert", "live"])
    k = rng.choice([0, 0, 1, 1, 1, 2, 3])
    m0 = rand_fields(rng)
    if rng.random() < 0.1:
        m0 = {}
    w0 = sum(1 << b for b in m0)
    if rng.random() < 0.2:
        w0 |= rng.getrandbits(7) << 22                       # fields this parser has no table entry for
    words = [w0]
    mk = {}
    for i in range(k):
        words[-1] |= 1 << 31
        r = rng.random()
        if r < 0.45:
            words[-1] |= 1 << 29                              # next word: radiotap namespace
        elif r < 0.75:
            words[-1] |= 1 << 30                              # next word: vendor namespace
        if i == k - 1:
            if shape == "live":
                mk = rand_fields(rng, 0.25) or {11: b"\x07"}
                w = sum(1 << b for b in mk) | (rng.getrandbits(7) << 22 if rng.random() < 0.2 else 0)
            else:
                w = rng.choice([0, 0, rng.getrandbits(7) << 22, 1 << 29, 1 << 30, rng.getrandbits(9) << 22])
                w &= ~(1 << 31)
        else:
            w = rng.choice([0, 0, rng.getrandbits(22), rng.getrandbits(31)])
        words.append(w)
    pl = b"".join(w.to_bytes(4, "little") for w in words)
    pl += enc_fields(m0, len(pl))
    pl += enc_fields(mk, len(pl))
    pl += bytes(rng.randrange(256) for _ in range(rng.choice([0, 0, 0, 1, 2, 3, 6, 9])))
    return pl, dict(k=k, shape=shape, m0=m0, mk=mk)


def damaged_options(rng):
    """options buffers as they arrive from the wire: built ones, truncated anywhere, with flipped bits, with a chain
    that leaves the buffer, pure noise"""
    r = rng.random()
    pl, _ = build_options(rng)
    pl = bytearray(pl)
    if r < 0.3:
        return bytes(pl)
    if r < 0.55:
        return bytes(pl[:rng.randint(0, len(pl))])             # truncation anywhere (also inside the present words)
    if r < 0.7:
        for _ in range(rng.randint(1, 3)):
            i = rng.randrange(len(pl))
            pl[i] ^= 1 << rng.randrange(8)
        return bytes(pl)
    if r < 0.8:
        n = rng.choice([1, 2, 3, 8])
        return b"".join((rng.getrandbits(31) | (1 << 31)).to_bytes(4, "little") for _ in range(n))   # chain never ends
    if r < 0.9:
        w = int.from_bytes(pl[:4], "little") | rng.getrandbits(32)
        pl[:4] = w.to_bytes(4, "little")
        return bytes(pl)
    return bytes(rng.randrange(256) for _ in range(rng.choice([0, 1, 3, 4, 5, 7, 8, 12, 16, 33])))


def parser_case(rng):
    pl = damaged_options(rng)
    if rng.random() < 0.7:
        return [f"walk {hexs(pl)}"]
    return [f"skipto {rng.randrange(22)} {hexs(pl)}"]


def layout_case(rng, maxlen=12):
    """a parsed header with a chain of present words (later words empty / other namespaces / unknown bits, or live),
    then setters, add_option and serialize+reparse"""
    pl, d = build_options(rng)
    r = rng.random()
    if r < 0.15 and len(pl) > 4:
        pl = pl[:rng.randint(4, len(pl) - 1)]
    ops = ["parse " + hexs(header(pl, version=rng.choice([0, 0, 1, 255]), pad=rng.choice([0, 0, 7])))]
    for _ in range(rng.choice([1, 2, 3, 5, rng.randint(1, maxlen)])):
        r = rng.random()
        if r < 0.7:
            ops.append(set_op(rng, rng.choice(NAMES)))
        elif r < 0.8:
            b = rng.randrange(20)
            ops.append(f"add {b} {hexs(rand_value(rng, b))}")
        else:
            ops.append("ser " + rng.choice(INNER + ["-"]))
    if rng.random() < 0.5:
        ops.append("ser " + rng.choice(INNER))
    return ops


def two_ns_case(rng, maxlen=10):
    """a parsed header with two radiotap namespaces as the standard lays them out (bit 31 + bit 29 in the first present
    word, the second word's fields behind the first's, optional trailing bytes), then setters / add_option / serialize"""
    m0 = rand_fields(rng, rng.choice([0.15, 0.3, 0.5])) or {3: bytes([0x6c, 0x09, 0xa0, 0x00])}
    mk = rand_fields(rng, rng.choice([0.1, 0.25, 0.4]))
    w0 = sum(1 << b for b in m0) | (1 << 31) | (1 << 29)
    w1 = sum(1 << b for b in mk)
    pl = w0.to_bytes(4, "little") + w1.to_bytes(4, "little")
    pl += enc_fields(m0, len(pl))
    pl += enc_fields(mk, len(pl))
    pl += bytes(rng.randrange(256) for _ in range(rng.choice([0, 0, 0, 2, 5])))
    ops = ["parse " + hexs(header(pl, version=rng.choice([0, 0, 3]), pad=rng.choice([0, 0, 9])))]
    for _ in range(rng.choice([1, 2, 3, 5, rng.randint(1, maxlen)])):
        r = rng.random()
        if r < 0.75:
            ops.append(set_op(rng, rng.choice(NAMES)))
        elif r < 0.85:
            b = rng.randrange(20)
            ops.append(f"add {b} {hexs(rand_value(rng, b))}")
        else:
            ops.append("ser " + rng.choice(INNER + ["-"]))
    return ops


def corpus_cases():
    """minimised replays of the findings of this property (known_findings.d/C11.jsonl); run first on every run — the
    known finding KF-C11-6 is reported because it is observed, the fixed ones must stay quiet"""
    out = []
    for f in sorted(glob.glob(os.path.join(core.VERIF, "corpus", "C11", "*.ops"))):
        ops = [l.rstrip("\n") for l in open(f) if l.strip() and not l.startswith("#")]
        out += corr.split_cases(ops, CASE_START)
    return out


def classify(op, impl):
    w = op.split(" ")
    tag = w[0]
    if w[0] in ("set", "add"):
        tag += ":" + w[1]
    if impl.startswith("throw"):
        tag += ":" + impl.split(" ")[1]
    elif impl.startswith("FAULT"):
        tag += ":FAULT"
    return tag


def sig_of(kind, detail, case):
    last = case[-1].split(" ")
    sig = {"kind": kind, "op": " ".join(last[:2]) if last[0] in ("set", "add") else last[0], "start": case[0].split(" ")[0]}
    if kind == "spec":
        sig["clause"] = detail.split(" ")[1]
    elif kind == "fault":
        sig["fault"] = detail.split(" ")[1] if " " in detail else detail
    return sig


def run(chk):
    gen_radiotap.main([])                     # field table regenerated from the source on every run
    from translator import gen_limits
    gen_limits.main([])          # Gen/Limits.lean: constants and limits read from the current source
    chk.trusted.append("translator/gen_limits.py (constants / limits of the source -> Gen/Limits.lean: compiled probe + "
                       "preprocessed function bodies at named anchors; tied to the model numerals by Props/Limits/C11.lean)")
    problems = chk.prove(MODULES, AUDIT, want_leanchecker=(chk.tier == "thorough"))
    problems = gen_limits.name_failures(chk, problems, "C11")   # name the tie theorems that fail
    exe, err = core.build_harness("c11_radiotap")
    if exe is None:
        chk.violation("implementation does not build: " + err[-1500:], ["build-error"], nofail=True)
        return
    rng = random.Random(chk.seed)
    stats = {}

    def go(cases, **kw):
        ops = [l for c in cases for l in c]
        s = corr.correspond(chk, AREA, exe, ops, case_start=CASE_START, classify=classify, sig_of=sig_of, **kw)
        for k, v in s.items():
            stats[k] = stats.get(k, 0) + v

    def go_all(cases, chunk):
        # small chunks bound the cost of restarting the harness after a sanitizer abort; once enough concrete
        # failing inputs are on record the verdict is settled and the remaining cases are skipped
        for i in range(0, len(cases), chunk):
            if len([v for v in chk.violations if not v[2]]) >= 6:
                chk.extra["stopped_early"] = True
                return
            go(cases[i:i + chunk])

    quick = chk.tier == "quick"
    go([["tail"]])
    go(corpus_cases())
    ex = exhaustive_cases(chk.tier, rng)
    chk.extra["exhaustive_cases"] = len(ex)
    go_all(ex[:200], 200)
    go_all(ex[200:], 4000)
    nrand = 2500 if quick else 60000
    rc = [random_case(rng, 30) for _ in range(nrand)]
    go_all(rc[:300], 300)
    go_all(rc[300:], 3000)
    nmut = 1500 if quick else 30000
    mc = [mutated_case(rng) for _ in range(nmut)]
    go_all(mc[:300], 300)
    go_all(mc[300:], 2000)
    npar = 4000 if quick else 80000
    pc = [parser_case(rng) for _ in range(npar)]
    go_all(pc[:300], 300)
    go_all(pc[300:], 4000)
    nlay = 2500 if quick else 50000
    lc = [layout_case(rng) for _ in range(nlay)]
    go_all(lc[:300], 300)
    go_all(lc[300:], 3000)
    ntwo = 1200 if quick else 25000
    tc = [two_ns_case(rng) for _ in range(ntwo)]
    go_all(tc[:300], 300)
    go_all(tc[300:], 3000)
    # how often the oracle commits itself: verdicts over a sample of each generator's cases
    verdicts = {}
    for name, sample in (("random", rc[:150]), ("mutated", mc[:150]), ("parser", pc[:300]), ("layout", lc[:200]), ("two_ns", tc[:150])):
        ops = [l for c in sample for l in c]
        _, _, spec, _ = corr.evaluate(AREA, exe, ops, CASE_START)
        cnt = {}
        for o, v in zip(ops, spec or []):
            k = o.split(" ", 1)[0] + ":" + v.split(" ", 1)[0]
            cnt[k] = cnt.get(k, 0) + 1
        verdicts[name] = dict(sorted(cnt.items()))
    chk.extra["oracle_verdicts_sample"] = verdicts
    for p in problems:
        # a theorem / generated table no longer checks: the run above was the search for a concrete failing input
        if not (stats.get("spec", 0) + stats.get("fault", 0)):
            chk.violation("proof obligation no longer checks: " + p[:1500], ["theorem-or-audit-failure", p[:4000]], nofail=True)
    chk.cov["rule"] = ("cases = start state (default header | parsed canonical header over a subset of the 22 known "
                       "fields | parsed header with a chain of 1..4 present words, inert or live foreign bytes, radiotap / "
                       "vendor / unknown namespace bits, unknown field bits | parsed malformed header: truncated, "
                       "misaligned, wrong length, noise) followed by setter / add_option / serialize+reparse ops; after "
                       "every op the full observable state (payload, present, sizes, all 19 getter results) is compared; "
                       "raw RadioTapParser cases = walk / skip_to_field over built, truncated, bit-flipped, never-ending "
                       "and random option buffers, every reported field, current_option, namespace index/type and "
                       "has_field of all 32 flags compared; distinct_nontrivial counts distinct (operation, "
                       "implementation result) pairs; oracle_verdicts_sample = spec verdicts per generator")
    chk.assumptions += [
        "get_bit(1 << bit) = bit (floating-point log2 on exact powers of two)",
        "uint32_t offset arithmetic of update_paddings is modelled in the integers (buffers < 4 GiB)",
        "little-endian host",
        "well-aligned headers have zero padding bytes (decodeLayout); the oracle treats parsed headers that are not "
        "well aligned, writes of a wrong size and frames flagged FCS|FAILED_FCS (which libtins refuses to parse) as "
        "unspecified beyond the universal clauses (no fault, length_covers, reparse of the reported payload)",
        "a later present word is a radiotap-namespace word (whose fields may be re-aligned) only when it is the second "
        "of two words and the first has bit 29; bytes behind the first word's fields are foreign otherwise",
        "inner 802.11 frames are opaque bytes taken from a pool libtins round-trips byte for byte",
        "current_option() is only called while a field is current (RADIOTAP_METADATA[MAX] is outside the table)",
    ]
    chk.trusted += ["correspondence harness harness/c11_radiotap.cpp + generators in checks/C11.py",
                    "translator/gen_radiotap.py (RADIOTAP_METADATA, PresentFlags, setter/getter field+width tables)",
                    "g++ 12 / ASan+UBSan build of the repo's working tree"]
    chk.extra["modelled_not_proved"] = [
        "parsed headers that are not well aligned (non-zero padding bytes, fields that do not fit, misaligned data): "
        "the safety theorems (no fault, termination) and the any-payload serialization theorem cover them; what the "
        "getters return after setters on them is compared with the implementation only",
        "live frames (last present word with table bits) whose foreign bytes are not the well-aligned fields of the last "
        "word, or whose first present word has no table field (libtins' parser then never enters the last word): the "
        "bytes behind the first word's fields after an insertion are only shown to exist (re-padded by update_paddings), "
        "their content is compared with the implementation",
        "current_namespace() / namespace index: modelled (Checked.lean), compared and checked by the oracle against the "
        "standard; no theorem beyond safety",
        "serialize(): the FCS value is compared with an independent CRC-32 in the harness (C05 owns the CRC proof); "
        "the inner 802.11 frame is an opaque length"]
    corr.finalize_cov(chk)


def replay(path):
    gen_radiotap.main([])
    ok, text = core.lake_build(["tinsdriver"])
    exe, err = core.build_harness("c11_radiotap")
    if exe is None:
        print("implementation does not build:", err[-1500:])
        return 1
    ops = [l.rstrip("\n") for l in open(path) if not l.startswith("#") and l.strip()]
    impl, mod, spec, faults = corr.evaluate(AREA, exe, ops, CASE_START)
    bad = corr.first_problem(ops, impl, mod, spec)
    for o, a, b, c in zip(ops, impl, mod, spec):
        print(o[:200]); print("  impl :", a[:600]); print("  model:", b[:600]); print("  spec :", c)
    if bad:
        print(f"VIOLATION property=C11 replay={path}")
        return 1
    return 0
