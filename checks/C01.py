"""C01 — see DESIGN.md §6 C01. Shares harness/wire_main.cpp and the Lean wire model with C01–C04."""
from checks import wire_checks

LEVEL = "proof"
MANIFEST = dict(
    text="Parsing untrusted bytes: fault-explicit Lean models of InputMemoryStream and of the modelled parsing constructors with no-fault / only-malformed_packet theorems for all byte strings; every entry point (modelled or not) is additionally driven under ASan/UBSan/LSan on seed, mutated, every-length and random buffers with an accessor sweep.",
    note="Proof covers the Lean models of the classes listed in the evidence (modelled_classes) and the generic backbone; "
         "the tie is differential correspondence under sanitizers; unmodelled classes get the implementation-side oracle only. "
         "Trusted: Lean kernel + standard axioms, hand-written models, harness, generators, translator/gen_tags.py.",
    technique="Lean 4 proof over executable byte-level models + model/impl correspondence + spec oracle on impl output",
    design="DESIGN.md §6 C01")


def run(chk):
    wire_checks.run_property(chk, "C01", want_parse=True, want_build=False)


def replay(path):
    return wire_checks.replay("C01", path)
