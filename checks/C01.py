"""C01 — see DESIGN.md §6 C01. Shares harness/wire_main.cpp and the Lean wire model with C01–C04; additionally ties the
InputMemoryStream / OutputMemoryStream models to the real classes (harness/c01_cursor.cpp)."""
import os, random, re, struct
from vlib import core, corr
from checks import wire_checks
from checks import wire_common as wc

LEVEL = "proof"
MANIFEST = dict(
    text="Lean 4: fault-explicit models of InputMemoryStream and of every modelled parsing constructor; per-class theorems (never an out-of-buffer "
         "access, only malformed_packet, strictly shorter inner buffer) for all byte strings, assembled in Wire/RegistryFacts.lean into the "
         "unconditional whole-packet theorem parse_any_safe (any entry point, any byte string, any nesting depth, any mix of families) and "
         "parsed_layers_good (every accepted layer satisfies its class invariant); accessor-safety theorems for the typed option decoders. "
         "Every entry point (modelled or not) is driven under ASan/UBSan/LSan on structured, mutated, every-length and random buffers with an accessor sweep. "
         "The list of entry points is regenerated from the clang AST of the headers on every run (every public constructor / static / member / "
         "free function taking const uint8_t* + size, 128 today); theorem entry_points_covered (by decide) demands a disposition (Lean model + "
         "theorem | harness | not a parser) for each, and harness/c01_entry.cpp calls every one that is not `not a parser`.",
    note="The theorems are about hand-written, code-shaped Lean models of 53 entry classes in seven families (link layers, IPv4 + options / AH / ESP, "
         "IPv6 + extension headers, TCP + options / UDP, ICMP / ICMPv6 + extensions, DHCP / DHCPv6 / BootP / RTP / VXLAN / ARP / STP, 802.11 / "
         "RadioTap / EAPOL; list in the evidence: modelled_classes); the tie to the C++ is differential correspondence of every line under "
         "ASan/UBSan/LSan plus the Lean spec oracle evaluated on the implementation's own output; DNS as an entry class and the paths "
         "the model cannot express (host routing table in IP::prepare_for_serialize, EAPOL null result) get the implementation-side oracle "
         "only (evidence: unmodelled_lines). Trusted: Lean kernel + propext/Classical.choice/Quot.sound, the models, harness, generators, "
         "translator/gen_tags.py, translator/gen_entrypoints.py and the hand-maintained disposition table Wire/Coverage.lean; allocator / lifetime "
         "behaviour is observed by the sanitizers, not proved.",
    technique="Lean 4 proof over executable byte-level models + model/impl correspondence + spec oracle on impl output",
    design="DESIGN.md §6 C01, §11.2")
MANIFEST["note"] += (" Constants and limits of the C++ source that the model restates (translator/gen_limits.py -> Gen/Limits.lean: "
                     "compiled probe + preprocessed function bodies at named anchors) are tied to the model's numerals by the "
                     "theorems of lean/TinsModel/Props/Limits/Wire.lean (audit: Audit/LimitsWire.lean); tools/LIMITS-INVENTORY.md lists "
                     "what is tied and what is not.")


def gen_stream_ops(rng, ncases):
    ops = []
    for _ in range(ncases):
        n = rng.choice([0, 1, 2, 3, 4, 8, 16, rng.randint(0, 40)])
        ops.append("cinit " + (bytes(rng.randrange(256) for _ in range(n)).hex() or "-"))
        for _ in range(rng.randint(1, 8)):
            k = rng.random()
            m = rng.choice([0, 1, 2, 4, n, n + 1, rng.randint(0, n + 3)])
            if k < 0.4:
                ops.append(f"cread {m}")
            elif k < 0.6:
                ops.append(f"cskip {m}")
            elif k < 0.75:
                ops.append(f"cshrink {m}")
            elif k < 0.9:
                ops.append(f"cpeek {rng.randint(0, n + 1)} {rng.randint(0, 4)}")
            else:
                ops.append("cbool")
        n = rng.choice([0, 1, 4, 8, rng.randint(0, 24)])
        ops.append(f"oinit {n}")
        for _ in range(rng.randint(1, 6)):
            k = rng.random()
            m = rng.choice([0, 1, 2, n, n + 1, rng.randint(0, n + 2)])
            if k < 0.5:
                ops.append("owrite " + (bytes(rng.randrange(256) for _ in range(m)).hex() or "-"))
            elif k < 0.7:
                ops.append(f"oskip {m}")
            elif k < 0.9:
                ops.append(f"ofill {m} {rng.randrange(256)}")
            else:
                ops.append("obuf")
        ops.append("obuf")
    return ops


# ------------------------------------------------------------------------------------------ entry-point coverage

ENTRY_AUDIT = "Audit/C01Entry.lean"
ETHER_TAGS = [0x0800, 0x86dd, 0x0806, 0x8100, 0x88a8, 0x9100, 0x8863, 0x8864, 0x888e, 0x8847, 0x7777, 0x0000, 0xffff]
IP_TAGS = [6, 17, 1, 58, 50, 51, 4, 41, 47, 253, 0, 255]
DLT_TAGS = [0, 1, 12, 101, 105, 108, 113, 119, 127, 192, 228, 229, 258, 9999]    # pcap DLT_* values libtins knows + unknown ones
PDU_TYPES = list(range(0, 64)) + [1000]


def opkey(key):
    return key.replace(" ", "")


def wire_name(labels):
    return b"".join(bytes([len(l)]) + l for l in labels) + b"\0"


def entry_seeds(rng):
    """structured, mostly valid inputs of the entry points that are not whole-packet parsers, written from the RFCs /
    IEEE layouts (not from libtins); key prefix -> list of byte strings"""
    u32 = lambda *v: b"".join(struct.pack(">I", x) for x in v)
    soa = wire_name([b"ns", b"example", b"com"]) + wire_name([b"admin", b"example", b"com"]) + u32(2024010101, 7200, 900, 1209600, 86400)
    rsn = struct.pack("<H", 1) + bytes.fromhex("000fac04") + struct.pack("<H", 2) + bytes.fromhex("000fac04000fac02") + \
        struct.pack("<H", 1) + bytes.fromhex("000fac02") + struct.pack("<H", 0x000c)
    ext_obj = struct.pack(">HBB", 8, 1, 1) + bytes.fromhex("00012345")
    ext_body = ext_obj + struct.pack(">HBB", 4, 2, 7)

    def ext_struct(body, version=2):
        hdr = bytes([version << 4, 0, 0, 0]) + body
        if len(hdr) % 2:
            hdr += b"\0"
        tot = sum(struct.unpack(">%dH" % (len(hdr) // 2), hdr))
        while tot >> 16:
            tot = (tot & 0xffff) + (tot >> 16)
        ck = (~tot) & 0xffff
        return bytes([version << 4, 0]) + struct.pack(">H", ck) + body
    mar = bytes([1, 0]) + struct.pack(">H", 2) + bytes(range(16)) + bytes(range(16, 48))
    mar_aux = bytes([4, 1]) + struct.pack(">H", 1) + bytes(16) + bytes(range(16)) + b"\xaa\xbb\xcc\xdd"
    return {
        "DNS::soa_record::soa_record": [soa, soa[:-1], soa[:-20], b"\0\0" + u32(1, 2, 3, 4, 5), soa.replace(b"\0", b"\1"),
                                        b"\xc0\x0c" + soa, wire_name([b"a" * 63] * 4) + b"\0" + u32(1, 2, 3, 4, 5)],
        "DHCPv6::duid_llt::from_bytes": [struct.pack(">HI", 1, 0x12345678) + bytes(range(6)), struct.pack(">HI", 1, 7)],
        "DHCPv6::duid_en::from_bytes": [struct.pack(">I", 9) + b"identifier", struct.pack(">I", 9)],
        "DHCPv6::duid_ll::from_bytes": [struct.pack(">H", 1) + bytes(range(6)), struct.pack(">H", 1)],
        "Dot11ManagementFrame::vendor_specific_type::from_bytes": [bytes.fromhex("0050f2") + b"\x01\x01\x00", bytes.fromhex("0050f2")],
        "RSNInformation::RSNInformation": [rsn, rsn[:-2], rsn[:8], struct.pack("<H", 1) + bytes.fromhex("000fac04") + struct.pack("<H", 0xffff),
                                           rsn[:14] + struct.pack("<H", 0x7fff) + rsn[16:]],
        "ICMPExtension::ICMPExtension": [ext_obj, struct.pack(">HBB", 4, 0, 0), struct.pack(">HBB", 3, 1, 1), struct.pack(">HBB", 0xffff, 1, 1) + bytes(8)],
        "ICMPExtensionsStructure::ICMPExtensionsStructure": [ext_struct(ext_body), ext_struct(b""), ext_struct(ext_body, 1), ext_struct(ext_body)[:-1],
                                                             ext_struct(struct.pack(">HBB", 2, 1, 1))],
        "ICMPExtensionsStructure::validate_extensions": [ext_struct(ext_body), ext_struct(b""), ext_struct(ext_body, 1), ext_struct(ext_body)[:-1],
                                                         ext_struct(ext_body + b"\x01")],
        "ICMPv6::multicast_address_record::multicast_address_record": [mar, mar_aux, mar[:20], bytes([1, 255]) + struct.pack(">H", 0xffff) + bytes(16)],
        "Internals::is_dot3": [bytes(12) + b"\x07", bytes(12) + b"\x08", bytes(12)],
    }


def gen_entry_ops(rng, rows, quick):
    """ops for harness/c01_entry.cpp: for every driven row every length 0..N of zeros / ones / random bytes, structured
    seeds and mutants; the dispatchers additionally for every tag they know"""
    sd = wc.seeds()
    special = entry_seeds(rng)
    upto = 40 if quick else 96
    nrand = 6 if quick else 60
    ops = []

    def fills(ln):
        return [bytes(ln), b"\xff" * ln, bytes(rng.randrange(256) for _ in range(ln))] if ln else [b""]

    def pool_of(r):
        cls = r["owner"]
        if r["name"] == "from_bytes" and cls in ("Dot11", "EAPOL"):
            cls += "*"
        pool = [bytes.fromhex(h) for h in (sd.get(cls) or [])]
        if cls == "EAPOL":
            pool += [bytes.fromhex(h) for h in (sd.get("RC4EAPOL") or []) + (sd.get("RSNEAPOL") or [])]
        for pre, v in special.items():
            if r["key"].startswith(pre + "("):
                pool += v
        return pool

    def data_ops(k, pool, args=""):
        out = []
        for ln in range(upto + 1):
            for b in fills(ln):
                out.append(f"entry {k} {wc.hexs(b)}{args}")
        picks = pool if len(pool) <= nrand else rng.sample(pool, nrand)
        for j, b in enumerate(picks):
            out.append(f"entry {k} {wc.hexs(b)}{args}")
            for _ in range(2 if quick else 8):
                m = b
                for _ in range(rng.choice([1, 1, 2, 3])):
                    m = wc.mutate(rng, m)
                out.append(f"entry {k} {wc.hexs(m)}{args}")
            if len(b) <= 128 and j < (2 if quick else 6):   # every prefix of a structured input: truncation at every byte
                out += [f"entry {k} {wc.hexs(b[:i])}{args}" for i in range(len(b))]
        for _ in range(nrand):
            ln = rng.choice([41, 48, 64, 100, 255, 256, 1500, rng.randint(0, 300)])
            out.append(f"entry {k} {wc.hexs(bytes(rng.randrange(256) for _ in range(ln)))}{args}")
        return out

    def cls_pool(names):
        return [bytes.fromhex(h) for n in names for h in (sd.get(n) or [])[:6]]

    for r in rows:
        k = opkey(r["key"])
        nm = r["owner"] + "::" + r["name"]
        if nm == "Internals::pdu_from_flag" and "Ethernet" in r["params"]:
            pool = cls_pool(["IP", "IPv6", "ARP", "Dot1Q", "PPPoE", "EAPOL*", "MPLS", "DNS"])
            for t in ETHER_TAGS:
                for raw in (1, 0):
                    ops += data_ops(k, pool, f" {t} {raw}")[::1 if not quick else 3]
        elif nm == "Internals::pdu_from_flag" and "IP::e" in r["params"]:
            pool = cls_pool(["TCP", "UDP", "ICMP", "ICMPv6", "IPSecESP", "IPSecAH", "IP", "IPv6", "DNS"])
            for t in IP_TAGS:
                for raw in (1, 0):
                    ops += data_ops(k, pool, f" {t} {raw}")[::1 if not quick else 3]
        elif nm == "Internals::pdu_from_dlt_flag":
            pool = cls_pool(["EthernetII", "Dot11*", "RadioTap", "Loopback", "SLL", "PPI", "IP", "IPv6", "Dot3"])
            for t in DLT_TAGS:
                for raw in (1, 0):
                    ops += data_ops(k, pool, f" {t} {raw}")[::1 if not quick else 3]
        elif nm == "Internals::pdu_from_flag":
            pool = cls_pool(["EthernetII", "IP", "TCP", "Dot11*", "RadioTap", "DNS", "DHCP", "ICMPv6", "RSNEAPOL"])
            for t in PDU_TYPES:
                ops += data_ops(k, pool, f" {t}")[::1 if not quick else 9]
        elif nm in ("Internals::allocate", "Internals::PDUAllocator::allocate"):
            for t in (0x7777, 253, 0x7778, 254):
                ops += data_ops(k, cls_pool(["DNS"]), f" {t}")
        elif nm == "Internals::default_allocator":
            ops += data_ops(k, cls_pool(["DNS"]), " 0") + data_ops(k, cls_pool(["IP"]), " 1")
        elif nm == "Internals::Converters::convert":
            ops += data_ops(k, [], " 0") + data_ops(k, [], " 1")
        else:
            ops += data_ops(k, pool_of(r))
    return ops


def coverage_table():
    """(rows, stale, error): the disposition of every entry point as Lean evaluates it (Audit/C01Entry.lean)"""
    r = core.lake(["env", "lean", ENTRY_AUDIT])
    if r.returncode != 0:
        return None, None, (r.stdout + r.stderr)[-3000:]
    rows, stale = {}, []
    for l in r.stdout.split("\n"):
        f = l.split("\t")
        if f[0] == "ENTRY" and len(f) >= 6:
            rows[f[1]] = dict(tag=f[2], how=f[3], key=f[4], text=f[5])
        elif f[0] == "STALE" and len(f) >= 2:
            stale.append(f[1])
    return rows, stale, None


def run_entry_points(chk, gen):
    """the coverage claimed by lean/TinsModel/Wire/Coverage.lean, executed: every entry point whose disposition is not
    `notAParser` must be one harness/c01_entry.cpp calls, and is called on every-length / structured / mutated buffers
    under the sanitizers with the C01 oracle on the outcome"""
    rows = gen["rows"]
    table, stale, err = coverage_table()
    pat = r"ENTRY POINTS WITHOUT A DISPOSITION[^\n]*"
    m = re.search(pat, "\n".join(getattr(chk, "proof_problems", [])) + "\n" + (err or ""))
    if table is None and m is None:
        # Coverage.lean did not build: elaborate its source (needs only the generated table) to have Lean name the rows
        core.lake(["build", "TinsModel.Gen.EntryPoints"])
        r = core.lake(["env", "lean", "TinsModel/Wire/Coverage.lean"])
        m = re.search(pat, r.stdout + r.stderr)
    exe, herr = core.build_harness("c01_entry")
    if exe is None:
        chk.violation("entry-point harness does not build (a construct-from-buffer form declared in a header without a definition "
                      "the library exports?): " + (herr or "")[-1500:], ["build-error", (herr or "")[-4000:]], nofail=True)
        return
    out, _ = core.run_harness_lines(exe, [], ["list"], ("list",))
    driven = set(out[0].split(" ")[1:]) if out and out[0].startswith("keys") else set()
    known = {opkey(r["key"]): r for r in rows}
    problems = []
    if gen.get("unparsed"):
        problems.append("the AST scan could not classify: " + "; ".join(gen["unparsed"]))
    if table is not None:
        for k, r in known.items():
            t = table.get(k)
            if t is None or t["tag"] == "NONE":
                problems.append(f"no disposition for entry point {r['key']} ({r['header']})")
            elif t["tag"] != "notAParser" and k not in driven:
                problems.append(f"entry point {r['key']} has disposition {t['tag']} but harness/c01_entry.cpp does not call it")
    elif m is None:
        problems.append("the coverage table could not be evaluated: " + (err or "")[-800:])
    # the deep harness (wire_main.cpp `parse <Class>`: dump, serialize, re-parse, clone, accessor sweep) must know every PDU
    # class that can be built from a buffer -- ENTRY_CLASSES is written by hand, the generated table is not
    want = {r["owner"] for r in rows if r["isPdu"] and r["kind"] == "ctor" and r["auto"]} | \
           {r["owner"] + "*" for r in rows if r["isPdu"] and r["kind"] == "static" and r["name"] == "from_bytes"}
    for c in sorted(want - set(wc.ENTRY_CLASSES)):
        problems.append(f"PDU class {c} has a public parsing constructor / from_bytes but checks/wire_common.py ENTRY_CLASSES "
                        "(harness/wire_main.cpp parse_class) does not drive it")
    for c in sorted(set(wc.ENTRY_CLASSES) - want):
        problems.append(f"checks/wire_common.py ENTRY_CLASSES names {c}, which the current headers cannot build from a buffer")
    for k in sorted(driven - set(known)):
        problems.append(f"harness/c01_entry.cpp has glue for {k}, which is no entry point of the current headers (stale glue)")
    new = []
    if m:
        names = m.group(0).split(": ", 1)[1].split(" ; ")
        new = [n for n in names if opkey(n) in known]
        problems.insert(0, "construct-from-buffer form(s) of libtins without a disposition in lean/TinsModel/Wire/Coverage.lean "
                           "(theorem entryPoints_covered fails): " + " ; ".join(names))
    # drive everything the harness can call -- also a new entry point the table does not know yet (the search)
    todo = [r for r in rows if opkey(r["key"]) in driven]
    rng = random.Random(chk.seed + 101)
    ops = gen_entry_ops(rng, todo, chk.tier == "quick")
    chk.extra.setdefault("_seen", set())
    before = len(chk.violations)
    st = corr.correspond(chk, "C01", exe, ops, case_start=("entry",), model=False,
                         classify=lambda op, impl: "entry:" + impl.split(" ")[0] + (":" + impl.split(" ")[1] if impl.startswith("throw ") else ""),
                         sig_of=lambda k, d, c: {"kind": k, "class": "entry", "entry": c[-1].split(" ")[1] if c else ""})
    found = any(not nofail for _, _, nofail in chk.violations[before:])
    for ptxt in problems:
        chk.violation("entry-point coverage: " + ptxt, ["entry-point-coverage", ptxt] + [f"# undriven/new: {n}" for n in new],
                      nofail=not found)
    ep = chk.extra.setdefault("entry_points", {})
    ep["total"] = len(rows)
    ep["by_kind"] = {k: sum(1 for r in rows if r["kind"] == k) for k in ("ctor", "static", "free", "method")}
    if table:
        ep["by_disposition"] = {t: sum(1 for v in table.values() if v["tag"] == t) for t in ("modelled", "harnessOnly", "notAParser", "NONE")}
    ep["driven_by_c01_entry"] = len(todo)
    ep["generated_calls"] = sum(1 for r in todo if r["auto"])
    ep["stale_table_rows"] = stale or []
    ep["sweep_ops"] = len(ops)
    chk.trusted += ["translator/gen_entrypoints.py (clang-14 AST of every header -> Gen/EntryPoints.lean, harness/c01_entry_gen.h), "
                    "harness/c01_entry.cpp, the hand-maintained disposition table lean/TinsModel/Wire/Coverage.lean"]
    chk.assumptions += ["entry points = public constructors / static members / member functions / free functions of namespace Tins "
                        "declared in a header below include/tins with a `const uint8_t*` parameter directly followed by an integer "
                        "size; (begin, end) pointer pairs, single pointers without a size and the pcap callbacks (property C17) are "
                        "not construct-from-buffer forms in this sense"]


def run(chk):
    import translator.gen_entrypoints as gen_entrypoints
    gen = gen_entrypoints.main(["--quiet"])          # regenerate Gen/EntryPoints.lean + harness/c01_entry_gen.h before proving
    wire_checks.run_property(chk, "C01", want_parse=True, want_build=False)
    chk.extra.setdefault("_seen", set())
    run_entry_points(chk, gen)
    exe, err = core.build_harness("c01_cursor")
    if exe is None:
        chk.violation("harness does not build: " + (err or "")[-1500:], ["build-error"], nofail=True)
        return
    rng = random.Random(chk.seed + 17)
    ops = gen_stream_ops(rng, 600 if chk.tier == "quick" else 20000)
    chk.extra.setdefault("_seen", set())
    corr.correspond(chk, "C01", exe, ops, case_start=("cinit", "oinit"),
                    sig_of=lambda k, d, c: {"kind": k, "class": "stream"})
    corr.finalize_cov(chk)


def replay(path):
    ops = [l.rstrip("\n") for l in open(path) if not l.startswith("#") and l.strip()]
    if ops and ops[0].split(" ")[0] == "entry-point-coverage":
        import translator.gen_entrypoints as gen_entrypoints
        gen_entrypoints.main(["--quiet"])
        ok, text = core.lake_build(["TinsModel.Props.C01"])
        print("\n".join(ops[1:]))
        print("lake build TinsModel.Props.C01:", "ok" if ok else "FAILS")
        if not ok:
            print(text[-1500:])
            print(f"VIOLATION property=C01 replay={path}")
            return 1
        return 0
    if ops and ops[0].split(" ")[0] == "entry":
        exe, err = core.build_harness("c01_entry")
        impl, mod, spec, faults = corr.evaluate("C01", exe, ops, ("entry",), model=False)
        bad = corr.first_problem(ops, impl, None, spec)
        for o, a, c in zip(ops, impl, spec):
            print(o[:300]); print("  impl :", a[:600]); print("  spec :", c)
        if bad:
            print(f"VIOLATION property=C01 replay={path}")
            return 1
        return 0
    if ops and ops[0].split(" ")[0] in ("cinit", "oinit"):
        exe, err = core.build_harness("c01_cursor")
        impl, mod, spec, faults = corr.evaluate("C01", exe, ops, ("cinit", "oinit"))
        bad = corr.first_problem(ops, impl, mod, spec)
        for o, a, b, c in zip(ops, impl, mod, spec):
            print(o[:300]); print("  impl :", a[:600]); print("  model:", b[:600]); print("  spec :", c)
        if bad:
            print(f"VIOLATION property=C01 replay={path}")
            return 1
        return 0
    return wire_checks.replay("C01", path)
