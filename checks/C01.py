"""C01 — see DESIGN.md §6 C01. Shares harness/wire_main.cpp and the Lean wire model with C01–C04; additionally ties the
InputMemoryStream / OutputMemoryStream models to the real classes (harness/c01_cursor.cpp)."""
import glob, os, random, re, struct, time
from vlib import core, corr
from checks import wire_checks
from checks import wire_common as wc

LEVEL = "proof"
MANIFEST = dict(
    text="Lean 4: fault-explicit models of InputMemoryStream and of every modelled parsing constructor; per-class theorems (never an out-of-buffer "
         "access, only malformed_packet, strictly shorter inner buffer) for all byte strings, assembled in Wire/RegistryFacts.lean into the "
         "unconditional whole-packet theorem parse_any_safe (any entry point, any byte string, any nesting depth, any mix of families) and "
         "parsed_layers_good (every accepted layer satisfies its class invariant); accessor-safety theorems for the typed option decoders. "
         "Every entry point (modelled or not) is driven under ASan/UBSan/LSan on structured, mutated, every-length and random buffers with an accessor sweep. "
         "The list of entry points is regenerated from the clang AST of the headers on every run (every public constructor / static / member / "
         "free function taking const uint8_t* + size, 128 today); theorem entry_points_covered (by decide) demands a disposition (Lean model + "
         "theorem | harness | not a parser) for each, and harness/c01_entry.cpp calls every one that is not `not a parser`. "
         "Raw-site tie: translator/gen_rawsites.py regenerates, from the clang AST of every src/**/*.cpp and of every header, the list of raw memory "
         "access sites (pointer dereference / subscript / member access through a cast pointer / memcpy, memcmp, memset, std::copy and other foreign "
         "calls with raw pointer operands / pointer casts / pointer arithmetic / hand-over of a raw pointer to another function) and of the conditions "
         "(guards) of every function reachable by name from the entry points and option decoders, keyed by function + kind + normalised expression "
         "text; theorems raw_sites_covered and raw_guards_present (decide +kernel) demand, for every site, a disposition in Wire/RawCoverage.lean "
         "(the Lean model function that mirrors it with a fault-explicit read and its safety theorem | why it cannot leave the buffer) and that every "
         "bounds check a disposition cites is still in the source: a raw access added to a parser, or a guard removed from one — neither of which "
         "changes any Lean model — is reported with the function and the expression, after a search directed at the entry points that reach it. "
         "Wire/Raw/*.lean mirrors the typed option decoders that walk a raw pointer (ICMPv6, 802.11 management, IP route options, DHCPv6 class data, "
         "extract_metadata, sum_range, crc32, hw_address_to_string) statement for statement and proves raw decoder = total decoder for all byte strings "
         "(raw_decoders_safe_*).",
    note="The theorems are about hand-written, code-shaped Lean models of 53 entry classes in seven families (link layers, IPv4 + options / AH / ESP, "
         "IPv6 + extension headers, TCP + options / UDP, ICMP / ICMPv6 + extensions, DHCP / DHCPv6 / BootP / RTP / VXLAN / ARP / STP, 802.11 / "
         "RadioTap / EAPOL; list in the evidence: modelled_classes); the tie to the C++ is differential correspondence of every line under "
         "ASan/UBSan/LSan plus the Lean spec oracle evaluated on the implementation's own output; DNS as an entry class and the paths "
         "the model cannot express (host routing table in IP::prepare_for_serialize, EAPOL null result) get the implementation-side oracle "
         "only (evidence: unmodelled_lines). The raw-site tie is syntactic: a site is function + kind + expression text + number of occurrences, the "
         "parse path is an over-approximation by name, and the `argued` rows of the disposition table (evidence: raw_sites_argued; mostly the "
         "hand-over of an unmodified (pointer, size) pair, of the rest of a stream, of an option's own data) are arguments, not theorems; std::vector / "
         "std::string element access and C strings are outside it. Trusted: Lean kernel + propext/Classical.choice/Quot.sound, the models, harness, generators, "
         "translator/gen_tags.py, translator/gen_entrypoints.py, translator/gen_rawsites.py and the hand-maintained disposition tables Wire/Coverage.lean, "
         "Wire/RawCoverage.lean; allocator / lifetime behaviour is observed by the sanitizers, not proved.",
    technique="Lean 4 proof over executable byte-level models + model/impl correspondence + spec oracle on impl output + AST-regenerated coverage tables (entry points, raw sites, guards) decided in the kernel",
    design="DESIGN.md §6 C01, §11.2, §11.6, §11.7; lean/TinsModel/Wire/RawCoverage.lean (raw-site tie)")
MANIFEST["note"] += (" Constants and limits of the C++ source that the model restates (translator/gen_limits.py -> Gen/Limits.lean: "
                     "compiled probe + preprocessed function bodies at named anchors) are tied to the model's numerals by the "
                     "theorems of lean/TinsModel/Props/Limits/Wire.lean (audit: Audit/LimitsWire.lean); tools/LIMITS-INVENTORY.md lists "
                     "what is tied and what is not.")


def gen_stream_ops(rng, ncases):
    ops = []
    for _ in range(ncases):
        n = rng.choice([0, 1, 2, 3, 4, 8, 16, rng.randint(0, 40)])
        ops.append("cinit " + (bytes(rng.randrange(256) for _ in range(n)).hex() or "-"))
        for _ in range(rng.randint(1, 8)):
            k = rng.random()
            m = rng.choice([0, 1, 2, 4, n, n + 1, rng.randint(0, n + 3)])
            if k < 0.4:
                ops.append(f"cread {m}")
            elif k < 0.6:
                ops.append(f"cskip {m}")
            elif k < 0.75:
                ops.append(f"cshrink {m}")
            elif k < 0.9:
                ops.append(f"cpeek {rng.randint(0, n + 1)} {rng.randint(0, 4)}")
            else:
                ops.append("cbool")
        n = rng.choice([0, 1, 4, 8, rng.randint(0, 24)])
        ops.append(f"oinit {n}")
        for _ in range(rng.randint(1, 6)):
            k = rng.random()
            m = rng.choice([0, 1, 2, n, n + 1, rng.randint(0, n + 2)])
            if k < 0.5:
                ops.append("owrite " + (bytes(rng.randrange(256) for _ in range(m)).hex() or "-"))
            elif k < 0.7:
                ops.append(f"oskip {m}")
            elif k < 0.9:
                ops.append(f"ofill {m} {rng.randrange(256)}")
            else:
                ops.append("obuf")
        ops.append("obuf")
    return ops


# ------------------------------------------------------------------------------------------ entry-point coverage

ENTRY_AUDIT = "Audit/C01Entry.lean"
ETHER_TAGS = [0x0800, 0x86dd, 0x0806, 0x8100, 0x88a8, 0x9100, 0x8863, 0x8864, 0x888e, 0x8847, 0x7777, 0x0000, 0xffff]
IP_TAGS = [6, 17, 1, 58, 50, 51, 4, 41, 47, 253, 0, 255]
DLT_TAGS = [0, 1, 12, 101, 105, 108, 113, 119, 127, 192, 228, 229, 258, 9999]    # pcap DLT_* values libtins knows + unknown ones
PDU_TYPES = list(range(0, 64)) + [1000]


def opkey(key):
    return key.replace(" ", "")


def wire_name(labels):
    return b"".join(bytes([len(l)]) + l for l in labels) + b"\0"


def entry_seeds(rng):
    """structured, mostly valid inputs of the entry points that are not whole-packet parsers, written from the RFCs /
    IEEE layouts (not from libtins); key prefix -> list of byte strings"""
    u32 = lambda *v: b"".join(struct.pack(">I", x) for x in v)
    soa = wire_name([b"ns", b"example", b"com"]) + wire_name([b"admin", b"example", b"com"]) + u32(2024010101, 7200, 900, 1209600, 86400)
    rsn = struct.pack("<H", 1) + bytes.fromhex("000fac04") + struct.pack("<H", 2) + bytes.fromhex("000fac04000fac02") + \
        struct.pack("<H", 1) + bytes.fromhex("000fac02") + struct.pack("<H", 0x000c)
    ext_obj = struct.pack(">HBB", 8, 1, 1) + bytes.fromhex("00012345")
    ext_body = ext_obj + struct.pack(">HBB", 4, 2, 7)

    def ext_struct(body, version=2):
        hdr = bytes([version << 4, 0, 0, 0]) + body
        if len(hdr) % 2:
            hdr += b"\0"
        tot = sum(struct.unpack(">%dH" % (len(hdr) // 2), hdr))
        while tot >> 16:
            tot = (tot & 0xffff) + (tot >> 16)
        ck = (~tot) & 0xffff
        return bytes([version << 4, 0]) + struct.pack(">H", ck) + body
    mar = bytes([1, 0]) + struct.pack(">H", 2) + bytes(range(16)) + bytes(range(16, 48))
    mar_aux = bytes([4, 1]) + struct.pack(">H", 1) + bytes(16) + bytes(range(16)) + b"\xaa\xbb\xcc\xdd"
    return {
        "DNS::soa_record::soa_record": [soa, soa[:-1], soa[:-20], b"\0\0" + u32(1, 2, 3, 4, 5), soa.replace(b"\0", b"\1"),
                                        b"\xc0\x0c" + soa, wire_name([b"a" * 63] * 4) + b"\0" + u32(1, 2, 3, 4, 5)],
        "DHCPv6::duid_llt::from_bytes": [struct.pack(">HI", 1, 0x12345678) + bytes(range(6)), struct.pack(">HI", 1, 7)],
        "DHCPv6::duid_en::from_bytes": [struct.pack(">I", 9) + b"identifier", struct.pack(">I", 9)],
        "DHCPv6::duid_ll::from_bytes": [struct.pack(">H", 1) + bytes(range(6)), struct.pack(">H", 1)],
        "Dot11ManagementFrame::vendor_specific_type::from_bytes": [bytes.fromhex("0050f2") + b"\x01\x01\x00", bytes.fromhex("0050f2")],
        "RSNInformation::RSNInformation": [rsn, rsn[:-2], rsn[:8], struct.pack("<H", 1) + bytes.fromhex("000fac04") + struct.pack("<H", 0xffff),
                                           rsn[:14] + struct.pack("<H", 0x7fff) + rsn[16:]],
        "ICMPExtension::ICMPExtension": [ext_obj, struct.pack(">HBB", 4, 0, 0), struct.pack(">HBB", 3, 1, 1), struct.pack(">HBB", 0xffff, 1, 1) + bytes(8)],
        "ICMPExtensionsStructure::ICMPExtensionsStructure": [ext_struct(ext_body), ext_struct(b""), ext_struct(ext_body, 1), ext_struct(ext_body)[:-1],
                                                             ext_struct(struct.pack(">HBB", 2, 1, 1))],
        "ICMPExtensionsStructure::validate_extensions": [ext_struct(ext_body), ext_struct(b""), ext_struct(ext_body, 1), ext_struct(ext_body)[:-1],
                                                         ext_struct(ext_body + b"\x01")],
        "ICMPv6::multicast_address_record::multicast_address_record": [mar, mar_aux, mar[:20], bytes([1, 255]) + struct.pack(">H", 0xffff) + bytes(16)],
        "Internals::is_dot3": [bytes(12) + b"\x07", bytes(12) + b"\x08", bytes(12)],
    }


def gen_entry_ops(rng, rows, quick, upto=None, nrand=None):
    """ops for harness/c01_entry.cpp: for every driven row every length 0..N of zeros / ones / random bytes, structured
    seeds and mutants; the dispatchers additionally for every tag they know"""
    sd = wc.seeds()
    special = entry_seeds(rng)
    upto = upto or (40 if quick else 96)
    nrand = nrand or (6 if quick else 60)
    ops = []

    def fills(ln):
        return [bytes(ln), b"\xff" * ln, bytes(rng.randrange(256) for _ in range(ln))] if ln else [b""]

    def pool_of(r):
        cls = r["owner"]
        if r["name"] == "from_bytes" and cls in ("Dot11", "EAPOL"):
            cls += "*"
        pool = [bytes.fromhex(h) for h in (sd.get(cls) or [])]
        if cls == "EAPOL":
            pool += [bytes.fromhex(h) for h in (sd.get("RC4EAPOL") or []) + (sd.get("RSNEAPOL") or [])]
        for pre, v in special.items():
            if r["key"].startswith(pre + "("):
                pool += v
        return pool

    def data_ops(k, pool, args=""):
        out = []
        for ln in range(upto + 1):
            for b in fills(ln):
                out.append(f"entry {k} {wc.hexs(b)}{args}")
        picks = pool if len(pool) <= nrand else rng.sample(pool, nrand)
        for j, b in enumerate(picks):
            out.append(f"entry {k} {wc.hexs(b)}{args}")
            for _ in range(2 if quick else 8):
                m = b
                for _ in range(rng.choice([1, 1, 2, 3])):
                    m = wc.mutate(rng, m)
                out.append(f"entry {k} {wc.hexs(m)}{args}")
            if len(b) <= 128 and j < (2 if quick else 6):   # every prefix of a structured input: truncation at every byte
                out += [f"entry {k} {wc.hexs(b[:i])}{args}" for i in range(len(b))]
        for _ in range(nrand):
            ln = rng.choice([41, 48, 64, 100, 255, 256, 1500, rng.randint(0, 300)])
            out.append(f"entry {k} {wc.hexs(bytes(rng.randrange(256) for _ in range(ln)))}{args}")
        return out

    def cls_pool(names):
        return [bytes.fromhex(h) for n in names for h in (sd.get(n) or [])[:6]]

    for r in rows:
        k = opkey(r["key"])
        nm = r["owner"] + "::" + r["name"]
        if nm == "Internals::pdu_from_flag" and "Ethernet" in r["params"]:
            pool = cls_pool(["IP", "IPv6", "ARP", "Dot1Q", "PPPoE", "EAPOL*", "MPLS", "DNS"])
            for t in ETHER_TAGS:
                for raw in (1, 0):
                    ops += data_ops(k, pool, f" {t} {raw}")[::1 if not quick else 3]
        elif nm == "Internals::pdu_from_flag" and "IP::e" in r["params"]:
            pool = cls_pool(["TCP", "UDP", "ICMP", "ICMPv6", "IPSecESP", "IPSecAH", "IP", "IPv6", "DNS"])
            for t in IP_TAGS:
                for raw in (1, 0):
                    ops += data_ops(k, pool, f" {t} {raw}")[::1 if not quick else 3]
        elif nm == "Internals::pdu_from_dlt_flag":
            pool = cls_pool(["EthernetII", "Dot11*", "RadioTap", "Loopback", "SLL", "PPI", "IP", "IPv6", "Dot3"])
            for t in DLT_TAGS:
                for raw in (1, 0):
                    ops += data_ops(k, pool, f" {t} {raw}")[::1 if not quick else 3]
        elif nm == "Internals::pdu_from_flag":
            pool = cls_pool(["EthernetII", "IP", "TCP", "Dot11*", "RadioTap", "DNS", "DHCP", "ICMPv6", "RSNEAPOL"])
            for t in PDU_TYPES:
                ops += data_ops(k, pool, f" {t}")[::1 if not quick else 9]
        elif nm in ("Internals::allocate", "Internals::PDUAllocator::allocate"):
            for t in (0x7777, 253, 0x7778, 254):
                ops += data_ops(k, cls_pool(["DNS"]), f" {t}")
        elif nm == "Internals::default_allocator":
            ops += data_ops(k, cls_pool(["DNS"]), " 0") + data_ops(k, cls_pool(["IP"]), " 1")
        elif nm == "Internals::Converters::convert":
            ops += data_ops(k, [], " 0") + data_ops(k, [], " 1")
        else:
            ops += data_ops(k, pool_of(r))
    return ops


def coverage_table():
    """(rows, stale, error): the disposition of every entry point as Lean evaluates it (Audit/C01Entry.lean)"""
    r = core.lake(["env", "lean", ENTRY_AUDIT])
    if r.returncode != 0:
        return None, None, (r.stdout + r.stderr)[-3000:]
    rows, stale = {}, []
    for l in r.stdout.split("\n"):
        f = l.split("\t")
        if f[0] == "ENTRY" and len(f) >= 6:
            rows[f[1]] = dict(tag=f[2], how=f[3], key=f[4], text=f[5])
        elif f[0] == "STALE" and len(f) >= 2:
            stale.append(f[1])
    return rows, stale, None


def run_entry_points(chk, gen):
    """the coverage claimed by lean/TinsModel/Wire/Coverage.lean, executed: every entry point whose disposition is not
    `notAParser` must be one harness/c01_entry.cpp calls, and is called on every-length / structured / mutated buffers
    under the sanitizers with the C01 oracle on the outcome"""
    rows = gen["rows"]
    table, stale, err = coverage_table()
    pat = r"ENTRY POINTS WITHOUT A DISPOSITION[^\n]*"
    m = re.search(pat, "\n".join(getattr(chk, "proof_problems", [])) + "\n" + (err or ""))
    if table is None and m is None:
        # Coverage.lean did not build: elaborate its source (needs only the generated table) to have Lean name the rows
        core.lake(["build", "TinsModel.Gen.EntryPoints"])
        r = core.lake(["env", "lean", "TinsModel/Wire/Coverage.lean"])
        m = re.search(pat, r.stdout + r.stderr)
    exe, herr = core.build_harness("c01_entry")
    if exe is None:
        chk.violation("entry-point harness does not build (a construct-from-buffer form declared in a header without a definition "
                      "the library exports?): " + (herr or "")[-1500:], ["build-error", (herr or "")[-4000:]], nofail=True)
        return
    out, _ = core.run_harness_lines(exe, [], ["list"], ("list",))
    driven = set(out[0].split(" ")[1:]) if out and out[0].startswith("keys") else set()
    known = {opkey(r["key"]): r for r in rows}
    problems = []
    if gen.get("unparsed"):
        problems.append("the AST scan could not classify: " + "; ".join(gen["unparsed"]))
    if table is not None:
        for k, r in known.items():
            t = table.get(k)
            if t is None or t["tag"] == "NONE":
                problems.append(f"no disposition for entry point {r['key']} ({r['header']})")
            elif t["tag"] != "notAParser" and k not in driven:
                problems.append(f"entry point {r['key']} has disposition {t['tag']} but harness/c01_entry.cpp does not call it")
    elif m is None:
        problems.append("the coverage table could not be evaluated: " + (err or "")[-800:])
    # the deep harness (wire_main.cpp `parse <Class>`: dump, serialize, re-parse, clone, accessor sweep) must know every PDU
    # class that can be built from a buffer -- ENTRY_CLASSES is written by hand, the generated table is not
    want = {r["owner"] for r in rows if r["isPdu"] and r["kind"] == "ctor" and r["auto"]} | \
           {r["owner"] + "*" for r in rows if r["isPdu"] and r["kind"] == "static" and r["name"] == "from_bytes"}
    for c in sorted(want - set(wc.ENTRY_CLASSES)):
        problems.append(f"PDU class {c} has a public parsing constructor / from_bytes but checks/wire_common.py ENTRY_CLASSES "
                        "(harness/wire_main.cpp parse_class) does not drive it")
    for c in sorted(set(wc.ENTRY_CLASSES) - want):
        problems.append(f"checks/wire_common.py ENTRY_CLASSES names {c}, which the current headers cannot build from a buffer")
    for k in sorted(driven - set(known)):
        problems.append(f"harness/c01_entry.cpp has glue for {k}, which is no entry point of the current headers (stale glue)")
    new = []
    if m:
        names = m.group(0).split(": ", 1)[1].split(" ; ")
        new = [n for n in names if opkey(n) in known]
        problems.insert(0, "construct-from-buffer form(s) of libtins without a disposition in lean/TinsModel/Wire/Coverage.lean "
                           "(theorem entryPoints_covered fails): " + " ; ".join(names))
    # drive everything the harness can call -- also a new entry point the table does not know yet (the search)
    todo = [r for r in rows if opkey(r["key"]) in driven]
    rng = random.Random(chk.seed + 101)
    ops = gen_entry_ops(rng, todo, chk.tier == "quick")
    chk.extra.setdefault("_seen", set())
    before = len(chk.violations)
    st = corr.correspond(chk, "C01", exe, ops, case_start=("entry",), model=False,
                         classify=lambda op, impl: "entry:" + impl.split(" ")[0] + (":" + impl.split(" ")[1] if impl.startswith("throw ") else ""),
                         sig_of=lambda k, d, c: {"kind": k, "class": "entry", "entry": c[-1].split(" ")[1] if c else ""})
    found = any(not nofail for _, _, nofail in chk.violations[before:])
    for ptxt in problems:
        chk.violation("entry-point coverage: " + ptxt, ["entry-point-coverage", ptxt] + [f"# undriven/new: {n}" for n in new],
                      nofail=not found)
    ep = chk.extra.setdefault("entry_points", {})
    ep["total"] = len(rows)
    ep["by_kind"] = {k: sum(1 for r in rows if r["kind"] == k) for k in ("ctor", "static", "free", "method")}
    if table:
        ep["by_disposition"] = {t: sum(1 for v in table.values() if v["tag"] == t) for t in ("modelled", "harnessOnly", "notAParser", "NONE")}
    ep["driven_by_c01_entry"] = len(todo)
    ep["generated_calls"] = sum(1 for r in todo if r["auto"])
    ep["stale_table_rows"] = stale or []
    ep["sweep_ops"] = len(ops)
    chk.trusted += ["translator/gen_entrypoints.py (clang-14 AST of every header -> Gen/EntryPoints.lean, harness/c01_entry_gen.h), "
                    "harness/c01_entry.cpp, the hand-maintained disposition table lean/TinsModel/Wire/Coverage.lean"]
    chk.assumptions += ["entry points = public constructors / static members / member functions / free functions of namespace Tins "
                        "declared in a header below include/tins with a `const uint8_t*` parameter directly followed by an integer "
                        "size; (begin, end) pointer pairs, single pointers without a size and the pcap callbacks (property C17) are "
                        "not construct-from-buffer forms in this sense"]


# ------------------------------------------------------------------------------------------ raw-site coverage

RAW_AUDIT = "Audit/C01Raw.lean"
RAW_TABLE = "TinsModel/Wire/RawCoverage.lean"
NO_CORR = os.environ.get("VERIF_C01_NO_CORR") == "1"     # test switch: prove only, run no correspondence / sweep / search
READERS = r'(?:(?<![A-Za-z_.])(?:rd|rdN|rdInc|rdRange|Cursor\.rest|Cursor\.peek|[A-Za-z_0-9.]+\.peek|peek|extOf)|\.fault)\s+"([^"]+)"'


def model_site_strings():
    """every site string a fault-explicit read (`rd` / `rdN` / `peek` / `Cursor.rest`, or a literal `.fault "site"`) of a Lean model carries"""
    out = set()
    for f in glob.glob(os.path.join(core.LEAN, "TinsModel", "**", "*.lean"), recursive=True):
        rel = os.path.relpath(f, core.LEAN)
        if rel.endswith("RawCoverage.lean") or rel.endswith("Wire/Coverage.lean") or "/Gen/" in rel or "/Props/" in rel:
            continue
        try:
            out.update(re.findall(READERS, open(f, errors="replace").read()))
        except OSError:
            pass
    return out


def split_key(k):
    """function | kind | expression [| xN]  ->  (function, kind, expression)"""
    f = k.split(" | ")
    if len(f) >= 4 and re.fullmatch(r"x\d+", f[-1]):
        f = f[:-1]
    return (f[0], f[1], " | ".join(f[2:])) if len(f) >= 3 else (k, "?", "")


def raw_status(chk, raw, build_ok):
    """what Lean says about the disposition table against the regenerated tables:
       new     [(function, kind, expr, key)]   sites of the current tree without a disposition (rawSites_covered fails)
       gone    [(function, cond, key)]         guards a disposition cites that are no condition of the source any more
       other   [text]                          table defects (a model / theorem / site string that does not exist, scan errors)"""
    st = dict(new=[], gone=[], other=[], counts=None, rows=[], stale=[])
    text = ""
    if build_ok:
        r = core.lake(["env", "lean", RAW_AUDIT])
        text = r.stdout + r.stderr
        if r.returncode != 0:
            st["other"].append("the raw-site table could not be evaluated: " + text[-800:])
    if not build_ok or "RAWSITE" not in text:
        # the table does not build: elaborate its source (it needs only the generated table) to have Lean name the rows
        core.lake(["build", "TinsModel.Gen.RawSites"])
        r = core.lake(["env", "lean", RAW_TABLE])
        text = r.stdout + r.stderr
    m = re.search(r"RAW SITES WITHOUT A DISPOSITION[^:]*: (.*?) ;;END", text, re.S)
    if m:
        for k in m.group(1).split(" ;; "):
            fn, kind, expr = split_key(k.strip())
            st["new"].append((fn, kind, expr, k.strip()))
    m = re.search(r"GUARDS CITED BY[^:]*: (.*?) ;;END", text, re.S)
    if m:
        for k in dict.fromkeys(x.strip() for x in m.group(1).split(" ;; ")):      # a guard cited by several rows is named once
            fn, kind, expr = split_key(k)
            st["gone"].append((fn, expr, k))
    m = re.search(r"translator defect[^\n]*", text)
    if m:
        st["other"].append(m.group(0)[:600])
    sites = None
    for l in text.split("\n"):
        f = l.split("\t")
        if f[0] == "RAWSITE" and len(f) >= 7:
            st["rows"].append(dict(tag=f[1], function=f[2], kind=f[3].split(".")[-1], expr=f[4], site=f[5], text=f[6]))
            if f[1] == "modelled" and f[5]:
                sites = sites if sites is not None else model_site_strings()
                if f[5] not in sites:
                    st["other"].append(f"lean/{RAW_TABLE}: row `{f[2]} | {f[4]}` names the model site \"{f[5]}\", which no fault-explicit read "
                                       "(rd / rdN / peek / Cursor.rest) of the Lean models carries")
        elif f[0] == "COUNTS" and len(f) >= 7:
            st["counts"] = dict(zip(("total", "modelled", "argued", "unmodelled", "guards", "guards_cited"), map(int, f[1:7])))
        elif f[0] == "STALE" and len(f) >= 2:
            st["stale"].append(f[1])
        elif f[0] == "BADNAME" and len(f) >= 3:
            st["other"].append(f"lean/{RAW_TABLE}: row `{f[2]}` names `{f[1]}`, which is no declaration of the Lean library")
    for u in raw.get("errors", []):
        st["other"].append("raw-site scan: " + u)
    for u in raw.get("missing_roots", []):
        st["other"].append("raw-site scan: no definition found for entry point " + u)
    return st


def reaching(raw, gen, functions):
    """(entry-point rows, wire entry classes) from which the translator's call graph reaches one of `functions`"""
    roots = set()
    for fn in functions:
        roots |= set(raw.get("reached_from", {}).get(fn, []))
    qn = set()
    classes = set()
    decoders = False
    for k in roots:
        m = re.match(r"^(.*?)::([A-Za-z_0-9]+)\(", k)
        if not m:
            continue
        owner, name = m.group(1), m.group(2)
        qn.add(owner + "::" + name)
        if name in ("from_option", "from_extension_header", "to"):
            decoders = True
            classes.add(owner.split("::")[0])
        elif owner.split("::")[-1] == name:
            classes.add(owner)
        elif name == "from_bytes" and owner in ("Dot11", "EAPOL"):
            classes.add(owner + "*")
    rows = [r for r in gen["rows"] if (r["owner"] + "::" + r["name"]) in qn]
    out = set()
    for c in classes:
        if c in wc.ENTRY_CLASSES:
            out.add(c)
        if c in ("Dot11ManagementFrame", "RSNInformation", "Dot11"):
            out |= {x for x in wc.ENTRY_CLASSES if x.startswith("Dot11")} | {"RadioTap"}
        if c in ("Internals", "PDUOption"):            # the generic converters: every class with options
            out |= {"IP", "TCP", "DHCP", "DHCPv6", "ICMPv6", "PPPoE", "Dot11*", "Dot11Beacon", "Dot11ProbeResponse", "Dot11AssocRequest"}
        if c == "EAPOL":
            out |= {"EAPOL*", "RC4EAPOL", "RSNEAPOL"}
    # a class reached only through another one (IP inside EthernetII ...) is driven through its own entry as well as theirs
    return rows, sorted(out), decoders


def directed_search(chk, raw, gen, functions, budget_s):
    """the search step of the verdict contract for a broken raw-site tie: extra effort on the entry points and wire classes
    that reach the changed functions (the c01_entry sweep with more lengths / seeds, the wire generators with n multiplied).
    True = a concrete failing input (sanitizer fault / oracle violation) was found and recorded."""
    rows, classes, decoders = reaching(raw, gen, functions)
    t0 = time.time()
    before = len(chk.violations)
    found = lambda: any(not nofail for _, _, nofail in chk.violations[before:])
    info = chk.extra.setdefault("raw_site_search", {})
    info.update(functions=sorted(functions), entry_rows=[r["key"] for r in rows][:40], wire_classes=classes, ops=0)
    quick = chk.tier == "quick"
    exe, _ = core.build_harness("c01_entry")
    out, _ = core.run_harness_lines(exe, [], ["list"], ("list",)) if exe else ([], None)
    driven = set(out[0].split(" ")[1:]) if out and out[0].startswith("keys") else set()
    todo = [r for r in rows if opkey(r["key"]) in driven]
    gens = wire_checks.family_gens()
    rounds = 2 if quick else 10
    for k in range(rounds):
        if found() or time.time() - t0 > budget_s:
            break
        rng = random.Random(chk.seed * 7919 + 104729 * (k + 1))
        if exe and todo:
            ops = gen_entry_ops(rng, todo, False, upto=128 if k == 0 else 64, nrand=40)
            if k > 0:
                ops = [o for i, o in enumerate(ops) if i % 2 == k % 2]       # later rounds: the random / mutated part matters
            info["ops"] += len(ops)
            corr.correspond(chk, "C01", exe, ops, case_start=("entry",), model=False,
                            classify=lambda op, impl: "entry:" + impl.split(" ")[0],
                            sig_of=lambda kd, d, c: {"kind": kd, "class": "entry", "entry": c[-1].split(" ")[1] if c else ""})
        if found() or time.time() - t0 > budget_s or not classes:
            continue
        n = (6000 if quick else 60000) * 2
        ops = wc.every_length_ops(classes, upto=160) if k == 0 else []
        ops += wc.gen_parse_ops(rng, n, classes=classes, max_random_len=400)
        for g in gens:
            if hasattr(g, "gen_parse"):
                ops += [o for o in g.gen_parse(rng, n // 2) if o.split(" ")[1] in classes]
        info["ops"] += len(ops)
        for i in range(0, len(ops), 20000):
            if found() or time.time() - t0 > budget_s:
                break
            if wc.run_wire(chk, "C01", ops[i:i + 20000], sig_of=wire_checks.sig_of) is None:
                break
    info["wall_s"] = round(time.time() - t0, 1)
    info["found"] = found()
    return found()


def only_raw_table_broken():
    """does everything Props/C01.lean imports, except the raw-site table, still build?  (then a failing build of the property is
    explained by the table alone)"""
    src = open(os.path.join(core.LEAN, "TinsModel", "Props", "C01.lean")).read()
    mods = [m for m in re.findall(r"^import (\S+)", src, re.M) if m != "TinsModel.Wire.RawCoverage"]
    ok, _ = core.lake_build(mods)
    return ok


def run_raw_sites(chk, raw, problems):
    """report what the raw-site tie says; returns the proof problems it does NOT explain"""
    build_ok = not any(p.startswith("lake build failed") for p in problems)
    st = raw_status(chk, raw, build_ok)
    ev = chk.extra.setdefault("raw_sites", {})
    if st["counts"]:
        c = st["counts"]
        ev.update(raw_sites_total=c["total"], raw_sites_modelled=c["modelled"], raw_sites_argued=c["argued"],
                  raw_sites_unmodelled=c["unmodelled"], guards_listed=c["guards"], guards_cited=c["guards_cited"])
        by_kind = {}
        for r in st["rows"]:
            by_kind.setdefault(r["kind"], {}).setdefault(r["tag"], 0)
            by_kind[r["kind"]][r["tag"]] += 1
        ev["by_kind"] = by_kind
        ev["unmodelled_functions"] = sorted({r["function"] for r in st["rows"] if r["tag"] == "unmodelled"})
    ev["functions_on_parse_path"] = raw.get("reach")
    ev["functions_scanned"] = raw.get("functions")
    ev["excluded_roots"] = sorted({w for _, w in raw.get("excluded", [])})
    ev["stale_table_rows"] = st["stale"]
    chk.trusted += ["translator/gen_rawsites.py (clang-14 AST of every src/**/*.cpp and of every header -> Gen/RawSites.lean: raw sites and "
                    "guards of the functions reachable by name from the entry points and option decoders), the hand-maintained disposition table "
                    "lean/TinsModel/Wire/RawCoverage.lean (its `argued` rows are arguments, not theorems)"]
    chk.assumptions += ["raw sites = pointer dereference / subscript / member access through a pointer / memcpy, memcmp, memset, std::copy and other "
                        "foreign calls with raw pointer operands / pointer casts / pointer arithmetic / hand-over of a raw pointer to a function of "
                        "namespace Tins, in functions reachable BY NAME from the entry points of Gen/EntryPoints (without matches_response: C14; the "
                        "writers: C02) and from `from_option` / `from_extension_header` / `PDUOption::to`; std::vector / std::string operator[] and "
                        "iterators, C strings (char*), the DNS record getters (C10), crypto (C09), the RadioTap writer (C11) and the sniffer loop "
                        "(C17) are outside this table",
                        "a site is keyed by function + kind + normalised expression text + number of occurrences: an edit that keeps all four "
                        "(e.g. changing the value of a variable the expression mentions) is seen only through the guards a disposition cites"]
    broken = bool(st["new"] or st["gone"])
    explained = broken and not build_ok and only_raw_table_broken()
    rest = [p for p in problems if not (explained and p.startswith("lake build failed"))]
    if not (broken or st["other"]):
        return rest
    functions = {fn for fn, _, _, _ in st["new"]} | {fn for fn, _, _ in st["gone"]}
    found = any(not nofail for _, _, nofail in chk.violations)
    if broken and not found and not NO_CORR:
        found = directed_search(chk, raw, gen_cache["gen"], functions, 80 if chk.tier == "quick" else 900)
    tail = ("" if found else "; theorem Tins.Wire.RawCoverage.rawSites_covered / guards_present (Props.C01.raw_sites_covered, raw_guards_present) no longer "
            "checks (correspondence, sweep and search disabled by VERIF_C01_NO_CORR)" if NO_CORR else "; theorem Tins.Wire.RawCoverage.rawSites_covered / guards_present (Props.C01.raw_sites_covered, raw_guards_present) no longer "
            "checks and the directed search (entry sweep + wire generators of the classes that reach the function) found no failing input")
    for fn, kind, expr, key in st["new"]:
        chk.violation(f"raw-site coverage: new raw memory access without a model: {fn} {expr}  [{kind}]" + tail,
                      ["raw-site-coverage", f"new-site {key}", "theorem Tins.Wire.RawCoverage.rawSites_covered",
                       "# reached from: " + ", ".join(raw.get("reached_from", {}).get(fn, [])[:12])], nofail=not found,
                      signature={"kind": "raw-site", "function": fn, "expr": expr})
    for fn, cond, key in st["gone"]:
        chk.violation(f"raw-site coverage: a bounds check the safety argument of a raw access relies on is gone from the source: {fn} {cond}" + tail,
                      ["raw-site-coverage", f"gone-guard {key}", "theorem Tins.Wire.RawCoverage.guards_present",
                       "# reached from: " + ", ".join(raw.get("reached_from", {}).get(fn, [])[:12])], nofail=not found,
                      signature={"kind": "raw-guard", "function": fn, "expr": cond})
    for t in st["other"]:
        chk.violation("raw-site coverage: " + t, ["raw-site-coverage", t], nofail=True)
    return rest


gen_cache = {}


def run(chk):
    import translator.gen_entrypoints as gen_entrypoints
    import translator.gen_rawsites as gen_rawsites
    gen = gen_entrypoints.main(["--quiet"])          # regenerate Gen/EntryPoints.lean + harness/c01_entry_gen.h before proving
    raw = gen_rawsites.main(["--quiet"])             # regenerate Gen/RawSites.lean (cached per translation unit) before proving
    gen_cache["gen"] = gen
    res = wire_checks.run_property(chk, "C01", want_parse=True, want_build=False, defer_problems=True, no_corr=NO_CORR)
    problems, total = res if res else (list(getattr(chk, "proof_problems", [])), {})
    chk.extra.setdefault("_seen", set())
    if not NO_CORR:
        run_entry_points(chk, gen)
        exe, err = core.build_harness("c01_cursor")
        if exe is None:
            chk.violation("harness does not build: " + (err or "")[-1500:], ["build-error"], nofail=True)
            return
        rng = random.Random(chk.seed + 17)
        ops = gen_stream_ops(rng, 600 if chk.tier == "quick" else 20000)
        chk.extra.setdefault("_seen", set())
        corr.correspond(chk, "C01", exe, ops, case_start=("cinit", "oinit"),
                        sig_of=lambda k, d, c: {"kind": k, "class": "stream"})
    # the raw-site tie last: its directed search runs only when nothing above has already exhibited a failing input
    rest = run_raw_sites(chk, raw, problems)
    chk.proof_problems = rest                        # what the raw-site tie explains is reported by it, with the site
    for p in rest:
        if not any(not nofail for _, _, nofail in chk.violations):
            chk.violation("proof obligation no longer checks: " + p[:1500], ["theorem-or-audit-failure", p[:4000]], nofail=True)
    corr.finalize_cov(chk)


def replay(path):
    ops = [l.rstrip("\n") for l in open(path) if not l.startswith("#") and l.strip()]
    if ops and ops[0].split(" ")[0] == "entry-point-coverage":
        import translator.gen_entrypoints as gen_entrypoints
        gen_entrypoints.main(["--quiet"])
        ok, text = core.lake_build(["TinsModel.Props.C01"])
        print("\n".join(ops[1:]))
        print("lake build TinsModel.Props.C01:", "ok" if ok else "FAILS")
        if not ok:
            print(text[-1500:])
            print(f"VIOLATION property=C01 replay={path}")
            return 1
        return 0
    if ops and ops[0].split(" ")[0] == "raw-site-coverage":
        import translator.gen_rawsites as gen_rawsites
        raw = gen_rawsites.main(["--quiet"])
        ok, text = core.lake_build(["TinsModel.Props.C01"])
        print("\n".join(ops[1:]))
        print("lake build TinsModel.Props.C01:", "ok" if ok else "FAILS")
        if not ok:
            core.lake(["build", "TinsModel.Gen.RawSites"])
            r = core.lake(["env", "lean", RAW_TABLE])
            for l in (r.stdout + r.stderr).split("\n"):
                if "WITHOUT A DISPOSITION" in l or "GONE FROM THE SOURCE" in l:
                    print(l[:3000])
            print(f"VIOLATION property=C01 replay={path}")
            return 1
        return 0
    if ops and ops[0].split(" ")[0] == "entry":
        exe, err = core.build_harness("c01_entry")
        impl, mod, spec, faults = corr.evaluate("C01", exe, ops, ("entry",), model=False)
        bad = corr.first_problem(ops, impl, None, spec)
        for o, a, c in zip(ops, impl, spec):
            print(o[:300]); print("  impl :", a[:600]); print("  spec :", c)
        if bad:
            print(f"VIOLATION property=C01 replay={path}")
            return 1
        return 0
    if ops and ops[0].split(" ")[0] in ("cinit", "oinit"):
        exe, err = core.build_harness("c01_cursor")
        impl, mod, spec, faults = corr.evaluate("C01", exe, ops, ("cinit", "oinit"))
        bad = corr.first_problem(ops, impl, mod, spec)
        for o, a, b, c in zip(ops, impl, mod, spec):
            print(o[:300]); print("  impl :", a[:600]); print("  model:", b[:600]); print("  spec :", c)
        if bad:
            print(f"VIOLATION property=C01 replay={path}")
            return 1
        return 0
    return wire_checks.replay("C01", path)
