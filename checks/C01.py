"""C01 — see DESIGN.md §6 C01. Shares harness/wire_main.cpp and the Lean wire model with C01–C04; additionally ties the
InputMemoryStream / OutputMemoryStream models to the real classes (harness/c01_cursor.cpp)."""
import random
from vlib import core, corr
from checks import wire_checks

LEVEL = "proof"
MANIFEST = dict(
    text="Lean 4: fault-explicit models of InputMemoryStream and of every modelled parsing constructor; per-class theorems (never an out-of-buffer "
         "access, only malformed_packet, strictly shorter inner buffer) for all byte strings, assembled in Wire/RegistryFacts.lean into the "
         "unconditional whole-packet theorem parse_any_safe (any entry point, any byte string, any nesting depth, any mix of families) and "
         "parsed_layers_good (every accepted layer satisfies its class invariant); accessor-safety theorems for the typed option decoders. "
         "Every entry point (modelled or not) is driven under ASan/UBSan/LSan on structured, mutated, every-length and random buffers with an accessor sweep.",
    note="The theorems are about hand-written, code-shaped Lean models of 53 entry classes in seven families (link layers, IPv4 + options / AH / ESP, "
         "IPv6 + extension headers, TCP + options / UDP, ICMP / ICMPv6 + extensions, DHCP / DHCPv6 / BootP / RTP / VXLAN / ARP / STP, 802.11 / "
         "RadioTap / EAPOL; list in the evidence: modelled_classes); the tie to the C++ is differential correspondence of every line under "
         "ASan/UBSan/LSan plus the Lean spec oracle evaluated on the implementation's own output; DNS as an entry class and the paths "
         "the model cannot express (host routing table in IP::prepare_for_serialize, EAPOL null result) get the implementation-side oracle "
         "only (evidence: unmodelled_lines). Trusted: Lean kernel + propext/Classical.choice/Quot.sound, the models, harness, generators, "
         "translator/gen_tags.py; allocator / lifetime behaviour is observed by the sanitizers, not proved.",
    technique="Lean 4 proof over executable byte-level models + model/impl correspondence + spec oracle on impl output",
    design="DESIGN.md §6 C01, §11.2")


def gen_stream_ops(rng, ncases):
    ops = []
    for _ in range(ncases):
        n = rng.choice([0, 1, 2, 3, 4, 8, 16, rng.randint(0, 40)])
        ops.append("cinit " + (bytes(rng.randrange(256) for _ in range(n)).hex() or "-"))
        for _ in range(rng.randint(1, 8)):
            k = rng.random()
            m = rng.choice([0, 1, 2, 4, n, n + 1, rng.randint(0, n + 3)])
            if k < 0.4:
                ops.append(f"cread {m}")
            elif k < 0.6:
                ops.append(f"cskip {m}")
            elif k < 0.75:
                ops.append(f"cshrink {m}")
            elif k < 0.9:
                ops.append(f"cpeek {rng.randint(0, n + 1)} {rng.randint(0, 4)}")
            else:
                ops.append("cbool")
        n = rng.choice([0, 1, 4, 8, rng.randint(0, 24)])
        ops.append(f"oinit {n}")
        for _ in range(rng.randint(1, 6)):
            k = rng.random()
            m = rng.choice([0, 1, 2, n, n + 1, rng.randint(0, n + 2)])
            if k < 0.5:
                ops.append("owrite " + (bytes(rng.randrange(256) for _ in range(m)).hex() or "-"))
            elif k < 0.7:
                ops.append(f"oskip {m}")
            elif k < 0.9:
                ops.append(f"ofill {m} {rng.randrange(256)}")
            else:
                ops.append("obuf")
        ops.append("obuf")
    return ops


def run(chk):
    wire_checks.run_property(chk, "C01", want_parse=True, want_build=False)
    exe, err = core.build_harness("c01_cursor")
    if exe is None:
        chk.violation("harness does not build: " + (err or "")[-1500:], ["build-error"], nofail=True)
        return
    rng = random.Random(chk.seed + 17)
    ops = gen_stream_ops(rng, 600 if chk.tier == "quick" else 20000)
    chk.extra.setdefault("_seen", set())
    corr.correspond(chk, "C01", exe, ops, case_start=("cinit", "oinit"),
                    sig_of=lambda k, d, c: {"kind": k, "class": "stream"})
    corr.finalize_cov(chk)


def replay(path):
    ops = [l.rstrip("\n") for l in open(path) if not l.startswith("#") and l.strip()]
    if ops and ops[0].split(" ")[0] in ("cinit", "oinit"):
        exe, err = core.build_harness("c01_cursor")
        impl, mod, spec, faults = corr.evaluate("C01", exe, ops, ("cinit", "oinit"))
        bad = corr.first_problem(ops, impl, mod, spec)
        for o, a, b, c in zip(ops, impl, mod, spec):
            print(o[:300]); print("  impl :", a[:600]); print("  model:", b[:600]); print("  spec :", c)
        if bad:
            print(f"VIOLATION property=C01 replay={path}")
            return 1
        return 0
    return wire_checks.replay("C01", path)
