"""C09 — WEP and WPA2 (CCMP/TKIP) decryption recovers exactly the plaintext, safely."""
import hashlib, hmac, os, random, subprocess, sys
from vlib import core, corr

AREA = "C09"
MODULES = ["TinsModel.Props.C09"]
AUDIT = "Audit/C09.lean"
LEVEL = "proof"
HARNESS = "c09_crypto"
CASE_START = ("case",)
MANIFEST = dict(
    text="Lean 4 theorems over code-shaped executable models of WEPDecrypter / SessionKeys (TKIP mixing, CCMP with the "
         "block cipher as a parameter) / WPA2Decrypter / RSNHandshakeCapturer: round trip against reference encryptors "
         "written from IEEE 802.11 for all payloads, keys, IV/PN and header variants (+HTC frames: known finding), "
         "reject-unless-tag-verifies, no out-of-bounds access for any protected body; the key derivation is the IEEE PRF / "
         "pairwise key hierarchy / EAPOL-Key MIC for every HMAC (a parameter); handshake capture and key learning for every "
         "history of the grammar (M1+ [M2+ [M3+ [M4+]]])* with anything interleaved: the entry is the PTK of the last "
         "completed attempt; the RSNEAPOL / Dot11Beacon parsing used is proved equal to the Wifi wire family's. Tied to the "
         "code by differential correspondence (frames from an independent C++ encryptor over OpenSSL AES, hostile bodies "
         "of every small length, malformed EAPOL / beacon streams, ASan/UBSan) and by a spec oracle that re-derives round "
         "trips, handshake completion and PTKs from the frame bytes with the Lean specification.",
    note="Trusted: Lean kernel + standard axioms; AES/SHA-1/MD5/PBKDF2 themselves (OpenSSL / hashlib; the CCMP theorems hold "
         "for every block function, the key-derivation theorems for every keyed hash); hand-written models tied by "
         "correspondence; generator coverage bounds what the tie sees.",
    technique="Lean 4 proof (XOR-stream involution, CCM refinement for arbitrary E, fault-explicit safety, PRF / Min-Max "
              "refinement for arbitrary HMAC, grammar-indexed invariant over handshake histories, model-to-wire-model "
              "agreement) + model/impl correspondence + executable spec oracle",
    design="DESIGN.md §6 C09")


def hx(b):
    return b.hex() if b else "-"


# ----------------------------------------------------------------------------- frame construction

def mac_header(subtype, tods, fromds, a1, a2, a3, a4=b"", frag=0, seq=0, qos=0, prot=1, order=0,
               retry=0, pwr=0, moredata=0, morefrag=0, dur=0, htc=bytes(4)):
    fc0 = (2 << 2) | (subtype << 4)
    fc1 = tods | fromds << 1 | morefrag << 2 | retry << 3 | pwr << 4 | moredata << 5 | prot << 6 | order << 7
    h = bytes([fc0, fc1]) + dur.to_bytes(2, "little") + a1 + a2 + a3 + (frag | seq << 4).to_bytes(2, "little")
    if tods and fromds:
        h += a4
    if subtype & 8:
        h += qos.to_bytes(2, "little")
        if order:
            h += htc                    # +HTC: a QoS data frame with the Order bit carries an HT Control field
    return h


UNKNOWN_ETH = [0x88b5, 0x88b6, 0x0600, 0x8035, 0xffff, 0x0000, 0x1234, 0x0805]
SIZES = [0, 1, 2, 7, 8, 9, 15, 16, 17, 23, 24, 25, 31, 32, 33, 47, 48, 63, 64, 65, 255, 256, 257]


def rand_bytes(rng, n):
    return bytes(rng.getrandbits(8) for _ in range(n))


def gen_plaintext(rng, big):
    """(plaintext, snapok): an LLC/SNAP payload most of the time"""
    k = rng.random()
    if k < 0.08:
        return rand_bytes(rng, rng.choice([1, 2, 3, 7])), False          # shorter than a SNAP header
    n = rng.choice(SIZES) if rng.random() < 0.6 else rng.randint(0, 2300 if big else 200)
    if k < 0.14:
        hdr = bytes([0xaa, 0xaa, 3, 0, 0, 0, 0x08, 0x06])                # ARP
        if rng.random() < 0.5:
            return hdr + rand_bytes(rng, rng.randint(1, 27)), False       # truncated ARP -> malformed_packet inside SNAP
        return hdr + rand_bytes(rng, 28 + rng.choice([0, 0, 1, 18])), True
    hdr = bytes([rng.choice([0xaa, 0xaa, 0x42, rng.getrandbits(8)]), rng.choice([0xaa, rng.getrandbits(8)]),
                 rng.choice([3, rng.getrandbits(8)])]) + rng.choice([b"\0\0\0", rand_bytes(rng, 3)]) + \
        rng.choice(UNKNOWN_ETH).to_bytes(2, "big")
    return hdr + rand_bytes(rng, n), True


def rand_addr(rng, pool):
    return rng.choice(pool)


def gen_header(rng, pool, bssid, qos_ok=True, force_ds=None, htc_ok=False):
    tods, fromds = force_ds if force_ds is not None else rng.choice([(1, 0), (1, 0), (0, 1), (0, 1), (0, 0), (1, 1)])
    subtype = rng.choice([0, 0, 0, 8, 8, 8, 1, 2, 3] + ([9, 10, 11] if qos_ok else []))
    sta, other = rng.sample([a for a in pool if a != bssid], 2)
    if tods and not fromds:
        a1, a2, a3 = bssid, sta, other
    elif fromds and not tods:
        a1, a2, a3 = sta, bssid, other
    elif not tods and not fromds:
        a1, a2, a3 = other, sta, bssid
    else:
        a1, a2, a3 = bssid, sta, other
    a4 = rng.choice(pool)
    # QoS + Order = +HTC (KF-C09-8: libtins does not know the HT Control field); only where the caller asks for it
    order = rng.choice([0, 0, 0, 1]) if not (subtype & 8) else (1 if htc_ok and rng.random() < 0.04 else 0)
    h = mac_header(subtype, tods, fromds, a1, a2, a3, a4, frag=rng.choice([0, 0, rng.randrange(16)]),
                   seq=rng.randrange(4096), qos=rng.choice([0, rng.randrange(16), rng.getrandbits(16)]), prot=1,
                   order=order, retry=rng.getrandbits(1), pwr=rng.getrandbits(1), moredata=rng.getrandbits(1),
                   morefrag=rng.getrandbits(1), dur=rng.getrandbits(16), htc=rng.choice([bytes(4), rand_bytes(rng, 4)]))
    return h


def addr_fields(h):
    return h[4:10], h[10:16], h[16:22]


def tamper(rng, h, body, first):
    """one mutation that an integrity check must catch: a bit of the cipher text / tag / IV (not the key-id byte),
    or a truncation / extension of the body"""
    k = rng.random()
    if k < 0.6 and len(body) > first:
        # positions every receiver depends on: IV / TSC / PN bytes, cipher text, ICV / MIC
        head = [0, 1, 2] if first == 4 else [0, 4, 5, 6, 7]
        i = rng.choice(head + list(range(first, len(body))) * 3)
        b = bytearray(body); b[i] ^= 1 << rng.randrange(8)
        return h, bytes(b)
    if k < 0.8 and len(body) > 1:
        return h, body[:rng.randrange(len(body))]
    return h, body + rand_bytes(rng, rng.randint(1, 17))


class Builder:
    """collects encryption requests for the independent encryptor (harness `gen` mode), then renders the ops"""

    def __init__(self, exe):
        self.exe = exe
        self.reqs = []
        self.cases = []      # list of callables(bodies) -> list of op lines

    def want(self, line):
        self.reqs.append(line)
        return len(self.reqs) - 1

    def run(self):
        bodies = []
        if self.reqs:
            r = subprocess.run([self.exe, "gen"], input="\n".join(self.reqs) + "\n", stdout=subprocess.PIPE,
                               stderr=subprocess.PIPE, text=True, timeout=3000)
            bodies = r.stdout.split("\n")[:-1]
            if r.returncode != 0 or len(bodies) != len(self.reqs) or any(b == "bad-op" for b in bodies):
                raise RuntimeError("reference encryptor failed: " + r.stderr[-2000:])
        ops = []
        for c in self.cases:
            ops += c([bytes.fromhex(b) if b != "-" else b"" for b in bodies])
        return ops


def wep_case(rng, B, big=False):
    pool = [rand_bytes(rng, 6) for _ in range(4)] + [b"\xff" * 6]
    bssid = pool[0]
    key = rand_bytes(rng, rng.choice([5, 13, 5, 13, 16, 1, 29]))
    other_key = rand_bytes(rng, len(key))
    plan = []
    for _ in range(rng.randint(2, 7)):
        h = gen_header(rng, pool[:4], bssid)
        pt, ok = gen_plaintext(rng, big)
        k = rng.random()
        use = key if k < 0.85 else other_key
        iv = rand_bytes(rng, 3)
        idx = B.want(f"wepenc {hx(use)} {hx(iv)} {rng.randrange(4)} {hx(pt)}")
        plan.append((h, pt, ok, use, idx, rng.random()))

    def render(bodies):
        ops = ["case"]
        setup = rng.random()
        installed_addr = bssid if setup < 0.9 else pool[1]
        ops.append(f"weppw {hx(installed_addr)} {hx(key)}")
        if setup < 0.1:
            ops.append(f"weppw {hx(installed_addr)} {hx(other_key)}")      # overwritten ...
            ops.append(f"weppw {hx(installed_addr)} {hx(key)}")            # ... and restored
        if 0.1 <= setup < 0.15:
            ops.append(f"weppw {hx(pool[2])} {hx(other_key)}")
        for h, pt, ok, use, idx, t in plan:
            body = bodies[idx]
            if t < 0.2:
                h2, b2 = tamper(rng, h, body, 4)
                ops.append(f"wep {hx(h2 + b2)}")
            elif t < 0.25:
                # protected bit cleared: libtins parses the body as LLC/SNAP
                h2 = bytes([h[0], h[1] & 0xbf]) + h[2:]
                ops.append(f"wep {hx(h2 + pt)}")
            else:
                ops.append(f"wep {hx(h + body)} @ enc wep {hx(use)} {hx(pt)} {1 if ok else 0}")
        if rng.random() < 0.15:
            ops.append(f"weprm {hx(installed_addr)}")
            h, pt, ok, use, idx, t = plan[0]
            ops.append(f"wep {hx(h + bodies[idx])} @ enc wep {hx(use)} {hx(pt)} {1 if ok else 0}")
        return ops
    B.cases.append(render)


def wpa_case(rng, B, big=False, shadow=False):
    pool = [rand_bytes(rng, 6) for _ in range(4)]
    bssid = pool[0]
    ccmp = rng.random() < 0.6
    ptk = rand_bytes(rng, 80)
    ptk2 = rand_bytes(rng, 80)
    tk = ptk[32:48]
    plan = []
    nframes = rng.randint(2, 6)
    for _ in range(nframes):
        force = (0, 1) if shadow else None
        h = gen_header(rng, pool, bssid, qos_ok=True, force_ds=force)
        a1, a2, a3 = addr_fields(h)
        pt, ok = gen_plaintext(rng, big)
        k = rng.random()
        use = ptk if k < 0.85 else ptk2
        frame_ccmp = ccmp if rng.random() < 0.93 else not ccmp
        pn = rng.choice([0, 1, 255, 256, 65535, 65536, 2**32 - 1, 2**32, 2**48 - 1, rng.getrandbits(48), rng.getrandbits(48)])
        keyid = rng.randrange(4)
        tods, fromds = h[1] & 1, (h[1] >> 1) & 1
        if frame_ccmp:
            idx = B.want(f"ccmpenc {hx(use[32:48])} {hx(h)} {pn} {keyid} {hx(pt)}")
        else:
            mickey = use[56:64] if tods else use[48:56]
            da = a3 if tods else a1
            sa = (h[24:30] if fromds else a2) if tods else (a3 if fromds else a2)
            prio = (h[30 if (tods and fromds) else 24] & 0x0f) if h[0] & 0x80 else 0
            idx = B.want(f"tkipenc {hx(use[32:48])} {hx(mickey)} {hx(a2)} {hx(da)} {hx(sa)} {prio} {pn} {keyid} {hx(pt)}")
        plan.append((h, pt, ok, use, frame_ccmp, idx, rng.random()))

    def render(bodies):
        ops = ["case"]
        installed = set()
        for (h, pt, ok, use, fc, idx, t) in plan:
            a1, a2, a3 = addr_fields(h)
            tods, fromds = h[1] & 1, (h[1] >> 1) & 1
            pair = (a1, a2) if tods != fromds else (a2, a3)      # (host, access point); libtins' convention otherwise
            if rng.random() < 0.5:
                pair = (pair[1], pair[0])
            if tuple(sorted(pair)) not in installed and rng.random() < 0.92:
                installed.add(tuple(sorted(pair)))
                ops.append(f"ptk {hx(pair[0])} {hx(pair[1])} {hx(ptk)} {1 if ccmp else 0}")
            if shadow and tuple(sorted((a2, a3))) not in installed and a3 != a1:
                # the original source is another station of the same BSS with its own session key
                installed.add(tuple(sorted((a2, a3))))
                ops.append(f"ptk {hx(a2)} {hx(a3)} {hx(ptk2)} {1 if ccmp else 0}")
        if rng.random() < 0.05:
            ops.append(f"ptk {hx(pool[1])} {hx(pool[2])} {hx(ptk[:rng.choice([0, 16, 79, 81])])} 1")
        for (h, pt, ok, use, fc, idx, t) in plan:
            body = bodies[idx]
            cname = "ccmp" if fc else "tkip"
            if t < 0.2:
                h2, b2 = tamper(rng, h, body, 8)
                ops.append(f"wpa {hx(h2 + b2)}")
            elif t < 0.3:
                # a header field the integrity check covers: an address bit, the fragment number, to/from-DS, the TID
                h2 = bytearray(h)
                i = rng.choice([4 + rng.randrange(18), 22])
                h2[i] ^= 1 << (rng.randrange(8) if i != 22 else rng.randrange(4))
                ops.append(f"wpa {hx(bytes(h2) + body)}")
            elif t < 0.34:
                # protected bit cleared: the frame is not WPA2-protected at all and must be left alone
                h2 = bytes([h[0], h[1] & 0xbf]) + h[2:]
                ops.append(f"wpa {hx(h2 + pt)}")
            elif t < 0.42 and fc:
                # header bits CCMP masks out of the AAD: Retry, PwrMgt, MoreData, duration, sequence number
                h2 = bytearray(h)
                h2[1] ^= rng.choice([0x08, 0x10, 0x20, 0x38])
                h2[2] ^= rng.getrandbits(8); h2[23] ^= rng.getrandbits(8); h2[22] ^= rng.getrandbits(4) << 4
                ops.append(f"wpa {hx(bytes(h2) + body)} @ enc {cname} {hx(use[32:48])} {hx(pt)} {1 if ok else 0}")
            else:
                ops.append(f"wpa {hx(h + body)} @ enc {cname} {hx(use[32:48])} {hx(pt)} {1 if ok else 0}")
        return ops
    B.cases.append(render)


def hostile_case(rng, B, lengths, ccmp, wep=False):
    """protected bodies of given lengths (zeros, ones, random) from a station whose key is known"""
    pool = [rand_bytes(rng, 6) for _ in range(3)]

    def render(bodies):
        ops = ["case"]
        key = rand_bytes(rng, 13)
        ptk = rand_bytes(rng, 80)
        if wep:
            ops.append(f"weppw {hx(pool[0])} {hx(key)}")
        else:
            ops.append(f"ptk {hx(pool[0])} {hx(pool[1])} {hx(ptk)} {1 if ccmp else 0}")
        for n in lengths:
            sub = rng.choice([0, 8])
            h = mac_header(sub, 1, 0, pool[0], pool[1], pool[2], qos=rng.randrange(16), prot=1)
            body = rng.choice([bytes(n), b"\xff" * n, rand_bytes(rng, n)])
            ops.append(f"{'wep' if wep else 'wpa'} {hx(h + body)}")
        # truncated MAC headers
        h = mac_header(8, 1, 1, pool[0], pool[1], pool[2], pool[0], qos=3)
        for n in rng.sample(range(len(h) + 1), 4):
            ops.append(f"{'wep' if wep else 'wpa'} {hx(h[:n])}")
        return ops
    B.cases.append(render)


# ----------------------------------------------------------------------------- four-way handshakes

PKE_LABEL = b"Pairwise key expansion"


def prf512(pmk, aa, spa, anonce, snonce):
    b = min(aa, spa) + max(aa, spa) + min(anonce, snonce) + max(anonce, snonce)
    out = b""
    for i in range(4):
        out += hmac.new(pmk, PKE_LABEL + b"\0" + b + bytes([i]), hashlib.sha1).digest()
    return out[:80]


def eapol_key(ver, info, keylen, replay, nonce, keydata, kck=None, desc=2, eapol_ver=1):
    body = bytes([desc]) + info.to_bytes(2, "big") + keylen.to_bytes(2, "big") + replay.to_bytes(8, "big") + nonce + \
        bytes(16) + bytes(8) + bytes(8) + bytes(16) + len(keydata).to_bytes(2, "big") + keydata
    fr = bytes([eapol_ver, 3]) + len(body).to_bytes(2, "big") + body
    if kck is not None:
        mic = hmac.new(kck, fr, hashlib.sha1 if ver == 2 else hashlib.md5).digest()[:16]
        fr = fr[:81] + mic + fr[97:]
    return fr


SNAP_EAPOL = bytes([0xaa, 0xaa, 3, 0, 0, 0, 0x88, 0x8e])


class Attempt:
    """one run of the four-way handshake between `sta` and the AP `bssid`"""

    def __init__(self, rng, bssid, sta, pmk, ccmp, qos):
        self.rng, self.bssid, self.sta, self.ccmp = rng, bssid, sta, ccmp
        self.anonce, self.snonce = rand_bytes(rng, 32), rand_bytes(rng, 32)
        self.ptk = prf512(pmk, bssid, sta, self.anonce, self.snonce)
        self.ver = 2 if ccmp else 1
        self.replay = rng.randrange(1, 1000)
        self.sub = 8 if qos else 0
        self.seq = rng.randrange(4096)
        self.desc = rng.choice([2, 2, 2, 254])          # RSN or WPA key descriptor

    def hdr(self, from_ap):
        self.seq = (self.seq + 1) % 4096
        if from_ap:
            return mac_header(self.sub, 0, 1, self.sta, self.bssid, self.bssid, seq=self.seq, qos=self.rng.randrange(8), prot=0)
        return mac_header(self.sub, 1, 0, self.bssid, self.sta, self.bssid, seq=self.seq, qos=self.rng.randrange(8), prot=0)

    def msg(self, n, kck_override=None, replay_inc=0):
        v, kl = self.ver, (16 if self.ccmp else 32)
        kck = kck_override if kck_override is not None else self.ptk[:16]
        rsn_ie = bytes([0x30, 0x14, 1, 0, 0, 0x0f, 0xac, 4 if self.ccmp else 2, 1, 0, 0, 0x0f, 0xac, 4 if self.ccmp else 2,
                        1, 0, 0, 0x0f, 0xac, 2, 0, 0])
        if n == 1:
            e = eapol_key(v, v | 0x08 | 0x80, kl, self.replay + replay_inc, self.anonce, b"", desc=self.desc)
        elif n == 2:
            e = eapol_key(v, v | 0x08 | 0x100, kl, self.replay + replay_inc, self.snonce, rsn_ie, kck, desc=self.desc)
        elif n == 3:
            e = eapol_key(v, v | 0x08 | 0x40 | 0x80 | 0x100 | 0x200 | 0x1000, kl, self.replay + 1 + replay_inc, self.anonce,
                          rand_bytes(self.rng, 56), kck, desc=self.desc)
        else:
            e = eapol_key(v, v | 0x08 | 0x100 | 0x200, kl, self.replay + 1 + replay_inc, bytes(32), b"", kck, desc=self.desc)
        return self.hdr(n in (1, 3)) + SNAP_EAPOL + e


def beacon_frame(rng, bssid, ssid, with_ssid=True, extra_first=False):
    h = bytes([0x80, 0x00, 0, 0]) + b"\xff" * 6 + bssid + bssid + (rng.randrange(4096) << 4).to_bytes(2, "little")
    fixed = rand_bytes(rng, 8) + (100).to_bytes(2, "little") + (0x0411).to_bytes(2, "little")
    tags = b""
    if extra_first:
        tags += bytes([1, 4, 0x82, 0x84, 0x8b, 0x96])
    if with_ssid:
        tags += bytes([0, len(ssid)]) + ssid
    tags += bytes([3, 1, rng.randrange(1, 12)])
    if rng.random() < 0.3:
        tags += bytes([0, 3]) + b"xyz"           # a second SSID element: the first one counts
    return h + fixed + tags


def handshake_case(rng, B):
    """PSK/SSID learning + key learning over a handshake history, then traffic under the learned keys"""
    ssid = rand_bytes(rng, rng.choice([0, 1, 6, 8, 32])) if rng.random() < 0.3 else rng.choice([b"Coherer", b"test-net", b"a"])
    psk = rng.choice([b"Induction", b"password1234", rand_bytes(rng, rng.randint(8, 20))])
    pmk = hashlib.pbkdf2_hmac("sha1", psk, ssid, 4096, 32)
    bssid, staA, staB, other = [rand_bytes(rng, 6) for _ in range(4)]
    if rng.random() < 0.25:
        # station addresses that share a prefix of 5 / 3 / 0 octets with the BSSID, on either side of it
        staA = bssid[:5] + bytes([bssid[5] ^ rng.choice([1, 0x80])])
        staB = bssid[:3] + rand_bytes(rng, 3)
    kind = rng.choice(["valid", "valid", "valid", "restart", "m1-again", "wrong-psk", "missing-m3", "reorder", "no-ap",
                       "rekey", "rekey", "grammar", "grammar", "grammar", "close-nonces", "bad-mic"])
    two = rng.random() < 0.35
    ops = ["case"]
    evs = []          # (frame bytes, annotation or None)
    ap_known = kind != "no-ap"
    how = rng.random()
    if ap_known:
        if how < 0.45:
            ops.append(f"apaddr {hx(psk)} {hx(ssid)} {hx(bssid)} pmk={hx(pmk)}")
        else:
            ops.append(f"apdata {hx(psk)} {hx(ssid)} pmk={hx(pmk)}")
            if rng.random() < 0.3:
                ops.append(f"wpa {hx(beacon_frame(rng, bssid, ssid, with_ssid=False))}")     # no SSID element: ignored
            if rng.random() < 0.3:
                ops.append(f"wpa {hx(beacon_frame(rng, other, b'someone-else'))}")
            ops.append(f"wpa {hx(beacon_frame(rng, bssid, ssid, extra_first=rng.random() < 0.5))}")
            if rng.random() < 0.3:
                ops.append(f"wpa {hx(beacon_frame(rng, bssid, ssid))}")                      # seen again: no second callback
        if rng.random() < 0.2:
            ops.append(f"apdata {hx(b'another-psk')} {hx(ssid)} pmk={hx(hashlib.pbkdf2_hmac('sha1', b'another-psk', ssid, 4096, 32))}")
    else:
        ops.append(f"apdata {hx(psk)} {hx(ssid)} pmk={hx(pmk)}")      # network known, this BSSID never announced

    def history(sta, ccmp):
        """list of (frame, learn-annotation or None); returns the attempt whose keys end up installed (or None)"""
        seq = []
        dup = lambda: rng.choice([1, 1, 1, 2, 3])
        att = Attempt(rng, bssid, sta, pmk, ccmp, qos=rng.random() < 0.3)
        if kind == "restart":
            for _ in range(rng.randint(1, 2)):
                old = Attempt(rng, bssid, sta, pmk, ccmp, qos=False)
                if rng.random() < 0.5:
                    # the abandoned attempt and the real one use the SAME replay counter (an AP that restarts its counter
                    # on re-association): the counter does not identify an attempt, the nonces do (seeded/C09e)
                    old.replay = att.replay
                upto = rng.choice([1, 2, 3])
                for n in range(1, upto + 1):
                    seq += [(old.msg(n), None)] * dup()
        if kind == "rekey" and ap_known:
            # one or two COMPLETE earlier handshakes of the same pair (re-association / PTK rekey, fresh nonces each time):
            # every completion is learned and the keys of the LAST one are the ones installed (seeded/C09d)
            for _ in range(rng.randint(1, 2)):
                old = Attempt(rng, bssid, sta, pmk, rng.random() < 0.6, qos=False)
                for n in (1, 2, 3):
                    seq += [(old.msg(n), None)] * dup()
                seq += [(old.msg(4), ("learn", old))]
        if kind == "grammar":
            # a random word of ( M1+ [ M2+ [ M3+ [ M4+ ] ] ] )* : attempts cut at any stage, every message possibly
            # retransmitted (message 4 too), attempts that share a replay counter, the pair running the handshake
            # several times; the keys of the LAST completed attempt are the ones installed
            last, prev = None, None
            for _ in range(rng.randint(1, 4)):
                a = Attempt(rng, bssid, sta, pmk, rng.random() < 0.6, qos=rng.random() < 0.3)
                if prev is not None and rng.random() < 0.4:
                    a.replay = prev.replay
                for n in range(1, rng.choice([1, 2, 3, 4, 4, 4]) + 1):
                    c = dup()
                    if n == 4:
                        seq += [(a.msg(4), ("learn", a) if ap_known else None)] + [(a.msg(4), None)] * (c - 1)
                        last = a
                    else:
                        seq += [(a.msg(n), None)] * c
                prev = a
            return seq, (last if ap_known else None)
        if kind == "close-nonces":
            # addresses / nonces that agree on a long prefix, or are equal: the Min / Max of the key derivation is decided
            # by a late octet (or not at all)
            cut = rng.choice([31, 31, 16, 1, 32])
            att.snonce = att.anonce[:cut] + (rand_bytes(rng, 32 - cut) if cut < 32 else b"")
            if rng.random() < 0.3:
                att.snonce = att.snonce[:-1] + bytes([att.snonce[-1] ^ 0x80]) if cut < 32 else att.snonce
            att.ptk = prf512(pmk, bssid, sta, att.anonce, att.snonce)
        if kind == "m1-again":
            seq += [(att.msg(1), None), (att.msg(2), None)]
            seq += [(att.msg(1, replay_inc=1), None)]
            seq += [(att.msg(2, replay_inc=1), None)] * dup()
            seq += [(att.msg(3, replay_inc=1), None)] * dup()
            seq += [(att.msg(4, replay_inc=1), "learn")]
            return seq, att
        if kind == "wrong-psk":
            bad = hashlib.pbkdf2_hmac("sha1", b"not-the-psk", ssid, 4096, 32)
            att = Attempt(rng, bssid, sta, bad, ccmp, qos=False)
            for n in (1, 2, 3):
                seq += [(att.msg(n), None)] * dup()
            seq += [(att.msg(4), "nolearn")]
            return seq, None
        if kind == "bad-mic":
            # a complete, well-ordered handshake whose message 4 carries a Key MIC that is wrong in a single octet
            # (every position, the last one most often): nothing may be learned
            for n in (1, 2, 3):
                seq += [(att.msg(n), None)] * dup()
            m4 = bytearray(att.msg(4))
            off = len(m4) - (99 - 81) + rng.choice([15, 15, 15, 0, rng.randrange(16)])
            m4[off] ^= 1 << rng.randrange(8)
            seq += [(bytes(m4), "nolearn")]
            return seq, None
        if kind == "missing-m3":
            seq += [(att.msg(1), None), (att.msg(2), None), (att.msg(4), None)]
            return seq, None
        if kind == "reorder":
            order = rng.choice([[2, 1, 3, 4], [1, 3, 2, 4], [1, 2, 4, 3]])
            for n in order:
                seq += [(att.msg(n), None)]
            return seq, None
        for n in (1, 2, 3):
            seq += [(att.msg(n), None)] * dup()
        seq += [(att.msg(4), "learn" if ap_known else None)]
        if rng.random() < 0.2:
            seq += [(att.msg(4), None)]                                   # message 4 retransmitted: nothing to complete
        return seq, (att if ap_known else None)

    ccmpA, ccmpB = rng.random() < 0.6, rng.random() < 0.6
    hA, attA = history(staA, ccmpA)
    hB, attB = (history(staB, ccmpB) if two else ([], None))
    # interleave the two histories, beacons and unrelated data frames
    merged = []
    ia = ib = 0
    while ia < len(hA) or ib < len(hB):
        if ib >= len(hB) or (ia < len(hA) and rng.random() < 0.5):
            merged.append((staA, attA) + hA[ia]); ia += 1
        else:
            merged.append((staB, attB) + hB[ib]); ib += 1
        r = rng.random()
        if r < 0.1:
            merged.append((None, None, beacon_frame(rng, bssid, ssid), None))
        elif r < 0.2:
            h = mac_header(0, 1, 0, bssid, other, bssid, prot=1)
            merged.append((None, None, h + rand_bytes(rng, rng.randint(0, 40)), None))
    for sta, att, frame, ann in merged:
        line = f"wpa {hx(frame)}"
        if isinstance(ann, tuple):
            line += f" @ learn {hx(bssid)} {hx(sta)} {hx(ann[1].ptk)} {1 if ann[1].ccmp else 0}"
        elif ann == "learn" and att is not None:
            line += f" @ learn {hx(bssid)} {hx(sta)} {hx(att.ptk)} {1 if att.ccmp else 0}"
        elif ann == "nolearn":
            line += " @ nolearn"
        ops.append(line)
    learned = [(staA, attA)] + ([(staB, attB)] if two else [])
    for sta, att in learned:
        if att is not None:
            lo, hi = sorted([bssid, sta])
            ops.append(f"keys @ expect {hx(lo)}{hx(hi)}:{1 if att.ccmp else 0}:{hx(att.ptk)}")
    # traffic under the learned keys
    plan = []
    for sta, att in learned:
        if att is None:
            continue
        for _ in range(rng.randint(1, 3)):
            tods = rng.random() < 0.5
            peer = rng.choice([other] + ([staB if sta == staA else staA] if two else []))
            sub = rng.choice([0, 8])
            qos = rng.randrange(16)
            h = mac_header(sub, 1, 0, bssid, sta, peer, seq=rng.randrange(4096), qos=qos) if tods else \
                mac_header(sub, 0, 1, sta, bssid, peer, seq=rng.randrange(4096), qos=qos)
            pt, ok = gen_plaintext(rng, False)
            pn = rng.getrandbits(rng.choice([8, 16, 32, 48]))
            if att.ccmp:
                idx = B.want(f"ccmpenc {hx(att.ptk[32:48])} {hx(h)} {pn} 0 {hx(pt)}")
            else:
                mickey = att.ptk[56:64] if tods else att.ptk[48:56]
                da, sa = (peer, sta) if tods else (sta, peer)
                prio = (qos & 0x0f) if sub & 8 else 0
                idx = B.want(f"tkipenc {hx(att.ptk[32:48])} {hx(mickey)} {hx(h[10:16])} {hx(da)} {hx(sa)} {prio} {pn} 0 {hx(pt)}")
            plan.append((h, pt, ok, att, idx))

    def render(bodies):
        out = list(ops)
        for h, pt, ok, att, idx in plan:
            out.append(f"wpa {hx(h + bodies[idx])} @ enc {'ccmp' if att.ccmp else 'tkip'} {hx(att.ptk[32:48])} {hx(pt)} {1 if ok else 0}")
        return out
    B.cases.append(render)


def parse_case(rng, B):
    """the parsers the key learning depends on, fed mostly-valid and malformed input: EAPOL-Key frames whose length
    fields lie, truncated / extended frames, other descriptor types; beacons whose tagged parameters are cut, run past
    the end, lack / repeat the SSID, or carry a fourth address"""
    ssid = rng.choice([b"Coherer", b"", b"x" * 32])
    psk = b"Induction"
    pmk = hashlib.pbkdf2_hmac("sha1", psk, ssid, 4096, 32)
    bssid, sta = rand_bytes(rng, 6), rand_bytes(rng, 6)
    ops = ["case", f"apdata {hx(psk)} {hx(ssid)} pmk={hx(pmk)}"]
    # beacons
    for _ in range(rng.randint(3, 6)):
        fc1 = rng.choice([0, 0, 0, 3, 1, 2, 0x40])
        a3 = rng.choice([bssid, rand_bytes(rng, 6)])
        h = bytes([0x80, fc1, 0, 0]) + b"\xff" * 6 + a3 + a3 + bytes(2) + (rand_bytes(rng, 6) if fc1 & 3 == 3 else b"")
        fixed = rand_bytes(rng, 12)
        tags = []
        for _ in range(rng.randint(0, 4)):
            tid = rng.choice([0, 0, 1, 3, 48, 221, rng.randrange(256)])
            data = ssid if tid == 0 and rng.random() < 0.6 else rand_bytes(rng, rng.choice([0, 1, 3, 8, 32, 255]))
            tags.append(bytes([tid, len(data)]) + data)
        t = b"".join(tags)
        k = rng.random()
        if k < 0.2 and t:
            t = t[:rng.randrange(len(t))]                         # cut inside an element
        elif k < 0.3:
            t += bytes([rng.choice([0, 7])])                      # a lone trailing octet
        elif k < 0.4:
            t += bytes([rng.choice([0, 7]), rng.randrange(1, 256)]) + rand_bytes(rng, rng.randrange(0, 3))   # length past the end
        f = h + fixed + t
        if rng.random() < 0.15:
            f = f[:rng.randrange(10, len(h) + 13)]
        ops.append(f"wpa {hx(f)}")
    # EAPOL-Key frames
    att = Attempt(rng, bssid, sta, pmk, rng.random() < 0.6, qos=rng.random() < 0.3)
    for _ in range(rng.randint(4, 8)):
        n = rng.choice([1, 2, 3, 4])
        fr = att.msg(n)
        hl = 24 + (2 if att.sub else 0) + 8
        hdr, e = fr[:hl], bytearray(fr[hl:])
        true_len = len(e) - 4
        kdl = int.from_bytes(e[97:99], "big")
        k = rng.random()
        if k < 0.25:
            e[2:4] = rng.choice([0, 1, 90, 94, 95, max(0, true_len - 1), true_len + 1, 0xffff]).to_bytes(2, "big")
        elif k < 0.45:
            e[97:99] = rng.choice([0, max(0, kdl - 1), kdl + 1, 0xffff]).to_bytes(2, "big")
        elif k < 0.6:
            e = e[:rng.randrange(len(e))]
        elif k < 0.7:
            extra = rand_bytes(rng, rng.randint(1, 9))
            if rng.random() < 0.5:
                e[2:4] = (true_len + len(extra)).to_bytes(2, "big")      # inside the EAPOL length: a trailing RawPDU
            e += extra
        elif k < 0.8:
            e[4] = rng.choice([0, 3, 254, 2, 255])
        elif k < 0.85:
            e[1] = rng.choice([0, 1, 4])
        elif k < 0.92:
            e[5] ^= 1 << rng.randrange(8); e[6] ^= rng.choice([0x08, 0x40, 0x80, 0x07])     # key information bits
        ops.append(f"wpa {hx(hdr + bytes(e))}")
    B.cases.append(lambda bodies: ops)


def regression_case(rng, B):
    """one deterministic trigger per defect fixed in libtins (KF-C09-1,2,3,5,6), so that a regression is seen at every seed"""
    bssid, staX, staY = [rand_bytes(rng, 6) for _ in range(3)]
    ptk, ptk2 = rand_bytes(rng, 80), rand_bytes(rng, 80)
    good = bytes([0xaa, 0xaa, 3, 0, 0, 0, 0x88, 0xb5]) + rand_bytes(rng, 21)
    arp_short = bytes([0xaa, 0xaa, 3, 0, 0, 0, 0x08, 0x06]) + rand_bytes(rng, 9)
    tiny = bytes([0xaa, 0xaa, 3])
    h = mac_header(0, 1, 0, bssid, staX, staY, seq=7)
    reqs = []
    # KF-C09-2: plaintext that is not LLC/SNAP, TKIP and CCMP
    for pt in (tiny, arp_short):
        reqs.append(("tkip", h, pt, False, B.want(f"tkipenc {hx(ptk[32:48])} {hx(ptk[56:64])} {hx(staX)} {hx(staY)} {hx(staX)} 0 9 0 {hx(pt)}")))
        reqs.append(("ccmp", h, pt, False, B.want(f"ccmpenc {hx(ptk[32:48])} {hx(h)} 9 0 {hx(pt)}")))
    # KF-C09-3: TSC with four different upper bytes
    reqs.append(("tkip", h, good, True, B.want(f"tkipenc {hx(ptk[32:48])} {hx(ptk[56:64])} {hx(staX)} {hx(staY)} {hx(staX)} 0 {0x0a0b0c0d0e0f} 0 {hx(good)}")))
    # KF-C09-5: QoS Data + CF-Ack / + CF-Ack + CF-Poll
    for sub in (9, 11):
        hq = mac_header(sub, 1, 0, bssid, staX, staY, seq=8, qos=5)
        reqs.append(("ccmp", hq, good, True, B.want(f"ccmpenc {hx(ptk[32:48])} {hx(hq)} 77 0 {hx(good)}")))
    # KF-C09-6: from-DS frame to X whose original source Y has its own keys
    hs = mac_header(0, 0, 1, staX, bssid, staY, seq=9)
    reqs.append(("ccmp", hs, good, True, B.want(f"ccmpenc {hx(ptk[32:48])} {hx(hs)} 78 0 {hx(good)}")))

    def render(bodies):
        ops = ["case", f"ptk {hx(bssid)} {hx(staX)} {hx(ptk)} 0", f"ptk {hx(bssid)} {hx(staY)} {hx(ptk2)} 0"]
        for c, hh, pt, ok, idx in reqs:
            if c == "tkip":
                ops.append(f"wpa {hx(hh + bodies[idx])} @ enc tkip {hx(ptk[32:48])} {hx(pt)} {1 if ok else 0}")
        ops += ["case", f"ptk {hx(bssid)} {hx(staX)} {hx(ptk)} 1", f"ptk {hx(bssid)} {hx(staY)} {hx(ptk2)} 1"]
        for c, hh, pt, ok, idx in reqs:
            if c == "ccmp":
                ops.append(f"wpa {hx(hh + bodies[idx])} @ enc ccmp {hx(ptk[32:48])} {hx(pt)} {1 if ok else 0}")
        # KF-C09-1: CCMP bodies shorter than header + MIC
        for n in (1, 7, 8, 15, 16):
            ops.append(f"wpa {hx(h + bytes(n))}")
        return ops
    B.cases.append(render)


def tag_case(rng, B):
    """every byte of every integrity tag (WEP ICV, TKIP ICV, CCMP MIC) and of the IV / PN is covered by a check:
    one frame per cipher, then one single-bit flip per such byte"""
    bssid, sta, da = [rand_bytes(rng, 6) for _ in range(3)]
    ptk = rand_bytes(rng, 80)
    key = rand_bytes(rng, rng.choice([5, 13]))
    h = mac_header(rng.choice([0, 8]), 1, 0, bssid, sta, da, seq=rng.randrange(4096), qos=rng.randrange(16))
    pt = bytes([0xaa, 0xaa, 3, 0, 0, 0, 0x88, 0xb5]) + rand_bytes(rng, rng.randint(1, 40))
    prio = (h[24] & 0x0f) if h[0] & 0x80 else 0
    iw = B.want(f"wepenc {hx(key)} {hx(rand_bytes(rng, 3))} 0 {hx(pt)}")
    it = B.want(f"tkipenc {hx(ptk[32:48])} {hx(ptk[56:64])} {hx(sta)} {hx(da)} {hx(sta)} {prio} {rng.getrandbits(48)} 0 {hx(pt)}")
    ic = B.want(f"ccmpenc {hx(ptk[32:48])} {hx(h)} {rng.getrandbits(48)} 0 {hx(pt)}")

    def render(bodies):
        ops = []
        for op, setup, body, positions in (
                ("wep", f"weppw {hx(bssid)} {hx(key)}", bodies[iw], [0, 1, 2] + list(range(len(bodies[iw]) - 4, len(bodies[iw])))),
                ("wpa", f"ptk {hx(bssid)} {hx(sta)} {hx(ptk)} 0", bodies[it], [0, 2, 4, 5, 6, 7] + list(range(len(bodies[it]) - 4, len(bodies[it])))),
                ("wpa", f"ptk {hx(bssid)} {hx(sta)} {hx(ptk)} 1", bodies[ic], [0, 1, 4, 5, 6, 7] + list(range(len(bodies[ic]) - 8, len(bodies[ic]))))):
            ops += ["case", setup]
            for i in positions:
                b = bytearray(body); b[i] ^= 1 << rng.randrange(8)
                ops.append(f"{op} {hx(h + bytes(b))}")
        return ops
    B.cases.append(render)


def michael_case(rng, B):
    """KF-C09-4, reproduced on every run: TKIP frames whose ICV verifies and whose Michael MIC does not —
    (a) the destination address changed in the header, (b) payload bits flipped with the CRC-linear ICV fix-up"""
    import zlib
    bssid, sta, da = [rand_bytes(rng, 6) for _ in range(3)]
    ptk = rand_bytes(rng, 80)
    h = mac_header(0, 1, 0, bssid, sta, da, seq=rng.randrange(4096))
    pt = bytes([0xaa, 0xaa, 3, 0, 0, 0, 0x88, 0xb5]) + rand_bytes(rng, rng.randint(4, 40))
    idx = B.want(f"tkipenc {hx(ptk[32:48])} {hx(ptk[56:64])} {hx(sta)} {hx(da)} {hx(sta)} 0 {rng.randrange(1, 2**32)} 0 {hx(pt)}")

    def render(bodies):
        body = bodies[idx]
        ops = ["case", f"ptk {hx(bssid)} {hx(sta)} {hx(ptk)} 0",
               f"wpa {hx(h + body)} @ enc tkip {hx(ptk[32:48])} {hx(pt)} 1"]
        h2 = bytearray(h); h2[16 + rng.randrange(6)] ^= 1 << rng.randrange(8)          # DA is addr3 of a to-DS frame
        ops += ["case", f"ptk {hx(bssid)} {hx(sta)} {hx(ptk)} 0", f"wpa {hx(bytes(h2) + body)}"]
        L = len(pt) + 8
        d = bytearray(L); d[8 + rng.randrange(len(pt) - 8)] ^= 1 << rng.randrange(8)
        fix = zlib.crc32(bytes(d)) ^ zlib.crc32(bytes(L))
        delta = bytes(8) + bytes(d) + fix.to_bytes(4, "little")
        forged = bytes(a ^ b for a, b in zip(body, delta))
        ops += ["case", f"ptk {hx(bssid)} {hx(sta)} {hx(ptk)} 0", f"wpa {hx(h + forged)}"]
        return ops
    B.cases.append(render)


def htc_case(rng, B):
    """KF-C09-8, reproduced on every run: +HTC frames (QoS Data with the Order bit, HT Control field behind the QoS
    control) protected by the independent encryptors as IEEE 802.11 lays them out — HT Control outside the AAD, Order
    bit masked — next to the same frames without the HT Control field, which libtins decrypts"""
    bssid, sta, da = [rand_bytes(rng, 6) for _ in range(3)]
    ptk = rand_bytes(rng, 80)
    key = rand_bytes(rng, 13)
    pt = bytes([0xaa, 0xaa, 3, 0, 0, 0, 0x88, 0xb5]) + rand_bytes(rng, rng.randint(1, 40))
    qos = rng.randrange(16)
    seq = rng.randrange(4096)
    plain = mac_header(8, 1, 0, bssid, sta, da, seq=seq, qos=qos)
    htc = mac_header(8, 1, 0, bssid, sta, da, seq=seq, qos=qos, order=1, htc=rng.choice([bytes(4), rand_bytes(rng, 4)]))
    pn = rng.getrandbits(48)
    ic0 = B.want(f"ccmpenc {hx(ptk[32:48])} {hx(plain)} {pn} 0 {hx(pt)}")
    ic1 = B.want(f"ccmpenc {hx(ptk[32:48])} {hx(htc)} {pn} 0 {hx(pt)}")
    it = B.want(f"tkipenc {hx(ptk[32:48])} {hx(ptk[56:64])} {hx(sta)} {hx(da)} {hx(sta)} {qos} {pn} 0 {hx(pt)}")
    iw = B.want(f"wepenc {hx(key)} {hx(rand_bytes(rng, 3))} 0 {hx(pt)}")

    def render(bodies):
        ops = []
        for hdr, tag in ((plain, "plain"), (htc, "htc")):
            ops += ["case", f"ptk {hx(bssid)} {hx(sta)} {hx(ptk)} 1",
                    f"wpa {hx(hdr + bodies[ic1 if tag == 'htc' else ic0])} @ enc ccmp {hx(ptk[32:48])} {hx(pt)} 1"]
            ops += ["case", f"ptk {hx(bssid)} {hx(sta)} {hx(ptk)} 0",
                    f"wpa {hx(hdr + bodies[it])} @ enc tkip {hx(ptk[32:48])} {hx(pt)} 1"]
            ops += ["case", f"weppw {hx(bssid)} {hx(key)}", f"wep {hx(hdr + bodies[iw])} @ enc wep {hx(key)} {hx(pt)} 1"]
        return ops
    B.cases.append(render)


def aes_ops(rng, n):
    ops = ["case", "aes 000102030405060708090a0b0c0d0e0f 00112233445566778899aabbccddeeff"]
    for _ in range(n):
        ops.append(f"aes {hx(rand_bytes(rng, 16))} {hx(rand_bytes(rng, 16))}")
    return ops


def gen_ops(rng, tier, exe):
    B = Builder(exe)
    quick = tier == "quick"
    n = 260 if quick else 6000
    for i in range(n):
        wep_case(rng, B, big=(i % 10 == 0))
    for i in range(int(n * 1.6)):
        wpa_case(rng, B, big=(i % 10 == 0), shadow=(i % 9 == 4))
    for ccmp in (True, False):
        hostile_case(rng, B, list(range(0, 66)), ccmp)
        for _ in range(2 if quick else 30):
            hostile_case(rng, B, [rng.randint(0, 2400) for _ in range(12)], ccmp)
    hostile_case(rng, B, list(range(0, 40)), False, wep=True)
    for i in range(140 if quick else 3500):
        handshake_case(rng, B)
    for i in range(40 if quick else 1000):
        parse_case(rng, B)
    for i in range(2 if quick else 20):
        michael_case(rng, B)
    for i in range(2 if quick else 20):
        htc_case(rng, B)
    for i in range(3 if quick else 60):
        tag_case(rng, B)
    regression_case(rng, B)
    return aes_ops(rng, 20 if quick else 400) + B.run()


# ----------------------------------------------------------------------------- classification / signatures

def classify(op, impl):
    w = op.split(" ")
    if w[0] not in ("wep", "wpa"):
        return w[0]
    tag = w[0]
    if "@" in w:
        a = w[w.index("@") + 1:]
        if a and a[0] == "enc" and len(a) >= 2:
            tag += ":" + a[1] + (":snapok" if w[-1] == "1" else ":not-snap")
        elif a:
            tag += ":" + a[0]
    else:
        tag += ":unannotated"
    if " ev=hs:" in impl or ",hs:" in impl:
        tag += ":keys-learned"
    if " ev=ap:" in impl:
        tag += ":ap-found"
    if " cap=1" in impl:
        tag += ":handshake-complete"
    if impl.startswith("r=1"):
        tag += ":decrypted"
    elif impl.startswith("parse-throw"):
        tag += ":parse-throw"
    else:
        tag += ":rejected"
    return tag


def frame_facts(op):
    """facts about the frame of a `wep`/`wpa` op used in signatures"""
    w = op.split(" ")
    try:
        f = bytes.fromhex(w[1]) if w[1] != "-" else b""
    except (ValueError, IndexError):
        return {}
    if len(f) < 2:
        return {"short": True}
    sub = f[0] >> 4
    tods, fromds = f[1] & 1, (f[1] >> 1) & 1
    hl = 24 + (6 if tods and fromds else 0) + (2 if sub > 4 else 0)
    return {"subtype": sub, "tods": tods, "fromds": fromds, "bodylen": max(0, len(f) - hl),
            "htc": bool(f[0] & 0x80 and f[1] & 0x80)}


def sig_of(kind, detail, case):
    op = case[-1] if case else ""
    w = op.split(" ")
    sig = {"kind": kind, "op": w[0] if w else ""}
    ff = frame_facts(op) if w and w[0] in ("wep", "wpa") else {}
    ann = w[w.index("@") + 1:] if "@" in w else []
    cipher = ann[1] if len(ann) >= 2 and ann[0] == "enc" else ""
    if kind == "spec":
        d = detail.split(" ")
        sig["clause"] = d[1] if len(d) > 1 else ""
        sig["cipher"] = cipher
        if sig["clause"] == "roundtrip":
            sig["htc"] = bool(ff.get("htc"))
            sig["qos_cf"] = ff.get("subtype") in (9, 10, 11)
            sig["fromds_only"] = bool(ff.get("fromds") and not ff.get("tods"))
    elif kind == "fault":
        sig["where"] = detail.split("@")[-1][:60] if "@" in detail else detail[:60]
        sig["short_body"] = ff.get("bodylen", 99) < 16
    return sig


def nontrivial(op, impl):
    w = op.split(" ")
    if w[0] in ("wep", "wpa"):
        return (op.split(" @ ")[0], impl[:40])
    return None


def run(chk):
    from translator import gen_c09
    gen_c09.main([])
    problems = chk.prove(MODULES, AUDIT, want_leanchecker=(chk.tier == "thorough"))
    exe, err = core.build_harness(HARNESS)
    if exe is None:
        chk.violation("implementation does not build: " + err[-1500:], ["build-error"], nofail=True)
        return
    rng = random.Random(chk.seed)
    ops = gen_ops(rng, chk.tier, exe)
    stats = corr.correspond(chk, AREA, exe, ops, case_start=CASE_START, classify=classify, sig_of=sig_of,
                            nontrivial=nontrivial)
    for p in problems:
        found = stats.get("spec", 0) + stats.get("fault", 0)
        if not found:
            chk.violation("proof obligation no longer checks: " + p[:1500], ["theorem-or-audit-failure", p[:4000]], nofail=True)
    chk.cov["rule"] = ("cases = (installed keys, frames): frames from the independent encryptor (WEP-40/104/other key "
                       "lengths, TKIP, CCMP; to/from-DS, IBSS, 4-address, QoS yes/no, Data+CF subtypes; payload lengths "
                       "0..2300 incl. every residue mod 16), wrong key / wrong cipher, tampered cipher text, tag, IV/PN and "
                       "header fields, masked header bits, protected bodies of every length 0..65 and random up to 2400, "
                       "truncated headers; handshake histories = random words of the grammar (retransmissions, abandoned "
                       "attempts sharing replay counters, re-handshakes), two pairs interleaved with beacons and data frames, "
                       "out-of-grammar orders, wrong PSK, close / equal addresses and nonces; malformed EAPOL-Key frames "
                       "(lying length fields, truncation, extension, other descriptors) and beacons (cut / overlong elements, "
                       "missing / repeated SSID, fourth address); +HTC frames; distinct_nontrivial counts distinct (frame, "
                       "result) pairs")
    chk.assumptions += [
        "AES-128, SHA-1, MD5, PBKDF2 are trusted primitives (OpenSSL in libtins and in the reference encryptor; the Lean AES is "
        "validated against OpenSSL on every run; CCMP theorems hold for every block function)",
        "add_ap_data with a second PSK for an SSID already registered keeps the first one (std::map::insert): taken as the API",
        "key descriptor versions other than 1 and 2 (3 = AES-128-CMAC) are outside the key-derivation specification; libtins "
        "treats them like version 1 (theorem derive_keys_other_versions)",
        "CCMP in-place write (8 bytes behind the read position) is modelled by the bytes written; the scrambled buffer of a "
        "rejected frame is compared by the correspondence",
        "4-address (WDS) WEP frames: the password is looked up under addr3 as libtins defines it",
        "inner PDU parsers below SNAP are a parameter of the model (instantiated for ARP and unknown ether types)",
    ]
    chk.extra["modelled_not_proved"] = [
        "LLC/SNAP parsing below Dot11Data (snapParse) and the PDUs below SNAP (a parameter of the model) are not tied to the "
        "wire family by theorems; the Dot11Data / Dot11QoSData header, RSNEAPOL parse / serialize and Dot11Beacon / tagged "
        "parameters are (data_header_parse_is_wire_model, rsneapol_parse_is_wire_model, rsneapol_serialize_is_wire_model, "
        "beacon_parse_is_wire_model)",
        "AES-128, SHA-1, MD5, HMAC, PBKDF2 themselves: parameters of every theorem; the Lean AES / SHA-1 / MD5 / HMAC run "
        "the driver and the oracle only and are validated against OpenSSL / hashlib on every run",
        "in-place aliasing of the CCMP / RC4 writes (modelled by the bytes written)",
        "+HTC frames under TKIP / WEP: the known finding KF-C09-8 is stated and refuted for CCMP (ccmp_roundtrip_full); for "
        "TKIP / WEP it is reproduced by the oracle on every run, not stated as a theorem",
    ]
    chk.extra["proved"] = [
        "crc32 = IEEE CRC-32; RC4 = textbook RC4; WEP/TKIP/CCMP decrypt refine the IEEE decapsulation for all inputs; "
        "round trips for all keys/IV/PN/payloads/header variants (CCMP for every block function); reject-unless-tag-verifies; "
        "no fault / no throw for every protected body; TKIP S-box and key mixing = IEEE; capturer completes every "
        "M1 M2+ M3+ M4 history with arbitrary prefix and interleaving; keys_learned",
        "derive_keys_is_prf512: for every keyed hash H (20-byte output) and every pair of MIC functions SessionKeys(handshake, "
        "pmk) = PRF-640(PMK, 'Pairwise key expansion', Min/Max(AA,SPA) || Min/Max(ANonce,SNonce)) with numeric Min/Max (also on "
        "equal prefixes), counter 0..3, prefixes = PRF-512 / PRF-384, accepted iff the Key MIC (HMAC-MD5 v1 / HMAC-SHA1-128 v2, "
        "MIC field zeroed, 16 octets) verifies; pmk_is_pbkdf2; message_classes_are_ieee",
        "handshake_complete_all_histories / keys_after_valid_history / keys_are_last_attempt: for every history accepted by "
        "the grammar (M1+ [M2+ [M3+ [M4+]]])* per pair — retransmissions, abandoned attempts whatever their replay counters, "
        "re-handshakes — with beacons, data frames, other pairs' handshakes and non-handshake EAPOL frames interleaved, from "
        "any capturer state: the capturer hands over exactly the completed attempts and the key-table entry is the session "
        "keys of the last completed attempt that verifies",
        "data_header_parse_is_wire_model, rsneapol_parse_is_wire_model, rsneapol_serialize_is_wire_model, "
        "beacon_parse_is_wire_model: the parsing models under the handshake theorems equal the Wifi wire family's byte-level "
        "models on every byte string; kdf_source_literals: the literals the translator reads from the source are the model's",
    ]
    chk.extra["known_finding_theorems"] = {
        "KF-C09-4": ["tkip_reject_full (def)", "tkip_reject_full_fails", "tkip_reject_partial"],
        "KF-C09-8": ["ccmp_roundtrip_full (def)", "ccmp_roundtrip_full_fails", "ccmp_roundtrip_partial"]}
    chk.trusted += ["correspondence harness harness/c09_crypto.cpp, reference encryptors harness/c09_ref.h, generators in checks/C09.py",
                    "translator/gen_c09.py (CRC table, TKIP S-box, guard literals from the source)",
                    "g++ 12 / ASan+UBSan build of the repo's working tree; OpenSSL AES_encrypt"]
    corr.finalize_cov(chk)


def replay(path):
    exe, err = core.build_harness(HARNESS)
    ops = [l.rstrip("\n") for l in open(path) if not l.startswith("#") and l.strip()]
    impl, mod, spec, faults = corr.evaluate(AREA, exe, ops, CASE_START)
    bad = corr.first_problem(ops, impl, mod, spec)
    for o, a, b, c in zip(ops, impl, mod, spec):
        print(o[:200]); print("  impl :", a[:300]); print("  model:", b[:300]); print("  spec :", c)
    if bad:
        print(f"VIOLATION property=C09 replay={path}")
        return 1
    return 0
