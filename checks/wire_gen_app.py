"""Structured generators of the App family (BootP, DHCP, DHCPv6, RTP, VXLAN, ARP, STP) for the wire checks C01–C04.
Packets are built byte by byte here, independently of libtins.  `n` = approximate number of op lines to emit."""
from checks import wire_common as wc
import random

BOUNDARY_LENS = [0, 1, 2, 3, 4, 7, 8, 9, 15, 16, 17, 253, 254, 255]
RECOGNISED_ETHER = {0x0800, 0x86dd, 0x0806, 0x8863, 0x8864, 0x888e, 0x8100, 0x88a8, 0x9100, 0x8847}


def hexs(b):
    return bytes(b).hex() if b else "-"


def rb(rng, n):
    return bytes(rng.randrange(256) for _ in range(n))


def pick_len(rng, cap=255):
    r = rng.random()
    if r < 0.6:
        return min(cap, rng.choice(BOUNDARY_LENS))
    return rng.randint(0, min(cap, 40))


def be(v, n):
    return int(v).to_bytes(n, "big")


def unrecognised_ether(rng):
    while True:
        v = rng.choice([0, 0x1234, 0x9000, 0x0500, 0xffff, rng.randrange(65536)])
        if v not in RECOGNISED_ETHER:
            return v


def truncations(rng, b, k=2):
    """a few prefixes of b (every boundary is reached over many calls)"""
    return [b[:rng.randint(0, len(b))] for _ in range(k)] if b else []


# ------------------------------------------------------------------------------------------------ byte-level packets

def arp_bytes(rng):
    b = be(rng.choice([1, 6, rng.randrange(65536)]), 2) + be(rng.choice([0x0800, rng.randrange(65536)]), 2)
    b += bytes([rng.choice([6, rng.randrange(256)]), rng.choice([4, rng.randrange(256)])])
    b += be(rng.choice([1, 2, 3, 4, rng.randrange(65536)]), 2) + rb(rng, 6) + rb(rng, 4) + rb(rng, 6) + rb(rng, 4)
    if rng.random() < 0.5:
        b += rb(rng, rng.choice([1, 2, 18, rng.randint(1, 30)]))
    return b


def eth_bytes(rng, inner=None):
    if inner is None:
        k = rng.random()
        # below EthernetII only ARP (this family) or an unrecognised EtherType: chains into the other families' classes
        # are their generators' business (their open defects would only add noise here)
        if k < 0.5:
            return rb(rng, 12) + be(unrecognised_ether(rng), 2) + rb(rng, rng.choice([0, 1, 2, 46, rng.randint(0, 60)]))
        return rb(rng, 12) + be(0x0806, 2) + arp_bytes(rng)
    return rb(rng, 12) + inner


def vxlan_bytes(rng):
    k = rng.random()
    flags = rng.choice([8, 0, 0xff, rng.randrange(256)])
    resv = rb(rng, 3) if rng.random() < 0.3 else bytes(3)
    b = bytes([flags]) + resv + be(rng.choice([0, 1, 0xffffff, rng.randrange(1 << 24)]), 3)
    b += bytes([rng.randrange(256) if rng.random() < 0.3 else 0])
    if k < 0.15:
        return b
    if k < 0.3:
        return b + rb(rng, rng.randint(1, 13))          # inner EthernetII too short: malformed_packet propagates
    return b + eth_bytes(rng)


def stp_bytes(rng):
    b = be(rng.choice([0, rng.randrange(65536)]), 2) + bytes([rng.choice([0, 2, 3, rng.randrange(256)]),
                                                               rng.choice([0, 2, 0x80, rng.randrange(256)]), rng.randrange(256)])
    b += rb(rng, 8) + be(rng.randrange(1 << 32), 4) + rb(rng, 8) + be(rng.randrange(65536), 2)
    for _ in range(4):
        b += be(rng.choice([0, 0x0100, 0x1400, 0x00ff, 0xff00, 0xffff, rng.randrange(65536)]), 2)
    assert len(b) == 35
    if rng.random() < 0.4:
        b += rb(rng, rng.randint(1, 30))
    return b


def rtp_bytes(rng):
    cc = rng.choice([0, 0, 1, 2, 15, rng.randrange(16)])
    x = rng.random() < 0.4
    p = rng.random() < 0.4
    ver = rng.choice([2, 2, 2, rng.randrange(4)])
    b0 = (ver << 6) | (int(p) << 5) | (int(x) << 4) | cc
    b = bytes([b0, rng.randrange(256)]) + be(rng.randrange(65536), 2) + be(rng.randrange(1 << 32), 4) + be(rng.randrange(1 << 32), 4)
    ncs = cc if rng.random() < 0.9 else rng.randint(0, cc)        # sometimes fewer CSRC words than announced
    b += b"".join(be(rng.choice([0, 1, 0xffffffff, rng.randrange(1 << 32)]), 4) for _ in range(ncs))
    if x:
        ln = rng.choice([0, 0, 1, 2, 3, rng.randint(0, 6)])
        adv = ln if rng.random() < 0.85 else rng.choice([ln + 1, 0xffff, max(0, ln - 1)])
        b += be(rng.randrange(65536), 2) + be(adv, 2) + b"".join(be(rng.randrange(1 << 32), 4) for _ in range(ln))
    payload = rb(rng, rng.choice([0, 0, 1, 2, 3, 4, 8, rng.randint(0, 40)]))
    if p:
        k = rng.random()
        if k < 0.6:
            pad = rng.choice([1, 1, 2, 3, 4, 8, rng.randint(1, 20)])
            b += payload + bytes(pad - 1) + bytes([pad])
        elif k < 0.7:
            b += payload + bytes([0])                                 # padding size 0: malformed
        elif k < 0.8:
            b += payload + bytes([len(payload) + 1 + rng.choice([0, 1, 5])])   # = data_size, data_size+1 (malformed) …
        elif k < 0.9:
            b += b""                                                  # padding bit without any data
        else:
            b += payload + rb(rng, 1)
    else:
        b += payload
    return b


def bootp_header(rng):
    b = bytes([rng.choice([1, 2, rng.randrange(256)]), rng.choice([1, rng.randrange(256)]), rng.choice([6, rng.randrange(256)]),
               rng.randrange(256)])
    b += be(rng.randrange(1 << 32), 4) + be(rng.randrange(65536), 2) + be(rng.choice([0, 0x8000, rng.randrange(65536)]), 2)
    b += rb(rng, 16)
    b += rb(rng, 16) if rng.random() < 0.5 else rb(rng, 6) + bytes(10)
    b += (rb(rng, 64) if rng.random() < 0.3 else bytes(64)) + (rb(rng, 128) if rng.random() < 0.3 else bytes(128))
    assert len(b) == 236
    return b


def bootp_bytes(rng):
    b = bootp_header(rng)
    k = rng.random()
    if k < 0.6:
        return b + (rb(rng, 64) if rng.random() < 0.5 else bytes(64))
    if k < 0.8:
        return b + rb(rng, 64) + rb(rng, rng.randint(1, 40))
    return b + rb(rng, rng.choice([0, 1, 63, rng.randint(0, 63)]))


DHCP_MAGIC = bytes([0x63, 0x82, 0x53, 0x63])
DHCP_TYPED = {53: 1, 54: 4, 51: 4, 58: 4, 59: 4, 1: 4, 3: 8, 6: 8, 28: 4, 50: 4, 15: 11, 12: 7}


def dhcp_option(rng):
    k = rng.random()
    if k < 0.12:
        return bytes([0])                               # PAD
    if k < 0.2:
        return bytes([255])                             # END (also in the middle of the list)
    if k < 0.6:
        code = rng.choice(list(DHCP_TYPED))
        ln = DHCP_TYPED[code] if rng.random() < 0.7 else pick_len(rng)
    else:
        code = rng.choice([1, 2, 52, 55, 60, 61, 77, 81, 82, 118, 210, 254, rng.randint(1, 254)])
        ln = pick_len(rng)
    return bytes([code, ln]) + rb(rng, ln)


def dhcp_options(rng):
    n = rng.choice([0, 1, 2, 3, 5, rng.randint(0, 12)])
    b = b"".join(dhcp_option(rng) for _ in range(n))
    k = rng.random()
    if k < 0.5:
        b += bytes([255])                               # END
        if rng.random() < 0.6:
            b += bytes(rng.choice([1, 2, 3, 7, rng.randint(1, 30)]))   # zero padding after END
    elif k < 0.6:
        b += bytes([rng.randint(1, 254)])               # code without length byte
    elif k < 0.7:
        ln = rng.randint(1, 255)
        b += bytes([rng.randint(1, 254), ln]) + rb(rng, rng.randint(0, ln - 1))   # length exceeding what is left
    return b


def dhcp_bytes(rng):
    b = bootp_header(rng)
    k = rng.random()
    if k < 0.06:
        return b + rb(rng, 4) + dhcp_options(rng)        # wrong magic cookie
    if k < 0.1:
        return b + DHCP_MAGIC[:rng.randint(0, 3)]
    return b + DHCP_MAGIC + dhcp_options(rng)


def class_data(rng):
    n = rng.choice([0, 1, 1, 2, 3, rng.randint(0, 5)])
    ents = [rb(rng, rng.choice([0, 0, 1, 2, 7, 8, 9, rng.randint(0, 20)])) for _ in range(n)]
    b = b"".join(be(len(e), 2) + e for e in ents)
    k = rng.random()
    if k < 0.1:
        b += rb(rng, 1)                                   # dangling byte
    elif k < 0.2:
        b += be(rng.randint(1, 300), 2) + rb(rng, rng.randint(0, 3))   # entry overrunning the option
    return b


def dhcpv6_option(rng):
    k = rng.random()
    if k < 0.7:
        code = rng.choice([1, 2, 3, 4, 5, 6, 7, 8, 9, 11, 12, 13, 14, 15, 16, 17, 18, 19, 20])
        exact = rng.random() < 0.7
        if code in (1, 2):
            d = be(rng.choice([1, 2, 3, rng.randrange(65536)]), 2) + rb(rng, rng.choice([1, 6, 8, 9, 14, rng.randint(0, 20)])) if exact else rb(rng, rng.randint(0, 3))
        elif code == 3:
            d = rb(rng, 12) + rb(rng, rng.choice([0, 0, 4, 28, rng.randint(0, 30)])) if exact else rb(rng, rng.randint(0, 12))
        elif code == 4:
            d = rb(rng, 4) + rb(rng, rng.choice([0, 4, rng.randint(0, 30)])) if exact else rb(rng, rng.randint(0, 4))
        elif code == 5:
            d = rb(rng, 24) + rb(rng, rng.choice([0, 0, rng.randint(0, 12)])) if exact else rb(rng, rng.randint(0, 24))
        elif code == 6:
            d = rb(rng, 2 * rng.randint(0, 6)) if exact else rb(rng, 2 * rng.randint(0, 4) + 1)
        elif code in (7, 19):
            d = rb(rng, 1) if exact else rb(rng, rng.choice([0, 2, 3]))
        elif code == 8:
            d = rb(rng, 2) if exact else rb(rng, rng.choice([0, 1, 3, 4]))
        elif code == 11:
            d = rb(rng, 11) + rb(rng, rng.choice([0, 16, rng.randint(0, 20)])) if exact else rb(rng, rng.randint(0, 11))
        elif code == 12:
            d = rb(rng, 16) if exact else rb(rng, rng.choice([0, 15, 17, 32]))
        elif code == 13:
            d = rb(rng, 2) + rb(rng, rng.randint(0, 12)) if exact else rb(rng, rng.randint(0, 2))
        elif code in (14, 20):
            d = b"" if exact else rb(rng, rng.randint(1, 3))
        elif code == 15:
            d = class_data(rng)
        elif code == 16:
            d = rb(rng, 4) + class_data(rng) if exact else rb(rng, rng.randint(0, 4))
        elif code == 17:
            d = rb(rng, 4) + rb(rng, rng.randint(0, 12)) if exact else rb(rng, rng.randint(0, 4))
        else:
            d = rb(rng, pick_len(rng))
    else:
        code = rng.choice([0, 21, 23, 24, 25, 39, 82, 255, 256, 65535, rng.randrange(65536)])
        d = rb(rng, pick_len(rng, 300) if rng.random() < 0.9 else rng.choice([256, 257, 300]))
    return be(code, 2) + be(len(d), 2) + d


def dhcpv6_bytes(rng):
    k = rng.random()
    if k < 0.25:
        mt = rng.choice([12, 13])
        b = bytes([mt, rng.randrange(256)])
        if rng.random() < 0.15:
            return b + rb(rng, rng.randint(0, 31))        # relay header cut short
        b += rb(rng, 16) + rb(rng, 16)
    else:
        mt = rng.choice([1, 2, 3, 4, 5, 6, 7, 8, 9, 10, 11, 0, 14, 255, rng.randrange(256)])
        if mt in (12, 13):
            mt = 1
        b = bytes([mt]) + rb(rng, 3)
    n = rng.choice([0, 1, 2, 3, rng.randint(0, 8)])
    b += b"".join(dhcpv6_option(rng) for _ in range(n))
    k = rng.random()
    if k < 0.1:
        b += rb(rng, rng.randint(1, 3))                   # incomplete option header
    elif k < 0.2:
        ln = rng.randint(1, 300)
        b += be(rng.randrange(30), 2) + be(ln, 2) + rb(rng, rng.randint(0, ln - 1))
    return b


PARSE_GENS = [("ARP", arp_bytes), ("VXLAN", vxlan_bytes), ("STP", stp_bytes), ("RTP", rtp_bytes), ("BootP", bootp_bytes),
              ("DHCP", dhcp_bytes), ("DHCPv6", dhcpv6_bytes)]
# heavier classes (long dumps) get a smaller share
PARSE_WEIGHTS = [2, 3, 2, 4, 1, 4, 5]


def mutate(rng, b):
    b = bytearray(b)
    if not b:
        return bytes(b)
    k = rng.random()
    if k < 0.35:
        return bytes(b[:rng.randint(0, len(b))])
    if k < 0.6:
        for _ in range(rng.randint(1, 3)):
            i = rng.randrange(len(b)); b[i] ^= 1 << rng.randrange(8)
        return bytes(b)
    if k < 0.85:
        # hit the variable part (the tail) with boundary values: that is where the length fields live
        i = rng.randrange(max(0, len(b) - 40), len(b))
        b[i] = rng.choice([0, 1, 2, 3, 4, 7, 8, 9, 0x7f, 0x80, 0xfe, 0xff])
        return bytes(b)
    if k < 0.93:
        return bytes(b) + rb(rng, rng.randint(1, 12))
    i = rng.randrange(len(b))
    del b[i]
    return bytes(b)


def gen_parse(rng, n):
    ops = []
    if n >= 20000:
        # thorough tier: small-scope exhaustive over truncation points of a few structured packets per class
        ops += every_prefix_ops(rng, 4)
    else:
        n *= 2          # the quick tier has room (a few seconds per check): double this family's share
    while len(ops) < n:
        cls, g = rng.choices(PARSE_GENS, PARSE_WEIGHTS)[0]
        b = g(rng)
        r = rng.random()
        if r < 0.3:
            b = mutate(rng, b)
            if rng.random() < 0.3:
                b = mutate(rng, b)
        ops.append(f"parse {cls} {hexs(b)}")
        # a packet of one class handed to another parser of the family
        if rng.random() < 0.03:
            other = rng.choice(PARSE_GENS)[0]
            ops.append(f"parse {other} {hexs(b)}")
    return ops


def every_prefix_ops(rng, count=3):
    """thorough tier: every prefix of a few structured packets per class (small-scope exhaustive over truncation)"""
    ops = []
    for cls, g in PARSE_GENS:
        for _ in range(count):
            b = g(rng)
            hdr = 236 if cls in ("BootP", "DHCP") else 0
            for ln in range(hdr, len(b) + 1):
                ops.append(f"parse {cls} {hexs(b[:ln])}")
    return ops


# ------------------------------------------------------------------------------------------------ API programs

def mac(rng):
    return rb(rng, 6).hex()


def ip4(rng):
    return rb(rng, 4).hex()


def ip6(rng):
    return rb(rng, 16).hex()


def u(rng, bits):
    return rng.choice([0, 1, (1 << bits) - 1, rng.randrange(1 << bits)])


def data_arg(rng, cap=255):
    return hexs(rb(rng, pick_len(rng, cap)))


def prog_arp(rng):
    ops, layers = [], []
    outer_eth = rng.random() < 0.4
    if outer_eth:
        ops.append("push EthernetII" if rng.random() < 0.5 else f"push EthernetII {mac(rng)} {mac(rng)}")
        layers.append("EthernetII")
    ops.append("push ARP" if rng.random() < 0.4 else f"push ARP {ip4(rng)} {ip4(rng)} {mac(rng)} {mac(rng)}")
    i = len(layers)
    layers.append("ARP")
    if rng.random() < 0.4:
        ops.append(f"push RawPDU {hexs(rb(rng, rng.choice([1, 2, 17, 18, 19, rng.randint(1, 40)])))}")
    for _ in range(rng.randint(0, 6)):
        ops.append(rng.choice([
            f"set {i} hw_addr_format {u(rng, 16)}", f"set {i} prot_addr_format {u(rng, 16)}",
            f"set {i} hw_addr_length {u(rng, 8)}", f"set {i} prot_addr_length {u(rng, 8)}",
            f"set {i} opcode {rng.choice([1, 2, u(rng, 16)])}",
            f"set {i} sender_hw_addr {mac(rng)}", f"set {i} target_hw_addr {mac(rng)}",
            f"set {i} sender_ip_addr {ip4(rng)}", f"set {i} target_ip_addr {ip4(rng)}"]))
        if rng.random() < 0.25:
            ops.append("show")
    return ops


def prog_vxlan(rng):
    ops = ["push VXLAN" if rng.random() < 0.3 else f"push VXLAN {u(rng, 24)}"]
    k = rng.random()
    if k < 0.75:
        # the payload of VXLAN is an Ethernet frame: only EthernetII can follow
        ops.append("push EthernetII" if rng.random() < 0.5 else f"push EthernetII {mac(rng)} {mac(rng)}")
        if rng.random() < 0.5:
            ops.append(f"push ARP {ip4(rng)} {ip4(rng)} {mac(rng)} {mac(rng)}")
        else:
            ops.append(f"push RawPDU {hexs(rb(rng, rng.choice([0, 1, 45, 46, 47, rng.randint(0, 60)])))}")
            ops.append(f"set 1 payload_type {unrecognised_ether(rng)}")
    for _ in range(rng.randint(0, 4)):
        ops.append(rng.choice([f"set 0 flags {u(rng, 8)}", f"set 0 vni {u(rng, 24)}"]))
        if rng.random() < 0.25:
            ops.append("show")
    return ops


def prog_stp(rng):
    ops = ["push STP"]
    for _ in range(rng.randint(0, 8)):
        ops.append(rng.choice([
            f"set 0 proto_id {u(rng, 16)}", f"set 0 proto_version {u(rng, 8)}", f"set 0 bpdu_type {u(rng, 8)}",
            f"set 0 bpdu_flags {u(rng, 8)}", f"set 0 root_path_cost {u(rng, 32)}", f"set 0 port_id {u(rng, 16)}",
            f"set 0 msg_age {u(rng, 8)}", f"set 0 max_age {u(rng, 8)}", f"set 0 hello_time {u(rng, 8)}",
            f"set 0 fwd_delay {u(rng, 8)}",
            f"set 0 root_id {u(rng, 4)} {u(rng, 12)} {mac(rng)}", f"set 0 bridge_id {u(rng, 4)} {u(rng, 12)} {mac(rng)}"]))
        if rng.random() < 0.25:
            ops.append("show")
    return ops


def prog_rtp(rng):
    ops = ["push RTP"]
    has_payload = rng.random() < 0.6
    if has_payload:
        ops.append(f"push RawPDU {hexs(rb(rng, rng.choice([1, 2, 3, 4, 160, rng.randint(1, 40)])))}")
    csrc, ext = [], []
    ext_on = False
    profile = 0
    for _ in range(rng.randint(0, 14)):
        k = rng.random()
        if k < 0.2 and len(csrc) < 15:
            v = rng.choice(csrc) if csrc and rng.random() < 0.2 else u(rng, 32)
            csrc.append(v); ops.append(f"set 0 add_csrc_id {v}")
        elif k < 0.3:
            v = rng.choice(csrc) if csrc and rng.random() < 0.8 else u(rng, 32)
            if v in csrc:
                csrc.remove(v)
            ops.append(f"set 0 remove_csrc_id {v}")
        elif k < 0.45:
            v = rng.choice(ext) if ext and rng.random() < 0.2 else u(rng, 32)
            ext.append(v); ext_on = True; ops.append(f"set 0 add_extension_data {v}")
        elif k < 0.55:
            v = rng.choice(ext) if ext and rng.random() < 0.8 else u(rng, 32)
            ops.append(f"set 0 remove_extension_data {v}")
            if ext_on and v in ext:
                ext.remove(v)
                if not ext:
                    ext_on = False
                    if profile:
                        # the extension header is gone: a profile without a header is not a packet the wire can express
                        ops.append("set 0 extension_profile 0"); profile = 0
        elif k < 0.6:
            # an extension header without data words
            if not ext:
                ext_on = True; ops.append("set 0 extension_bit 1")
        elif k < 0.65:
            # the profile belongs to the extension header: only meaningful while one is present
            if ext_on:
                profile = u(rng, 16)
                ops.append(f"set 0 extension_profile {profile}")
        elif k < 0.75:
            ops.append(f"set 0 padding_size {rng.choice([0, 1, 2, 3, 4, 8, 255, rng.randrange(256)])}")
        else:
            ops.append(rng.choice([f"set 0 version {u(rng, 2)}", f"set 0 marker_bit {u(rng, 1)}", f"set 0 payload_type {u(rng, 7)}",
                                   f"set 0 sequence_number {u(rng, 16)}", f"set 0 timestamp {u(rng, 32)}", f"set 0 ssrc_id {u(rng, 32)}"]))
        if rng.random() < 0.2:
            ops.append("show")
    return ops


def bootp_setter(rng, i):
    return rng.choice([
        f"set {i} opcode {u(rng, 8)}", f"set {i} htype {u(rng, 8)}", f"set {i} hlen {u(rng, 8)}", f"set {i} hops {u(rng, 8)}",
        f"set {i} xid {u(rng, 32)}", f"set {i} secs {u(rng, 16)}", f"set {i} padding {u(rng, 16)}",
        f"set {i} ciaddr {ip4(rng)}", f"set {i} yiaddr {ip4(rng)}", f"set {i} siaddr {ip4(rng)}", f"set {i} giaddr {ip4(rng)}",
        f"set {i} chaddr {rb(rng, rng.choice([6, 16])).hex()}", f"set {i} sname {rb(rng, 64).hex()}", f"set {i} file {rb(rng, 128).hex()}"])


def prog_bootp(rng):
    ops = ["push BootP"]
    for _ in range(rng.randint(0, 5)):
        if rng.random() < 0.2:
            ops.append(f"set 0 vend {rb(rng, 64).hex()}")        # the wire format fixes the vendor area at 64 bytes
        else:
            ops.append(bootp_setter(rng, 0))
        if rng.random() < 0.2:
            ops.append("show")
    return ops


def prog_dhcp(rng):
    ops = ["push DHCP"]
    for _ in range(rng.randint(0, 12)):
        k = rng.random()
        if k < 0.15:
            ops.append(bootp_setter(rng, 0))
        elif k < 0.4:
            code = rng.choice([1, 3, 12, 15, 51, 53, 55, 60, 61, 82, 254, rng.randint(1, 254)])
            ops.append(f"set 0 add_option {code} {data_arg(rng)}")
        elif k < 0.45:
            ops.append(f"set 0 add_option {rng.choice([0, 255])} -")   # PAD / END carry no data
        elif k < 0.6:
            ops.append(f"set 0 remove_option {rng.choice([1, 3, 12, 15, 51, 53, 55, 0, 255, rng.randint(0, 255)])}")
        else:
            ops.append(rng.choice([
                f"set 0 type {rng.choice([1, 2, 3, 5, u(rng, 8)])}", "set 0 end", f"set 0 server_identifier {ip4(rng)}",
                f"set 0 lease_time {u(rng, 32)}", f"set 0 renewal_time {u(rng, 32)}", f"set 0 rebind_time {u(rng, 32)}",
                f"set 0 subnet_mask {ip4(rng)}",
                f"set 0 routers {','.join(ip4(rng) for _ in range(rng.choice([1, 2, 3, 63]))) if rng.random() < 0.9 else '-'}",
                f"set 0 domain_name_servers {','.join(ip4(rng) for _ in range(rng.choice([1, 2, 4]))) if rng.random() < 0.9 else '-'}",
                f"set 0 broadcast {ip4(rng)}", f"set 0 requested_ip {ip4(rng)}",
                f"set 0 domain_name {hexs(wc.textish(rng, pick_len(rng, 255)))}",
                f"set 0 hostname {hexs(wc.textish(rng, pick_len(rng, 255)))}"]))
        if rng.random() < 0.2:
            ops.append("show")
    return ops


def class_arg(rng):
    n = rng.choice([0, 1, 1, 2, 3])
    if n == 0:
        return "empty"
    return ",".join(hexs(rb(rng, rng.choice([0, 1, 2, 7, 8, 9, rng.randint(0, 20)]))) for _ in range(n))


def prog_dhcpv6(rng):
    ops = ["push DHCPv6"]
    relay = rng.random() < 0.3
    ops.append(f"set 0 msg_type {rng.choice([12, 13]) if relay else rng.choice([1, 2, 3, 7, 11, 0, 14, 255])}")
    for _ in range(rng.randint(0, 12)):
        k = rng.random()
        if k < 0.15:
            if relay:
                ops.append(rng.choice([f"set 0 hop_count {u(rng, 8)}", f"set 0 peer_address {ip6(rng)}", f"set 0 link_address {ip6(rng)}"]))
            else:
                ops.append(f"set 0 transaction_id {u(rng, 24)}")
        elif k < 0.35:
            code = rng.choice([1, 3, 6, 15, 16, 21, 23, 24, 39, 0, 256, 65535, rng.randrange(65536)])
            ops.append(f"set 0 add_option {code} {data_arg(rng, 300)}")
        elif k < 0.5:
            ops.append(f"set 0 remove_option {rng.choice([1, 2, 3, 6, 8, 14, 15, 16, 23, rng.randrange(65536)])}")
        else:
            ops.append(rng.choice([
                f"set 0 ia_na {u(rng, 32)} {u(rng, 32)} {u(rng, 32)} {data_arg(rng, 40)}",
                f"set 0 ia_ta {u(rng, 32)} {data_arg(rng, 40)}",
                f"set 0 ia_address {ip6(rng)} {u(rng, 32)} {u(rng, 32)} {data_arg(rng, 40)}",
                f"set 0 option_request {','.join(str(u(rng, 16)) for _ in range(rng.choice([1, 2, 5]))) if rng.random() < 0.85 else '-'}",
                f"set 0 preference {u(rng, 8)}", f"set 0 elapsed_time {u(rng, 16)}", f"set 0 relay_message {data_arg(rng, 300)}",
                f"set 0 authentication {u(rng, 8)} {u(rng, 8)} {u(rng, 8)} {u(rng, 64)} {data_arg(rng, 40)}",
                f"set 0 server_unicast {ip6(rng)}", f"set 0 status_code {u(rng, 16)} {data_arg(rng, 40)}", "set 0 rapid_commit",
                f"set 0 user_class {class_arg(rng)}", f"set 0 vendor_class {u(rng, 32)} {class_arg(rng)}",
                f"set 0 vendor_info {u(rng, 32)} {data_arg(rng, 40)}", f"set 0 interface_id {data_arg(rng, 40)}",
                f"set 0 reconfigure_msg {u(rng, 8)}", "set 0 reconfigure_accept",
                f"set 0 client_id {u(rng, 16)} {data_arg(rng, 40)}", f"set 0 server_id {u(rng, 16)} {data_arg(rng, 40)}"]))
        if rng.random() < 0.2:
            ops.append("show")
    return ops


BUILD_GENS = [prog_arp, prog_vxlan, prog_stp, prog_rtp, prog_bootp, prog_dhcp, prog_dhcpv6]
BUILD_WEIGHTS = [2, 2, 2, 4, 1, 4, 5]


def known_finding_probes():
    """programs that reproduce the family's known findings on every run (so a KNOWN-FINDING line is printed because it was
    observed): KF-WApp-6 — a DHCP option whose payload exceeds what the one-byte length field can express"""
    return ["new", "push DHCP", "set 0 add_option 60 " + "ab" * 256, "show",
            "new", "push DHCP", "set 0 hostname " + "61" * 300, "show",
            # a short hardware address set over a long one: the rest of the 16-byte field is zeroed (KF-C15-11, fixed)
            "new", "push BootP", "set 0 chaddr " + "c1" * 16, "set 0 chaddr 0a0b0c0d0e0f", "show",
            "new", "push DHCP", "set 0 chaddr " + "c2" * 16, "set 0 chaddr 0a0b0c0d0e0f", "show"]


def dhcp_long_option(case_lines):
    """does the (minimised) case build a DHCP packet with an option payload longer than 255 bytes?"""
    if not any(l.startswith("push DHCP") and not l.startswith("push DHCPv6") for l in case_lines):
        return False
    for l in case_lines:
        w = l.split(" ")
        if len(w) >= 4 and w[0] == "set":
            if w[2] == "add_option" and len(w) == 5 and len(w[4]) > 510:
                return True
            if w[2] in ("domain_name", "hostname") and len(w[3]) > 510:
                return True
            if w[2] in ("routers", "domain_name_servers") and w[3].count(",") >= 63:
                return True
    return False


def refine_sig(sig, case_lines, detail):
    if sig.get("class") == "api" and dhcp_long_option(case_lines):
        sig = dict(sig)
        sig["when"] = "dhcp-option-data-over-255"
    return sig


def typed_value_probes():
    """C04 value clause (typed-getter-returns-set-value): every typed DHCP / DHCPv6 setter once on a fresh object with an
    argument whose octets are all different (a byte-order, member-order or off-by-one error cannot hide in a palindrome),
    directly followed by `show`; deterministic, so every seed covers every codec"""
    ip6a = "20010db8000000000102030405060708"
    dhcp = ["type 5", "server_identifier c0a80001", "lease_time 16909060", "renewal_time 84281096", "rebind_time 151653132",
            "subnet_mask ffffff00", "routers c0a80001,c0a80102,0a000003", "domain_name_servers 08080404,01020304",
            "broadcast c0a800ff", "requested_ip c0a80142", "domain_name 6578616d706c652e6f7267", "hostname 686f73742d31"]
    dhcp6 = ["ia_na 16909060 84281096 151653132 0102", "ia_ta 16909060 0a0b0c", f"ia_address {ip6a} 16909060 84281096 0d0e",
             "option_request 23,24,258", "preference 7", "elapsed_time 258", "relay_message 01020304", f"server_unicast {ip6a}",
             "status_code 258 6f6b", "rapid_commit", "user_class 0102,03", "vendor_class 16909060 0a0b,0c", "vendor_info 16909060 0102",
             "interface_id 0a0b0c0d", "reconfigure_msg 5", "reconfigure_accept", "client_id 258 0a0b0c0d", "server_id 513 0e0f"]
    ops = []
    for cls, table in (("DHCP", dhcp), ("DHCPv6", dhcp6)):
        for t in table:
            ops += ["new", f"push {cls}", f"set 0 {t}", "show"]
    return ops


def gen_build(rng, n):
    ops = known_finding_probes() + typed_value_probes()
    if n < 20000:
        n *= 2
    while len(ops) < n:
        g = rng.choices(BUILD_GENS, BUILD_WEIGHTS)[0]
        ops.append("new")
        ops += g(rng)
        ops.append("show")
    return ops
