"""C12 — packet object trees keep sound ownership under copy, move, clone and re-linking."""
import itertools, random
from vlib import core, corr

AREA = "C12"
SMALL_BUFFER_EDGE = []          # filled by run() from the generated table
# + the constants / limits tied to the source (translator/gen_limits.py) + the member table (translator/gen_members.py)
MODULES = ["TinsModel.Props.C12", "TinsModel.Props.Limits.C12", "TinsModel.Props.Members.C12"]
AUDIT = ["Audit/C12.lean", "Audit/LimitsC12.lean", "Audit/MembersC12.lean"]
LEVEL = "proof"
HARNESS = "c12_ownership"
HARNESS_EXTRA = ["-fno-access-control"]      # PtrPacket's constructor and two members without public accessors
CASE_START = ("init",)
MANIFEST = dict(
    text="Lean 4 theorems over a code-shaped pointer model (heap of cells with inner/parent links, fuel-bounded "
         "recursive delete/clone) of PDU/Packet copy, move, clone, operator/, inner_pdu, release: the model "
         "refines a chain-level specification for every program, hence the ownership-forest invariant, exactly-once "
         "destruction, deep-equal copies (also from a shorter source) and independence hold for all programs. "
         "PDUOption is modelled at storage level, statement for statement (option_/size_/real_size_, the "
         "small-buffer/heap-pointer union, every constructor, both assignment operators, destructor, "
         "set_payload_contents, data_ptr; vector<option> push_back/pop_back/erase as the member calls libstdc++ "
         "makes) over an explicit heap in which reading released, wild or indeterminate storage and releasing twice "
         "are faults: for every history the storage invariant holds (a heap-backed option owns exactly one live block "
         "of exactly real_size_ bytes, no block shared, no leak, small and moved-from options own nothing, nothing "
         "read after release, every block released exactly once), it is inductive over every operation from every "
         "state, and the observable triple (option(), length_field(), data) refines a plain value model (copy = same "
         "value, move = target gets the value, source keeps option()/length_field() and reports data_size() 0 iff "
         "its data was longer than 8 bytes), with a frame theorem (copies are independent) and erase = closes the "
         "gap. Tied to the code by running random and small-scope-exhaustive programs on real objects of 51 classes "
         "under ASan+UBSan+LSan with the live-PDU census (forest printed modulo address renaming) and on real "
         "PDUOption<uint8_t,IP> objects and a real std::vector of them, printing what every option reports and the "
         "number and total size of live heap blocks (ASan allocator hooks) after every step; both streams are compared "
         "with the models and with the specification oracles.",
    note="Trusted: Lean kernel + standard axioms; hand-written models tied by correspondence "
         "(harness/c12_ownership.cpp, harness/c12_option.cpp); member-wise copy/move of each PDU class abstracted to "
         "one value per layer; the object representation of the option's union is abstract (reading the inactive "
         "member yields indeterminate bytes / a wild pointer, both faults when used); std::vector<option> is modelled "
         "with reserved capacity (no reallocation); programs the guard refuses (documented-undefined use) are outside "
         "the property.",
    technique="Lean 4 proof (refinement of a pointer model to a chain specification, forest invariant; open-invariant "
              "Hoare reasoning over a heap model of PDUOption, refinement to a value model) + model/impl "
              "correspondence on real objects with allocator census",
    design="DESIGN.md §6 C12")
MANIFEST["text"] += (" The assumption under both models — member-wise copy / move of a class is a deep value copy and the only "
                     "pointers are PDU::inner_pdu_ / parent_pdu_, Packet::pdu_ and the option's heap buffer — is tied to the source: "
                     "translator/gen_members.py regenerates lean/TinsModel/Gen/Members.lean (every non-static data member of every "
                     "class derived from PDU, of Packet, PtrPacket / RefPacket, every PDUOption instantiation, PDUCacher, "
                     "IPv4Reassembler / IPv4Stream, TCPStream and the tcp_ip classes, classified value / nested / container / "
                     "ownedPtr / nonOwningPtr / smartPtr / reference / ptrContainer / other; the status of the five special member "
                     "functions and the destructor with the members each user-provided body mentions; the clone() override) and "
                     "lean/TinsModel/Props/Members/C12.lean decides over that table: only_known_pointer_members (allow-list naming the "
                     "model function that mirrors each pointer), every_concrete_class_overrides_clone, no_class_slices (final overrider "
                     "resolved through the hierarchy), rule_of_three_consistent, members_scan_complete, allow_list_not_stale. "
                     "harness op `copyall` runs copy-construct, copy-assign, move-construct, move-assign and clone on a populated "
                     "object (parsed from the wire generators' byte strings, or populated through the API) of every concrete class of "
                     "the table in three mutation / destruction orders and compares serialisation, typeid, independence and the "
                     "live-PDU census; when a table theorem fails the check searches with these operations on the classes named.")
MANIFEST["technique"] += " + translator-generated member / special-member / clone table decided in Lean and exercised per class"
MANIFEST["note"] += (" Constants and limits of the C++ source that the model restates (translator/gen_limits.py -> Gen/Limits.lean: "
                     "compiled probe + preprocessed function bodies at named anchors) are tied to the model's numerals by the "
                     "theorems of lean/TinsModel/Props/Limits/C12.lean (audit: Audit/LimitsC12.lean); tools/LIMITS-INVENTORY.md lists "
                     "what is tied and what is not.")

# class table: must agree with harness/c12_ownership.cpp (checked at run time through the `classes` op)
KINDS = {"p": 0, "c": 1, "f": 2}
NSLOTS = 4
MAXLEN = 6


def class_table(exe):
    out, _ = core.run_harness_lines(exe, (), ["classes"], CASE_START)
    table = []
    for item in out[0].split(" "):
        idx, name, kind = item.split(":")
        table.append((int(idx), name, KINDS[kind]))
    return table


# ----------------------------------------------------------------------------- generator (with a light shadow state)

class Shadow:
    """what the generator remembers to keep most operations well-formed: per slot, its kind and the classes of its chain"""

    def __init__(self, n):
        self.s = [None] * n          # None | ['P', [cls...]] | ['K', [cls...]]
        self.o = [None] * n          # option payload lengths

    def empty(self):
        return [i for i, x in enumerate(self.s) if x is None]

    def chains(self):
        return [i for i, x in enumerate(self.s) if x is not None and x[1]]

    def pkts(self):
        return [i for i, x in enumerate(self.s) if x is not None and x[0] == 'K']

    def pdus(self):
        return [i for i, x in enumerate(self.s) if x is not None and x[0] == 'P']


def gen_case(rng, table, nops, classes=None):
    """one program; `classes`: the classes this case draws from (rotation over the whole table across cases)"""
    sh = Shadow(NSLOTS)
    ops = [f"init {NSLOTS}"]
    classes = classes or table

    def ref(must=None):
        cs = sh.chains() if must is None else [must]
        if not cs:
            return None
        s = rng.choice(cs)
        ch = sh.s[s][1]
        d = rng.randrange(len(ch)) if rng.random() < 0.8 else rng.randrange(len(ch) + 1)
        return s, d

    def sub(r):
        s, d = r
        return list(sh.s[s][1][d:])

    def valid(r):
        return r is not None and sh.s[r[0]] is not None and r[1] < len(sh.s[r[0]][1])

    kinds = ["new"] * 6 + ["set"] * 3 + ["clone", "copy", "movector", "div", "diveq", "diveq", "assign", "assign", "assign",
             "massign", "massign", "setinner", "setinnerref", "setnull", "release", "release", "del", "pknew", "pkown",
             "pkptr", "pkempty", "pkcopy", "pkassign", "pkmove", "pkmassign", "pkrelease", "pkdiv"] + ["opt"] * 2
    for _ in range(nops):
        k = rng.choice(kinds)
        wild = rng.random() < 0.04        # a few operations are emitted without regard to the shadow (guard coverage)
        e = sh.empty()
        tgt = rng.choice(e) if e and not wild else rng.randrange(NSLOTS)
        if k == "new":
            idx, name, kind = rng.choice(classes)
            val = rng.choice([0, 1, 7, 8, 9, 18, 19, 200, 255, rng.randrange(256)])
            ops.append(f"new {tgt} {idx} {kind} {val}")
            if sh.s[tgt] is None:
                sh.s[tgt] = ['P', [idx]]
        elif k == "set":
            r = ref()
            if r:
                ops.append(f"set {r[0]} {r[1]} {rng.randrange(256)}")
        elif k in ("clone", "copy", "pknew"):
            r = ref()
            if r:
                ops.append(f"{k} {tgt} {r[0]} {r[1]}")
                if sh.s[tgt] is None and valid(r):
                    sh.s[tgt] = ['K' if k == "pknew" else 'P', sub(r)]
        elif k == "movector":
            r = ref()
            if r:
                ops.append(f"movector {tgt} {r[0]} {r[1]}")
                if sh.s[tgt] is None and valid(r):
                    c = sub(r)
                    del sh.s[r[0]][1][r[1] + 1:]
                    sh.s[tgt] = ['P', c]
        elif k == "div":
            a, b = ref(), ref()
            if a and b:
                if valid(a) and valid(b) and len(sub(a)) + len(sub(b)) > MAXLEN:
                    continue
                ops.append(f"div {tgt} {a[0]} {a[1]} {b[0]} {b[1]}")
                if sh.s[tgt] is None and valid(a) and valid(b):
                    sh.s[tgt] = ['P', sub(a) + sub(b)]
        elif k in ("diveq", "setinnerref", "assign"):
            a, b = ref(), ref()
            if a and b and rng.random() < 0.25:
                b = ref(must=a[0])           # aliasing: source inside the target's own chain
            if k == "assign" and a and rng.random() < 0.5:
                # prefer a source whose top layer has the class of the target (member-wise assignment)
                cands = [(s, d) for s in sh.chains() for d in range(len(sh.s[s][1]))
                         if valid(a) and sh.s[s][1][d] == sh.s[a[0]][1][a[1]]]
                if cands:
                    b = rng.choice(cands)
            if a and b:
                if valid(a) and valid(b):
                    keep = len(sh.s[a[0]][1]) if k == "diveq" else a[1] + 1
                    add = sub(b) if k != "assign" else sub(b)[1:]
                    if keep + len(add) > MAXLEN:
                        continue
                ops.append(f"{k} {a[0]} {a[1]} {b[0]} {b[1]}")
                if valid(a) and valid(b) and not (k == "assign" and a[0] == b[0] and a[1] < b[1]):
                    sh.s[a[0]][1] = sh.s[a[0]][1][:keep] + add
        elif k == "massign":
            a, b = ref(), ref()
            if a and b and rng.random() < 0.15:
                b = a
            if a and b:
                ops.append(f"massign {a[0]} {a[1]} {b[0]} {b[1]}")
                if valid(a) and valid(b):
                    if a[0] != b[0]:
                        if a[1] + len(sub(b)) > MAXLEN:
                            ops.pop(); continue
                        sh.s[a[0]][1] = sh.s[a[0]][1][:a[1] + 1] + sub(b)[1:]
                        del sh.s[b[0]][1][b[1] + 1:]
                    elif a == b:
                        del sh.s[a[0]][1][a[1] + 1:]
        elif k == "setinner":
            a = ref()
            ps = [p for p in sh.pdus() if a and p != a[0]] or ([rng.randrange(NSLOTS)] if wild else [])
            if a and ps:
                s2 = rng.choice(ps)
                if valid(a) and sh.s[s2] and a[1] + 1 + len(sh.s[s2][1]) > MAXLEN:
                    continue
                ops.append(f"setinner {a[0]} {a[1]} {s2}")
                if valid(a) and sh.s[s2] and sh.s[s2][0] == 'P' and s2 != a[0]:
                    sh.s[a[0]][1] = sh.s[a[0]][1][:a[1] + 1] + sh.s[s2][1]
                    sh.s[s2] = None
        elif k == "setnull":
            a = ref()
            if a:
                ops.append(f"setnull {a[0]} {a[1]}")
                if valid(a):
                    del sh.s[a[0]][1][a[1] + 1:]
        elif k == "release":
            a = ref()
            if a:
                ops.append(f"release {tgt} {a[0]} {a[1]}")
                if sh.s[tgt] is None and valid(a):
                    rest = sub(a)[1:]
                    del sh.s[a[0]][1][a[1] + 1:]
                    if rest:
                        sh.s[tgt] = ['P', rest]
        elif k == "del":
            occ = [i for i, x in enumerate(sh.s) if x is not None]
            if occ and rng.random() < 0.6:
                s = rng.choice(occ)
                ops.append(f"del {s}")
                sh.s[s] = None
        elif k in ("pkown", "pkptr"):
            ps = sh.pdus()
            if ps:
                s2 = rng.choice(ps)
                ops.append(f"{k} {tgt} {s2}")
                if sh.s[tgt] is None:
                    sh.s[tgt] = ['K', sh.s[s2][1]]
                    sh.s[s2] = None
        elif k == "pkempty":
            ops.append(f"pkempty {tgt}")
            if sh.s[tgt] is None:
                sh.s[tgt] = ['K', []]
        elif k in ("pkcopy", "pkmove", "pkrelease"):
            ps = sh.pkts()
            if ps:
                p = rng.choice(ps)
                ops.append(f"{k} {tgt} {p}")
                if sh.s[tgt] is None:
                    c = list(sh.s[p][1])
                    if k == "pkcopy":
                        sh.s[tgt] = ['K', c]
                    elif k == "pkmove":
                        sh.s[tgt] = ['K', c]; sh.s[p][1] = []
                    else:
                        sh.s[p][1] = []
                        if c:
                            sh.s[tgt] = ['P', c]
        elif k in ("pkassign", "pkmassign"):
            ps = sh.pkts()
            if ps:
                p, q = rng.choice(ps), rng.choice(ps)
                ops.append(f"{k} {p} {q}")
                if p != q:
                    if k == "pkassign":
                        sh.s[p][1] = list(sh.s[q][1])
                    else:
                        sh.s[p][1], sh.s[q][1] = sh.s[q][1], sh.s[p][1]
        elif k == "pkdiv":
            ps = sh.pkts()
            b = ref()
            if ps and b:
                p = rng.choice(ps)
                if valid(b) and len(sh.s[p][1]) + len(sub(b)) > MAXLEN:
                    continue
                ops.append(f"pkdiv {p} {b[0]} {b[1]}")
                if valid(b) and sh.s[p][1]:
                    sh.s[p][1] = sh.s[p][1] + sub(b)
        elif k == "opt":
            kk = rng.choice(["onew", "onew", "ocopy", "omove", "oassign", "oassign", "omassign", "odel"])
            i, j = rng.randrange(NSLOTS), rng.randrange(NSLOTS)
            if kk == "onew":
                # payload lengths around PDUOption::small_buffer_size as the source currently has it (Gen/Limits)
                ln = rng.choice([0, 1, 7, 8, 9, 10, 16, 40, rng.randrange(0, 70)] + SMALL_BUFFER_EDGE)
                ops.append(f"onew {i} {rng.randrange(256)} {ln} {rng.randrange(256)}")
            elif kk == "odel":
                ops.append(f"odel {i}")
            else:
                if rng.random() < 0.3:
                    j = i
                ops.append(f"{kk} {i} {j}")
    ops.append("end")
    return ops


def exhaustive_cases(table, limit, rng, depth=2):
    """small scope: every program of <= 3 re-linking/copy operations over a fixed pool of three stacked objects of
    mixed classes (a 3-layer chain, a 1-layer chain of the same top class, a Packet), at every reference"""
    out = []
    tops = [t for t in table if t[2] != 2]
    refs = [(0, 0), (0, 1), (0, 2), (1, 0), (2, 0)]
    atoms = []
    for a in refs:
        atoms += [f"setnull {a[0]} {a[1]}", f"release 3 {a[0]} {a[1]}", f"clone 3 {a[0]} {a[1]}", f"movector 3 {a[0]} {a[1]}",
                  f"set {a[0]} {a[1]} 77", f"pknew 3 {a[0]} {a[1]}"]
        for b in refs:
            atoms += [f"assign {a[0]} {a[1]} {b[0]} {b[1]}", f"massign {a[0]} {a[1]} {b[0]} {b[1]}",
                      f"diveq {a[0]} {a[1]} {b[0]} {b[1]}", f"setinnerref {a[0]} {a[1]} {b[0]} {b[1]}",
                      f"div 3 {a[0]} {a[1]} {b[0]} {b[1]}"]
    atoms += ["del 0", "del 1", "del 2", "del 3", "setinner 0 0 1", "setinner 1 0 0", "setinner 0 2 1", "pkown 3 1",
              "pkcopy 3 2", "pkmove 3 2", "pkrelease 3 2", "pkassign 2 2", "pkmassign 2 2", "pkdiv 2 0 1", "pkdiv 2 1 0"]
    if depth == 2:
        pairs = list(itertools.product(range(len(atoms)), repeat=2))
        if limit < len(pairs):
            pairs = rng.sample(pairs, limit)          # quick tier: a seeded sample of the small scope
    else:
        pairs = [tuple(rng.randrange(len(atoms)) for _ in range(depth)) for _ in range(limit)]
    for n, idx in enumerate(pairs):
        prog = tuple(atoms[i] for i in idx)
        x, y, z = tops[n % len(tops)], tops[(n * 7 + 3) % len(tops)], tops[(n * 13 + 5) % len(tops)]
        pre = [f"init {NSLOTS}", f"new 0 {x[0]} {x[2]} 9", f"new 1 {y[0]} {y[2]} 18", f"new 3 {z[0]} {z[2]} 200",
               "diveq 0 0 1 0", "diveq 0 0 3 0", "del 3", f"new 2 {x[0]} {x[2]} 5", "pkown 3 2", "pkmove 2 3", "del 3"]
        out.append(pre + list(prog) + ["end"])
    return out


def known_cases(table):
    """the defects recorded for this property, reproduced on every run (they must stay fixed)"""
    eth, ip, tcp = 0, 1, 2
    return [
        # KF-C12-1: copy-assignment from a packet with fewer layers kept the target's old upper layers
        [f"init {NSLOTS}", f"new 0 {eth} 0 7", f"new 1 {ip} 1 9", "diveq 0 0 1 0", f"new 2 {eth} 0 5", "assign 0 0 2 0", "end"],
        [f"init {NSLOTS}", f"new 0 {ip} 1 7", f"new 1 {tcp} 1 9", "diveq 0 0 1 0", f"new 2 {eth} 0 5", "assign 0 0 2 0", "end"],
        # KF-C12-2: PDUOption copy-assignment onto itself with a heap payload
        [f"init {NSLOTS}", "onew 0 3 12 65", "oassign 0 0", "onew 1 4 8 1", "oassign 1 1", "omassign 0 0", "end"],
        # KF-C12-3 (known, design decision): `a = *a.inner_pdu()` — reproduced with the unguarded `assignraw`
        [f"init {NSLOTS}", f"new 0 {ip} 1 9", f"new 1 {ip} 1 7", "setinner 0 0 1", "assignraw 0 0 0 1", "end"],
    ]


# ----------------------------------------------------------------------------- copyall: every concrete class of the member table

COPY_CASE_START = ("copyall", "copyclasses")


def wire_inputs(rng, per_family):
    """class name -> byte strings (hex) of the wire generators' parse streams (mostly valid, some mutated)"""
    import importlib
    pool = {}
    for fam in ("l2", "ip", "ip6", "transport", "icmp", "app", "wifi", "extra"):
        try:
            mod = importlib.import_module("checks.wire_gen_" + fam)
            ops = mod.gen_parse(random.Random(rng.getrandbits(32)), per_family)
        except Exception:
            continue
        for op in ops:
            w = op.split(" ")
            if len(w) == 3 and w[0] == "parse" and len(w[2]) % 2 == 0 and 0 < len(w[2]) <= 4096:
                pool.setdefault(w[1], []).append(w[2])
    return pool


def copyall_ops(rng, names, pool, per_class, only=None):
    """`copyall` lines: per class the API-populated object in every mode, then `per_class` parsed inputs (random mode);
    `only`: restrict to these classes (the search after a member theorem failed)"""
    ops = []
    for n in names:
        if only is not None and n not in only:
            continue
        ops += [f"copyall {n} - {m}" for m in (0, 1, 2)]
        src = pool.get("IP" if n == "PDUCacher<IP>" else n, [])
        if src:
            picks = src if len(src) <= per_class else rng.sample(src, per_class)
            # longest inputs first: options / extension headers / records are what the containers hold
            for h in sorted(picks, key=len, reverse=True):
                modes = (0, 1, 2) if only is not None else (rng.randrange(3),)
                ops += [f"copyall {n} {h} {m}" for m in modes]
    return ops


def classify_copy(op, impl):
    w = op.split(" ")
    if w[0] != "copyall" or len(w) < 4:
        return w[0]
    st = "ok" if impl.startswith("ok ") and "=0 " not in impl and impl.endswith("live=0") else \
        ("rejected" if impl == "SKIP" else impl.split(" ", 1)[0][:10] + "!")
    return f"copyall:{'api' if w[2] == '-' else 'parsed'}:{st}"


def member_failures():
    """the rows Props/Members/C12.lean names when one of its theorems fails: [(theorem, class, member / detail)]"""
    ok, text = core.lake_build(["TinsModel.Props.Members.C12"])
    if ok:
        return []
    out = []
    import re
    for m in re.finditer(r"MEMBERS-FAIL \| (.*?) ;;END", text, re.S):
        parts = [x.strip() for x in m.group(1).split(" | ")]
        if len(parts) >= 2 and tuple(parts) not in out:
            out.append(tuple(parts))
    return out or [("TinsModel.Props.Members.C12 does not build", "?", text[-800:])]


# ----------------------------------------------------------------------------- PDUOption storage level (harness c12_option)

OPT_HARNESS = "c12_option"
OPT_CASE_START = ("sinit",)
NU, VCAP = 6, 4
OPT_LENS = [0, 1, 7, 8, 9, 16, 255, 300]


def opt_len(rng):
    r = rng.random()
    if r < 0.70:
        return rng.choice(OPT_LENS)
    if r < 0.97:
        return rng.randrange(0, 24)
    if r < 0.995:
        return rng.choice([33, 64, 1000, 4096])
    return rng.choice([65535, 65536, 70000])          # option_payload_too_large from 65536 on


def opt_ctor(rng, i):
    """one of the four constructors; advertised length mostly different from the real one where the form allows it"""
    code, ln, fill = rng.randrange(256), opt_len(rng), rng.randrange(256)
    k = rng.randrange(4)
    if k == 0:
        return f"snull {i} {code} {rng.choice([0, 1, 8, 9, 300, 65535, 65536, 70000])}", 0
    if k == 1:
        return f"sdata {i} {code} {ln} {fill}", ln
    if k == 2:
        return f"srange {i} {code} {ln} {fill}", ln
    adv = rng.choice([0, 1, 8, 9, ln, ln + 1, max(ln, 1) - 1, 255, 65535, 65536 + ln])
    return f"sadv {i} {code} {adv} {ln} {fill}", ln


def gen_opt_case(rng, nops):
    """a program over NU user slots and a vector of capacity VCAP; the shadow keeps most operations inside the guard"""
    live = [False] * NU
    vlen = 0
    ops = [f"sinit {NU} {VCAP}"]

    def lives():
        return [i for i in range(NU) if live[i]] + [NU + k for k in range(vlen)]

    kinds = (["new"] * 5 + ["copy"] * 2 + ["move"] * 2 + ["assign"] * 4 + ["massign"] * 4 + ["del"] * 2 + ["read"] +
             ["vpush"] * 2 + ["vmove"] + ["verase"] * 2 + ["vpop"])
    for _ in range(nops):
        k = rng.choice(kinds)
        wild = rng.random() < 0.04
        free = [i for i in range(NU) if not live[i]]
        ls = lives()
        anyslot = rng.randrange(NU + VCAP)
        if k == "new":
            i = rng.choice(free) if free and not wild else anyslot
            line, ln = opt_ctor(rng, i)
            ops.append(line)
            if i < NU and not live[i] and ln <= 65535:
                live[i] = True
        elif k in ("copy", "move"):
            if not (free and ls) and not wild:
                continue
            i = rng.choice(free) if free and not wild else anyslot
            j = rng.choice(ls) if ls and not wild else anyslot
            ops.append(f"s{k} {i} {j}")
            if i < NU and not live[i] and j in ls:
                live[i] = True
        elif k in ("assign", "massign"):
            if not ls and not wild:
                continue
            i = rng.choice(ls) if ls and not wild else anyslot
            j = i if rng.random() < 0.25 else (rng.choice(ls) if ls and not wild else anyslot)
            ops.append(f"s{k} {i} {j}")
        elif k == "del":
            us = [i for i in range(NU) if live[i]]
            if not us and not wild:
                continue
            i = rng.choice(us) if us and not wild else anyslot
            ops.append(f"sdel {i}")
            if i < NU:
                live[i] = False
        elif k == "read":
            if ls:
                ops.append(f"sread {rng.choice(ls)}")
        elif k in ("vpush", "vmove"):
            if not ls and not wild:
                continue
            j = rng.choice(ls) if ls and not wild else anyslot
            ops.append(f"{k} {j}")
            if j in ls and vlen < VCAP:
                vlen += 1
        elif k == "verase":
            if vlen == 0 and not wild:
                continue
            e = rng.randrange(vlen) if vlen and not wild else rng.randrange(VCAP + 1)
            ops.append(f"verase {e}")
            if e < vlen:
                vlen -= 1
        elif k == "vpop":
            ops.append("vpop")
            if vlen:
                vlen -= 1
    ops.append("send")
    return ops


OPT_PRELUDE = [f"sinit {NU} {VCAP}", "sdata 0 10 3 1", "srange 1 11 12 32", "sadv 2 12 5 20 64", "srange 4 14 9 96",
               "vpush 4", "sdel 4", "sdata 4 15 8 128", "vmove 4", "sdel 4", "srange 4 16 16 160", "vmove 4", "sdel 4"]
# user: 0 small(3)  1 heap(12)  2 heap(20, advertised 5)  3 free  4 free  5 free ; vector: heap(9) small(8) heap(16)


def opt_atoms():
    occ = [0, 1, 2, NU, NU + 1, NU + 2]
    atoms = []
    for i in occ:
        for j in occ:
            atoms += [f"sassign {i} {j}", f"smassign {i} {j}"]
        atoms += [f"scopy 3 {i}", f"smove 3 {i}", f"vpush {i}", f"vmove {i}", f"sread {i}"]
    atoms += ["sdel 0", "sdel 1", "sdel 2", "sdel 3", "verase 0", "verase 1", "verase 2", "verase 3", "vpop",
              "snull 3 1 9", "sdata 3 2 9 7", "srange 3 3 8 7", "sadv 3 4 9 0 7"]
    return atoms


def opt_exhaustive(rng, limit, depth=2):
    """small scope: every program of `depth` operations on a fixed pool holding small and heap-backed options of
    different lengths in user slots and in the vector (quick tier: a seeded sample of it)"""
    atoms = opt_atoms()
    if depth == 2:
        progs = list(itertools.product(range(len(atoms)), repeat=2))
        if limit < len(progs):
            progs = rng.sample(progs, limit)
    else:
        progs = [tuple(rng.randrange(len(atoms)) for _ in range(depth)) for _ in range(limit)]
    return [OPT_PRELUDE + [atoms[i] for i in idx] + ["send"] for idx in progs]


def opt_known_cases():
    return [
        # KF-C12-2 (fixed): copy assignment onto itself, heap-backed and small; then move assignment onto itself
        [f"sinit {NU} {VCAP}", "sdata 0 3 12 65", "sassign 0 0", "sdata 1 4 8 1", "sassign 1 1", "smassign 1 1", "smassign 0 0", "send"],
        # what seeded/C04 changed: move assignment between two heap-backed options of different advertised lengths,
        # directly and through vector::erase
        [f"sinit {NU} {VCAP}", "sadv 0 1 40 12 0", "sadv 1 2 50 20 0", "smassign 0 1", "sread 1", "send"],
        [f"sinit {NU} {VCAP}", "srange 0 1 12 0", "srange 1 2 20 0", "vmove 0", "vmove 1", "verase 0", "send"],
        # what seeded/C12c changed: copy assignment of a shorter option onto a heap-backed one
        [f"sinit {NU} {VCAP}", "srange 0 1 12 0", "srange 1 2 3 9", "sassign 0 1", "srange 2 3 10 5", "srange 3 4 30 5",
         "sassign 3 2", "send"],
    ]


def run_opt_stream(chk, oexe, cases, chunk=2500, stop_after=60):
    """the option stream in chunks; once a tree is clearly broken (dozens of failing cases, each of them a process
    restart under ASan plus shrinking) the remaining chunks add time, not information"""
    import collections
    stats = collections.Counter()
    for k in range(0, len(cases), chunk):
        ops = [l for c in cases[k:k + chunk] for l in c]
        stats += corr.correspond(chk, AREA, oexe, ops, case_start=OPT_CASE_START, classify=classify_opt, sig_of=sig_of)
        if stats.get("fault", 0) + stats.get("spec", 0) + stats.get("diff", 0) >= stop_after:
            if k + chunk < len(cases):
                chk.extra["option_stream_cut"] = f"stopped after {k + chunk} of {len(cases)} cases: {dict(stats)}"
            break
    return stats


def classify_opt(op, impl):
    w = op.split(" ")
    st = impl.split(" ", 1)[0]
    tag = w[0]
    if st not in ("ok", "init", "end"):
        tag += ":" + st[:12]
    elif w[0] in ("sassign", "smassign") and len(w) == 3:
        tag += ":self" if w[1] == w[2] else (":vec" if int(w[1]) >= NU or int(w[2]) >= NU else "")
    return tag


def classify(op, impl):
    w = op.split(" ")
    st = impl.split(" ", 1)[0]
    tag = w[0]
    if st not in ("ok", "init", "end"):
        tag += ":" + st[:12]
    elif w[0] in ("assign", "massign", "diveq", "setinnerref", "div") and len(w) >= 5:
        a, b = w[-4:-2], w[-2:]
        tag += ":same-chain" if a[0] == b[0] else ":other-chain"
        if a == b:
            tag += ":self"
    return tag


def sig_of(kind, detail, case):
    last = case[-1].split(" ")[0] if case else ""
    clause = detail.split(" ")[1] if kind == "spec" and " " in detail else ""
    return {"kind": kind, "clause": clause, "op": last,
            "fault": detail.split(" ")[1].split("@")[0] if kind == "fault" and " " in detail else ""}


def run(chk):
    from translator import gen_limits
    gen_limits.main([])          # Gen/Limits.lean: constants and limits read from the current source
    chk.trusted.append("translator/gen_limits.py (constants / limits of the source -> Gen/Limits.lean: compiled probe + "
                       "preprocessed function bodies at named anchors; tied to the model numerals by Props/Limits/C12.lean)")
    from translator import gen_members
    try:
        gm = gen_members.main([])      # Gen/Members.lean + harness/c12_members_gen.h: members, special member functions, clone()
    except Exception as e:             # clang cannot parse the tree: the table theorems cannot be stated
        gm = None
        chk.violation("member table cannot be regenerated (translator/gen_members.py): " + str(e)[-1200:],
                      ["translator-failure", str(e)[-3000:]], nofail=True)
    chk.trusted.append("translator/gen_members.py (clang-14 AST of include/tins + the src files defining special members out of "
                       "line -> Gen/Members.lean; verification hooks off); its class list and the copyability of every class "
                       "are compared with the compiler's type traits on every run (`copyclasses`)")
    sb = gen_limits.values().get("optionSmallBuffer")
    # only lengths the literal list below does not contain: on the unchanged tree the random stream stays what it was
    SMALL_BUFFER_EDGE[:] = [x for x in ([sb - 1, sb, sb + 1] if sb is not None and 1 <= sb < 4096 else [])
                            if x not in (0, 1, 7, 8, 9, 10, 16, 40)]
    problems = chk.prove(MODULES, AUDIT, want_leanchecker=(chk.tier == "thorough"))
    problems = gen_limits.name_failures(chk, problems, "C12")   # name the tie theorems that fail
    exe, err = core.build_harness(HARNESS, extra=HARNESS_EXTRA)
    if exe is None:
        chk.violation("implementation does not build: " + err[-1500:], ["build-error"], nofail=True)
        return
    table = class_table(exe)
    rng = random.Random(chk.seed)
    quick = chk.tier == "quick"
    ops = []
    for c in known_cases(table):
        ops += c
    for c in exhaustive_cases(table, 6000 if quick else 10**6, rng):
        ops += c
    ncases = 6000 if quick else 60000
    for i in range(ncases):
        # rotation: every class of the table is the focus of some cases; focus cases stack few classes so that
        # same-class assignments and moves are frequent
        k = 1 + i % 4
        focus = [table[(i * 3 + j * 11) % len(table)] for j in range(k)]
        ops += gen_case(rng, table, rng.choice([6, 10, 16, 30]), classes=focus if i % 5 else None)
    stats = corr.correspond(chk, AREA, exe, ops, case_start=CASE_START, classify=classify, sig_of=sig_of)
    # every concrete class of the member table: all five copy / move operations + clone on populated objects
    mfail = member_failures() if problems else []
    cout, _ = core.run_harness_lines(exe, (), ["copyclasses"], COPY_CASE_START)
    cnames = [x.split(":")[0] for x in cout[0].split(" ")] if cout and ":" in cout[0] else []
    pool = wire_inputs(rng, 150 if quick else 1500)
    cops = ["copyclasses"] + copyall_ops(rng, cnames, pool, 6 if quick else 60)
    suspects = sorted({f[1] for f in mfail if len(f) > 1})
    if suspects:
        # a table theorem failed: search on the classes it names (and the classes derived from / wrapping them): every
        # available input, every mode = every destruction order
        rows = {r["name"]: r for r in (gm or {}).get("rows", [])}
        def related(n):
            r = rows.get(n)
            return n in suspects or (r is not None and any(related(b) for b in r["bases"])) or \
                (r is not None and any(h in suspects for m in r["members"] for h in m["holds"]))
        only = [n for n in cnames if related(n)]
        cops += copyall_ops(rng, cnames, wire_inputs(rng, 600), 400, only=only or cnames)
    cstats = corr.correspond(chk, AREA, exe, cops, case_start=COPY_CASE_START, classify=classify_copy, sig_of=sig_of)
    stats += cstats
    dist = chk.extra.get("input_distribution", {})
    chk.extra["copyall_classes"] = len(cnames)
    if not (cstats.get("spec", 0) + cstats.get("fault", 0) + cstats.get("diff", 0)):
        # every class of the table was really exercised on at least one populated object
        out, _ = core.run_harness_lines(exe, (), [o for o in cops if o.startswith("copyall")], COPY_CASE_START)
        done = {l.split(" ")[1] for l in out if l.startswith("ok ")}
        missing = [n for n in cnames if n not in done]
        if missing or not cnames:
            chk.violation("copyall: no populated object could be built for " + (", ".join(missing) or "any class"),
                          ["copyall-coverage"] + missing, nofail=True)
    # PDUOption at storage level: real options, heap-block census, value oracle
    oexe, oerr = core.build_harness(OPT_HARNESS)
    if oexe is None:
        chk.violation("option harness does not build: " + oerr[-1500:], ["build-error"], nofail=True)
        return
    cases = opt_known_cases() + opt_exhaustive(rng, 3000 if quick else 10**6)
    cases += [gen_opt_case(rng, rng.choice([6, 10, 16, 30])) for _ in range(8000 if quick else 80000)]
    if not quick:
        cases += opt_exhaustive(rng, 40000, depth=3)
        cases += [gen_opt_case(rng, 120) for _ in range(3000)]
    stats += run_opt_stream(chk, oexe, cases, chunk=2500 if quick else 10000)
    if not quick:
        ops = []
        for c in exhaustive_cases(table, 60000, rng, depth=3):      # seeded sample of the 3-operation scope
            ops += c
        stats += corr.correspond(chk, AREA, exe, ops, case_start=CASE_START, classify=classify, sig_of=sig_of)
        for _ in range(4):
            ops = []
            for i in range(1500):
                ops += gen_case(rng, table, 150)
            stats += corr.correspond(chk, AREA, exe, ops, case_start=CASE_START, classify=classify, sig_of=sig_of)
    found = stats.get("spec", 0) + stats.get("fault", 0)
    if mfail and not found:
        # verdict contract: the search (all five operations, every mode / destruction order, every input of the classes
        # named) found no failing input — name the theorem and the member
        what = "; ".join(" | ".join(f[:4]) for f in mfail[:6])
        chk.violation("member table theorem no longer checks (lean/TinsModel/Props/Members/C12.lean): " + what[:1500],
                      ["theorem-failure"] + [" | ".join(f) for f in mfail] +
                      [f"searched: {sum(v for k, v in dist.items() if k.startswith('copyall'))} copyall lines "
                       f"(classes {', '.join(suspects)[:300]}), forest and option streams"], nofail=True)
    for p in problems:
        if not found and not mfail:
            chk.violation("proof obligation no longer checks: " + p[:1500], ["theorem-or-audit-failure", p[:4000]], nofail=True)
    chk.cov["rule"] = ("cases = programs over {new,set,clone,copy-ctor,move-ctor,operator/,/=,copy-assign,move-assign,"
                       "inner_pdu(ptr|ref|null),release_inner_pdu,delete,Packet wrap/copy/move/assign/release//=,PtrPacket "
                       "adoption,PDUOption copy/move} on a pool of 4 handles of real objects (51 classes in rotation); "
                       "option cases = programs over {4 constructors (data lengths 0,1,7,8,9,16,255,300,65535,65536; "
                       "advertised != real length), copy-ctor, move-ctor, copy-assign and move-assign (25% onto itself), "
                       "destroy, read, vector push_back(copy|move)/pop_back/erase} on 6 user slots + a vector of capacity 4 "
                       "of real PDUOption<uint8_t,IP>, and every 2-operation program (thorough: + sampled 3-operation "
                       "programs) over a fixed pool of small and heap-backed options; "
                       "distinct_nontrivial counts distinct (operation, resulting forest / option pool) pairs")
    chk.extra["classes"] = [n for _, n, _ in table]
    chk.extra["modelled_not_proved"] = ["std::vector<option> reallocation (push_back beyond capacity = move-construct every element "
                                        "into new storage + destroy the old ones): each of those member calls is modelled and "
                                        "proved, the composite is not an operation of the model; the harness reserves capacity",
                                        "option_type other than one byte, and the option containers inside the PDU classes "
                                        "(same class template): tied at value level only (forest harness, container-kind classes)",
                                        "member-wise copy/move of each class abstracted to one value per layer — now tied to the "
                                        "source: Gen/Members.lean lists every data member of every class of the scope, "
                                        "Props/Members/C12.lean proves that all are deep values except the allow-listed pointers "
                                        "(each mirrored by a named model function); what `deep value` means for std containers "
                                        "and POD structs is the C++ standard's member-wise copy, not modelled further",
                                        "serialisation equality of copies and frame: checked on the implementation only "
                                        "(forest stream + `copyall` on populated objects of every concrete class)",
                                        "the `mentions` relation of user-provided copy / move operations is syntactic (the member "
                                        "is named in the body, an initialiser or a member function called): it does not prove the "
                                        "member is copied correctly — the harness compares the result",
                                        "TCPStream / IPv4Reassembler use of clone/release/inner_pdu: only the primitives "
                                        "they call are modelled (their own state machines belong to C06/C08)"]
    chk.extra["theorem_summary_members"] = {
        "members_scan_complete": "the translator classified every member type and found every user-declared special member's body",
        "only_known_pointer_members": "every data member of every class of the scope is a deep value except the allow-listed "
                                      "pointers / references / callbacks, each with its kind and the model function mirroring it",
        "allow_list_not_stale": "every allow-list entry names an existing member",
        "every_concrete_class_overrides_clone": "every concrete PDU class declares clone() { return new X(*this); } with X itself",
        "no_class_slices": "the final overrider of clone() through the hierarchy constructs the class itself",
        "rule_of_three_consistent": "owners of raw storage user-declare copy ctor / copy assignment / destructor and leave no move "
                                    "to the compiler; user-provided copies and moves mention every member and base",
    }
    chk.extra["theorem_summary"] = {
        "model_refines_spec": "for every program the pointer model state represents the chain-specification state",
        "forest_inv": "parent link = owner, inner pointers owned and live, handles unique, no cycles, freed once, no fault",
        "exactly_one_owner": "every live layer has exactly one owner (a parent layer or a user handle)",
        "destroy_all_frees_each_once": "after `end` nothing is alive and every allocated address is in the release log once",
        "clone_deep_equal": "clone()/copy-ctor: equal fields, fresh storage, source unchanged",
        "copy_assign_equal": "a = b: below a equals below b (also when b is shorter), fresh storage; same class: a equals b",
        "copy_independent + handles_disjoint": "an operation changes nothing a handle it does not name observes; handles share no layer",
        "move_transfers": "move-ctor: the inner layers themselves change owner, source left as one moved-from layer",
        "copyAssignAlwaysSafe_fails / copy_assign_safe_partial": "KF-C12-3: assignment from an owned layer faults; safe outside that region",
        "option_storage_inv (+ _step, _run)": "PDUOption pool: heap-backed option owns one live block of real_size_ bytes, no sharing, "
                                              "no leak, no fault (nothing released is read or released again), release log = dead cells; "
                                              "inductive over every operation from every state with the invariant",
        "option_destroy_all_frees_each_block_once / option_owner_destroyed_frees_block": "after `end` no block is alive and every "
                                              "allocated block is in the release log exactly once; destroying an owner releases its block then",
        "option_value_refines / option_model_refines_spec / option_guards_agree": "what every option reports equals the plain value "
                                              "model after every history; model and value model refuse the same operations",
        "option_copy_assign_equal / option_move_assign_transfers / option_moved_from_owns_nothing / option_small_owns_nothing":
            "copy = same value (also onto itself); move = target gets the value, source moved-from (data gone iff longer than 8 bytes), "
            "onto itself the option is left moved-from; moved-from and small options own no block",
        "option_copy_independent / option_copy_then_op": "an operation changes nothing an option it does not name reports; after a copy "
                                              "either side can be changed without the other noticing",
        "option_erase_closes_gap": "vector::erase (move assignments down + destroy last) shifts the later elements by one, nothing else changes",
        "pinned_option_self_assign_reads_released / fixed_option_self_assign_noop": "KF-C12-2 at storage level: the operator without "
                                              "identity test reads its released buffer; the fixed one is a no-op on itself",
    }
    chk.assumptions += [
        "operations the guard refuses are outside WellFormedProgram: deleting/adopting what the user does not own, a "
        "dangling reference, `a = layer owned by a`, move-assignment between two layers of one chain, "
        "`Packet::operator/=` on an empty Packet",
        "a moved-from container member is empty (libstdc++)",
        "std::memcpy(p, p, n) with identical source and destination (move assignment of a small option onto itself) leaves "
        "the buffer unchanged (formally an overlapping memcpy; glibc and ASan accept identical pointers)",
        "std::vector<option>::erase move-assigns the later elements in ascending order and destroys the last one, push_back "
        "with spare capacity constructs in place (libstdc++ _M_erase / emplace_back), heap addresses are never handed out "
        "twice in the model (address reuse by the allocator is invisible to a program without dangling pointers)",
        "freed addresses are not handed out again within one operation (ASan quarantine) — display identities rely on it",
    ]
    chk.trusted += ["correspondence harness harness/c12_ownership.cpp + generators in checks/C12.py",
                    "correspondence harness harness/c12_option.cpp (ASan allocator hooks count the blocks allocated while an "
                    "option operation runs)",
                    "g++ 12 / ASan+UBSan+LSan build of the repo working tree, live-PDU census hook"]
    corr.finalize_cov(chk)


def replay(path):
    ops = [l.rstrip("\n") for l in open(path) if not l.startswith("#") and l.strip()]
    if ops and ops[0].split(" ")[0] in OPT_CASE_START:         # a program of the option-storage stream
        exe, err = core.build_harness(OPT_HARNESS)
        start = OPT_CASE_START
    else:
        exe, err = core.build_harness(HARNESS, extra=HARNESS_EXTRA)
        start = CASE_START
    impl, mod, spec, faults = corr.evaluate(AREA, exe, ops, start)
    bad = corr.first_problem(ops, impl, mod, spec)
    for o, a, b, c in zip(ops, impl, mod, spec):
        print(o[:200]); print("  impl :", a[:300]); print("  model:", b[:300]); print("  spec :", c)
    if bad:
        print(f"VIOLATION property=C12 replay={path}")
        return 1
    return 0
