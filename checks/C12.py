"""C12 — packet object trees keep sound ownership under copy, move, clone and re-linking."""
import itertools, random
from vlib import core, corr

AREA = "C12"
SMALL_BUFFER_EDGE = []          # filled by run() from the generated table
MODULES = ["TinsModel.Props.C12", "TinsModel.Props.Limits.C12"]   # + the constants / limits tied to the source (translator/gen_limits.py)
AUDIT = ["Audit/C12.lean", "Audit/LimitsC12.lean"]
LEVEL = "proof"
HARNESS = "c12_ownership"
HARNESS_EXTRA = ["-fno-access-control"]      # PtrPacket's constructor and two members without public accessors
CASE_START = ("init",)
MANIFEST = dict(
    text="Lean 4 theorems over a code-shaped pointer model (heap of cells with inner/parent links, fuel-bounded "
         "recursive delete/clone) of PDU/Packet/PDUOption copy, move, clone, operator/, inner_pdu, release: the model "
         "refines a chain-level specification for every program, hence the ownership-forest invariant, exactly-once "
         "destruction, deep-equal copies (also from a shorter source) and independence hold for all programs. Tied "
         "to the code by running random and small-scope-exhaustive programs on real objects of 51 classes under "
         "ASan+LSan with the live-PDU census, comparing the printed inner/parent forest with the model (modulo "
         "address renaming) and with the specification oracle.",
    note="Trusted: Lean kernel + standard axioms; hand-written model tied by correspondence "
         "(harness/c12_ownership.cpp); member-wise copy/move of each class abstracted to one value per layer; "
         "PDUOption's small-buffer/heap union and vector storage observed by sanitizers only; programs the guard "
         "refuses (documented-undefined use) are outside the property.",
    technique="Lean 4 proof (refinement of a pointer model to a chain specification, forest invariant) + "
              "model/impl correspondence on real objects",
    design="DESIGN.md §6 C12")
MANIFEST["note"] += (" Constants and limits of the C++ source that the model restates (translator/gen_limits.py -> Gen/Limits.lean: "
                     "compiled probe + preprocessed function bodies at named anchors) are tied to the model's numerals by the "
                     "theorems of lean/TinsModel/Props/Limits/C12.lean (audit: Audit/LimitsC12.lean); tools/LIMITS-INVENTORY.md lists "
                     "what is tied and what is not.")

# class table: must agree with harness/c12_ownership.cpp (checked at run time through the `classes` op)
KINDS = {"p": 0, "c": 1, "f": 2}
NSLOTS = 4
MAXLEN = 6


def class_table(exe):
    out, _ = core.run_harness_lines(exe, (), ["classes"], CASE_START)
    table = []
    for item in out[0].split(" "):
        idx, name, kind = item.split(":")
        table.append((int(idx), name, KINDS[kind]))
    return table


# ----------------------------------------------------------------------------- generator (with a light shadow state)

class Shadow:
    """what the generator remembers to keep most operations well-formed: per slot, its kind and the classes of its chain"""

    def __init__(self, n):
        self.s = [None] * n          # None | ['P', [cls...]] | ['K', [cls...]]
        self.o = [None] * n          # option payload lengths

    def empty(self):
        return [i for i, x in enumerate(self.s) if x is None]

    def chains(self):
        return [i for i, x in enumerate(self.s) if x is not None and x[1]]

    def pkts(self):
        return [i for i, x in enumerate(self.s) if x is not None and x[0] == 'K']

    def pdus(self):
        return [i for i, x in enumerate(self.s) if x is not None and x[0] == 'P']


def gen_case(rng, table, nops, classes=None):
    """one program; `classes`: the classes this case draws from (rotation over the whole table across cases)"""
    sh = Shadow(NSLOTS)
    ops = [f"init {NSLOTS}"]
    classes = classes or table

    def ref(must=None):
        cs = sh.chains() if must is None else [must]
        if not cs:
            return None
        s = rng.choice(cs)
        ch = sh.s[s][1]
        d = rng.randrange(len(ch)) if rng.random() < 0.8 else rng.randrange(len(ch) + 1)
        return s, d

    def sub(r):
        s, d = r
        return list(sh.s[s][1][d:])

    def valid(r):
        return r is not None and sh.s[r[0]] is not None and r[1] < len(sh.s[r[0]][1])

    kinds = ["new"] * 6 + ["set"] * 3 + ["clone", "copy", "movector", "div", "diveq", "diveq", "assign", "assign", "assign",
             "massign", "massign", "setinner", "setinnerref", "setnull", "release", "release", "del", "pknew", "pkown",
             "pkptr", "pkempty", "pkcopy", "pkassign", "pkmove", "pkmassign", "pkrelease", "pkdiv"] + ["opt"] * 2
    for _ in range(nops):
        k = rng.choice(kinds)
        wild = rng.random() < 0.04        # a few operations are emitted without regard to the shadow (guard coverage)
        e = sh.empty()
        tgt = rng.choice(e) if e and not wild else rng.randrange(NSLOTS)
        if k == "new":
            idx, name, kind = rng.choice(classes)
            val = rng.choice([0, 1, 7, 8, 9, 18, 19, 200, 255, rng.randrange(256)])
            ops.append(f"new {tgt} {idx} {kind} {val}")
            if sh.s[tgt] is None:
                sh.s[tgt] = ['P', [idx]]
        elif k == "set":
            r = ref()
            if r:
                ops.append(f"set {r[0]} {r[1]} {rng.randrange(256)}")
        elif k in ("clone", "copy", "pknew"):
            r = ref()
            if r:
                ops.append(f"{k} {tgt} {r[0]} {r[1]}")
                if sh.s[tgt] is None and valid(r):
                    sh.s[tgt] = ['K' if k == "pknew" else 'P', sub(r)]
        elif k == "movector":
            r = ref()
            if r:
                ops.append(f"movector {tgt} {r[0]} {r[1]}")
                if sh.s[tgt] is None and valid(r):
                    c = sub(r)
                    del sh.s[r[0]][1][r[1] + 1:]
                    sh.s[tgt] = ['P', c]
        elif k == "div":
            a, b = ref(), ref()
            if a and b:
                if valid(a) and valid(b) and len(sub(a)) + len(sub(b)) > MAXLEN:
                    continue
                ops.append(f"div {tgt} {a[0]} {a[1]} {b[0]} {b[1]}")
                if sh.s[tgt] is None and valid(a) and valid(b):
                    sh.s[tgt] = ['P', sub(a) + sub(b)]
        elif k in ("diveq", "setinnerref", "assign"):
            a, b = ref(), ref()
            if a and b and rng.random() < 0.25:
                b = ref(must=a[0])           # aliasing: source inside the target's own chain
            if k == "assign" and a and rng.random() < 0.5:
                # prefer a source whose top layer has the class of the target (member-wise assignment)
                cands = [(s, d) for s in sh.chains() for d in range(len(sh.s[s][1]))
                         if valid(a) and sh.s[s][1][d] == sh.s[a[0]][1][a[1]]]
                if cands:
                    b = rng.choice(cands)
            if a and b:
                if valid(a) and valid(b):
                    keep = len(sh.s[a[0]][1]) if k == "diveq" else a[1] + 1
                    add = sub(b) if k != "assign" else sub(b)[1:]
                    if keep + len(add) > MAXLEN:
                        continue
                ops.append(f"{k} {a[0]} {a[1]} {b[0]} {b[1]}")
                if valid(a) and valid(b) and not (k == "assign" and a[0] == b[0] and a[1] < b[1]):
                    sh.s[a[0]][1] = sh.s[a[0]][1][:keep] + add
        elif k == "massign":
            a, b = ref(), ref()
            if a and b and rng.random() < 0.15:
                b = a
            if a and b:
                ops.append(f"massign {a[0]} {a[1]} {b[0]} {b[1]}")
                if valid(a) and valid(b):
                    if a[0] != b[0]:
                        if a[1] + len(sub(b)) > MAXLEN:
                            ops.pop(); continue
                        sh.s[a[0]][1] = sh.s[a[0]][1][:a[1] + 1] + sub(b)[1:]
                        del sh.s[b[0]][1][b[1] + 1:]
                    elif a == b:
                        del sh.s[a[0]][1][a[1] + 1:]
        elif k == "setinner":
            a = ref()
            ps = [p for p in sh.pdus() if a and p != a[0]] or ([rng.randrange(NSLOTS)] if wild else [])
            if a and ps:
                s2 = rng.choice(ps)
                if valid(a) and sh.s[s2] and a[1] + 1 + len(sh.s[s2][1]) > MAXLEN:
                    continue
                ops.append(f"setinner {a[0]} {a[1]} {s2}")
                if valid(a) and sh.s[s2] and sh.s[s2][0] == 'P' and s2 != a[0]:
                    sh.s[a[0]][1] = sh.s[a[0]][1][:a[1] + 1] + sh.s[s2][1]
                    sh.s[s2] = None
        elif k == "setnull":
            a = ref()
            if a:
                ops.append(f"setnull {a[0]} {a[1]}")
                if valid(a):
                    del sh.s[a[0]][1][a[1] + 1:]
        elif k == "release":
            a = ref()
            if a:
                ops.append(f"release {tgt} {a[0]} {a[1]}")
                if sh.s[tgt] is None and valid(a):
                    rest = sub(a)[1:]
                    del sh.s[a[0]][1][a[1] + 1:]
                    if rest:
                        sh.s[tgt] = ['P', rest]
        elif k == "del":
            occ = [i for i, x in enumerate(sh.s) if x is not None]
            if occ and rng.random() < 0.6:
                s = rng.choice(occ)
                ops.append(f"del {s}")
                sh.s[s] = None
        elif k in ("pkown", "pkptr"):
            ps = sh.pdus()
            if ps:
                s2 = rng.choice(ps)
                ops.append(f"{k} {tgt} {s2}")
                if sh.s[tgt] is None:
                    sh.s[tgt] = ['K', sh.s[s2][1]]
                    sh.s[s2] = None
        elif k == "pkempty":
            ops.append(f"pkempty {tgt}")
            if sh.s[tgt] is None:
                sh.s[tgt] = ['K', []]
        elif k in ("pkcopy", "pkmove", "pkrelease"):
            ps = sh.pkts()
            if ps:
                p = rng.choice(ps)
                ops.append(f"{k} {tgt} {p}")
                if sh.s[tgt] is None:
                    c = list(sh.s[p][1])
                    if k == "pkcopy":
                        sh.s[tgt] = ['K', c]
                    elif k == "pkmove":
                        sh.s[tgt] = ['K', c]; sh.s[p][1] = []
                    else:
                        sh.s[p][1] = []
                        if c:
                            sh.s[tgt] = ['P', c]
        elif k in ("pkassign", "pkmassign"):
            ps = sh.pkts()
            if ps:
                p, q = rng.choice(ps), rng.choice(ps)
                ops.append(f"{k} {p} {q}")
                if p != q:
                    if k == "pkassign":
                        sh.s[p][1] = list(sh.s[q][1])
                    else:
                        sh.s[p][1], sh.s[q][1] = sh.s[q][1], sh.s[p][1]
        elif k == "pkdiv":
            ps = sh.pkts()
            b = ref()
            if ps and b:
                p = rng.choice(ps)
                if valid(b) and len(sh.s[p][1]) + len(sub(b)) > MAXLEN:
                    continue
                ops.append(f"pkdiv {p} {b[0]} {b[1]}")
                if valid(b) and sh.s[p][1]:
                    sh.s[p][1] = sh.s[p][1] + sub(b)
        elif k == "opt":
            kk = rng.choice(["onew", "onew", "ocopy", "omove", "oassign", "oassign", "omassign", "odel"])
            i, j = rng.randrange(NSLOTS), rng.randrange(NSLOTS)
            if kk == "onew":
                # payload lengths around PDUOption::small_buffer_size as the source currently has it (Gen/Limits)
                ln = rng.choice([0, 1, 7, 8, 9, 10, 16, 40, rng.randrange(0, 70)] + SMALL_BUFFER_EDGE)
                ops.append(f"onew {i} {rng.randrange(256)} {ln} {rng.randrange(256)}")
            elif kk == "odel":
                ops.append(f"odel {i}")
            else:
                if rng.random() < 0.3:
                    j = i
                ops.append(f"{kk} {i} {j}")
    ops.append("end")
    return ops


def exhaustive_cases(table, limit, rng, depth=2):
    """small scope: every program of <= 3 re-linking/copy operations over a fixed pool of three stacked objects of
    mixed classes (a 3-layer chain, a 1-layer chain of the same top class, a Packet), at every reference"""
    out = []
    tops = [t for t in table if t[2] != 2]
    refs = [(0, 0), (0, 1), (0, 2), (1, 0), (2, 0)]
    atoms = []
    for a in refs:
        atoms += [f"setnull {a[0]} {a[1]}", f"release 3 {a[0]} {a[1]}", f"clone 3 {a[0]} {a[1]}", f"movector 3 {a[0]} {a[1]}",
                  f"set {a[0]} {a[1]} 77", f"pknew 3 {a[0]} {a[1]}"]
        for b in refs:
            atoms += [f"assign {a[0]} {a[1]} {b[0]} {b[1]}", f"massign {a[0]} {a[1]} {b[0]} {b[1]}",
                      f"diveq {a[0]} {a[1]} {b[0]} {b[1]}", f"setinnerref {a[0]} {a[1]} {b[0]} {b[1]}",
                      f"div 3 {a[0]} {a[1]} {b[0]} {b[1]}"]
    atoms += ["del 0", "del 1", "del 2", "del 3", "setinner 0 0 1", "setinner 1 0 0", "setinner 0 2 1", "pkown 3 1",
              "pkcopy 3 2", "pkmove 3 2", "pkrelease 3 2", "pkassign 2 2", "pkmassign 2 2", "pkdiv 2 0 1", "pkdiv 2 1 0"]
    if depth == 2:
        pairs = list(itertools.product(range(len(atoms)), repeat=2))
        if limit < len(pairs):
            pairs = rng.sample(pairs, limit)          # quick tier: a seeded sample of the small scope
    else:
        pairs = [tuple(rng.randrange(len(atoms)) for _ in range(depth)) for _ in range(limit)]
    for n, idx in enumerate(pairs):
        prog = tuple(atoms[i] for i in idx)
        x, y, z = tops[n % len(tops)], tops[(n * 7 + 3) % len(tops)], tops[(n * 13 + 5) % len(tops)]
        pre = [f"init {NSLOTS}", f"new 0 {x[0]} {x[2]} 9", f"new 1 {y[0]} {y[2]} 18", f"new 3 {z[0]} {z[2]} 200",
               "diveq 0 0 1 0", "diveq 0 0 3 0", "del 3", f"new 2 {x[0]} {x[2]} 5", "pkown 3 2", "pkmove 2 3", "del 3"]
        out.append(pre + list(prog) + ["end"])
    return out


def known_cases(table):
    """the defects recorded for this property, reproduced on every run (they must stay fixed)"""
    eth, ip, tcp = 0, 1, 2
    return [
        # KF-C12-1: copy-assignment from a packet with fewer layers kept the target's old upper layers
        [f"init {NSLOTS}", f"new 0 {eth} 0 7", f"new 1 {ip} 1 9", "diveq 0 0 1 0", f"new 2 {eth} 0 5", "assign 0 0 2 0", "end"],
        [f"init {NSLOTS}", f"new 0 {ip} 1 7", f"new 1 {tcp} 1 9", "diveq 0 0 1 0", f"new 2 {eth} 0 5", "assign 0 0 2 0", "end"],
        # KF-C12-2: PDUOption copy-assignment onto itself with a heap payload
        [f"init {NSLOTS}", "onew 0 3 12 65", "oassign 0 0", "onew 1 4 8 1", "oassign 1 1", "omassign 0 0", "end"],
        # KF-C12-3 (known, design decision): `a = *a.inner_pdu()` — reproduced with the unguarded `assignraw`
        [f"init {NSLOTS}", f"new 0 {ip} 1 9", f"new 1 {ip} 1 7", "setinner 0 0 1", "assignraw 0 0 0 1", "end"],
    ]


def classify(op, impl):
    w = op.split(" ")
    st = impl.split(" ", 1)[0]
    tag = w[0]
    if st not in ("ok", "init", "end"):
        tag += ":" + st[:12]
    elif w[0] in ("assign", "massign", "diveq", "setinnerref", "div") and len(w) >= 5:
        a, b = w[-4:-2], w[-2:]
        tag += ":same-chain" if a[0] == b[0] else ":other-chain"
        if a == b:
            tag += ":self"
    return tag


def sig_of(kind, detail, case):
    last = case[-1].split(" ")[0] if case else ""
    clause = detail.split(" ")[1] if kind == "spec" and " " in detail else ""
    return {"kind": kind, "clause": clause, "op": last,
            "fault": detail.split(" ")[1].split("@")[0] if kind == "fault" and " " in detail else ""}


def run(chk):
    from translator import gen_limits
    gen_limits.main([])          # Gen/Limits.lean: constants and limits read from the current source
    chk.trusted.append("translator/gen_limits.py (constants / limits of the source -> Gen/Limits.lean: compiled probe + "
                       "preprocessed function bodies at named anchors; tied to the model numerals by Props/Limits/C12.lean)")
    sb = gen_limits.values().get("optionSmallBuffer")
    # only lengths the literal list below does not contain: on the unchanged tree the random stream stays what it was
    SMALL_BUFFER_EDGE[:] = [x for x in ([sb - 1, sb, sb + 1] if sb is not None and 1 <= sb < 4096 else [])
                            if x not in (0, 1, 7, 8, 9, 10, 16, 40)]
    problems = chk.prove(MODULES, AUDIT, want_leanchecker=(chk.tier == "thorough"))
    problems = gen_limits.name_failures(chk, problems, "C12")   # name the tie theorems that fail
    exe, err = core.build_harness(HARNESS, extra=HARNESS_EXTRA)
    if exe is None:
        chk.violation("implementation does not build: " + err[-1500:], ["build-error"], nofail=True)
        return
    table = class_table(exe)
    rng = random.Random(chk.seed)
    quick = chk.tier == "quick"
    ops = []
    for c in known_cases(table):
        ops += c
    for c in exhaustive_cases(table, 6000 if quick else 10**6, rng):
        ops += c
    ncases = 6000 if quick else 60000
    for i in range(ncases):
        # rotation: every class of the table is the focus of some cases; focus cases stack few classes so that
        # same-class assignments and moves are frequent
        k = 1 + i % 4
        focus = [table[(i * 3 + j * 11) % len(table)] for j in range(k)]
        ops += gen_case(rng, table, rng.choice([6, 10, 16, 30]), classes=focus if i % 5 else None)
    stats = corr.correspond(chk, AREA, exe, ops, case_start=CASE_START, classify=classify, sig_of=sig_of)
    if not quick:
        ops = []
        for c in exhaustive_cases(table, 60000, rng, depth=3):      # seeded sample of the 3-operation scope
            ops += c
        stats += corr.correspond(chk, AREA, exe, ops, case_start=CASE_START, classify=classify, sig_of=sig_of)
        for _ in range(4):
            ops = []
            for i in range(1500):
                ops += gen_case(rng, table, 150)
            stats += corr.correspond(chk, AREA, exe, ops, case_start=CASE_START, classify=classify, sig_of=sig_of)
    for p in problems:
        found = stats.get("spec", 0) + stats.get("fault", 0)
        if not found:
            chk.violation("proof obligation no longer checks: " + p[:1500], ["theorem-or-audit-failure", p[:4000]], nofail=True)
    chk.cov["rule"] = ("cases = programs over {new,set,clone,copy-ctor,move-ctor,operator/,/=,copy-assign,move-assign,"
                       "inner_pdu(ptr|ref|null),release_inner_pdu,delete,Packet wrap/copy/move/assign/release//=,PtrPacket "
                       "adoption,PDUOption copy/move} on a pool of 4 handles of real objects (51 classes in rotation); "
                       "distinct_nontrivial counts distinct (operation, resulting forest) pairs")
    chk.extra["classes"] = [n for _, n, _ in table]
    chk.extra["modelled_not_proved"] = ["PDUOption small-buffer/heap union (value level only; memory observed by ASan)",
                                        "member-wise copy/move of each class abstracted to one value per layer",
                                        "serialisation equality of copies and frame: checked on the implementation only",
                                        "TCPStream / IPv4Reassembler use of clone/release/inner_pdu: only the primitives "
                                        "they call are modelled (their own state machines belong to C06/C08)"]
    chk.extra["theorem_summary"] = {
        "model_refines_spec": "for every program the pointer model state represents the chain-specification state",
        "forest_inv": "parent link = owner, inner pointers owned and live, handles unique, no cycles, freed once, no fault",
        "exactly_one_owner": "every live layer has exactly one owner (a parent layer or a user handle)",
        "destroy_all_frees_each_once": "after `end` nothing is alive and every allocated address is in the release log once",
        "clone_deep_equal": "clone()/copy-ctor: equal fields, fresh storage, source unchanged",
        "copy_assign_equal": "a = b: below a equals below b (also when b is shorter), fresh storage; same class: a equals b",
        "copy_independent + handles_disjoint": "an operation changes nothing a handle it does not name observes; handles share no layer",
        "move_transfers": "move-ctor: the inner layers themselves change owner, source left as one moved-from layer",
        "copyAssignAlwaysSafe_fails / copy_assign_safe_partial": "KF-C12-3: assignment from an owned layer faults; safe outside that region",
    }
    chk.assumptions += [
        "operations the guard refuses are outside WellFormedProgram: deleting/adopting what the user does not own, a "
        "dangling reference, `a = layer owned by a`, move-assignment between two layers of one chain, "
        "`Packet::operator/=` on an empty Packet",
        "a moved-from container member is empty (libstdc++)",
        "freed addresses are not handed out again within one operation (ASan quarantine) — display identities rely on it",
    ]
    chk.trusted += ["correspondence harness harness/c12_ownership.cpp + generators in checks/C12.py",
                    "g++ 12 / ASan+UBSan+LSan build of the repo working tree, live-PDU census hook"]
    corr.finalize_cov(chk)


def replay(path):
    exe, err = core.build_harness(HARNESS, extra=HARNESS_EXTRA)
    ops = [l.rstrip("\n") for l in open(path) if not l.startswith("#") and l.strip()]
    impl, mod, spec, faults = corr.evaluate(AREA, exe, ops, CASE_START)
    bad = corr.first_problem(ops, impl, mod, spec)
    for o, a, b, c in zip(ops, impl, mod, spec):
        print(o[:200]); print("  impl :", a[:300]); print("  model:", b[:300]); print("  spec :", c)
    if bad:
        print(f"VIOLATION property=C12 replay={path}")
        return 1
    return 0
