"""Common body of the four wire checks C01–C04 (they share the harness and the Lean wire model and differ in
oracle, generators and theorems)."""
import importlib, os, random
from vlib import core, corr
from checks import wire_common as wc

FAMILIES = ["L2", "Ip", "Ip6", "Transport", "Icmp", "App", "Wifi"]
FAMILY_AUDITS = [f"Audit/Wire{f}.lean" for f in FAMILIES] + ["Audit/WireChain.lean"]


def family_gens():
    """optional per-family structured generators: checks/wire_gen_<fam>.py with
       gen_parse(rng, n) -> [op lines]   and   gen_build(rng, n) -> [op lines (new/push/set/show programs)]"""
    mods = []
    for f in FAMILIES + ["extra"]:
        try:
            mods.append(importlib.import_module("checks.wire_gen_" + f.lower()))
        except ImportError:
            pass
    return mods


def sig_of(kind, detail, case):
    """signature of a minimised failing case, matched against known findings; a family module may narrow it with
    refine_sig(sig, case_lines, detail) -> sig (e.g. add {"when": "ip-option-0x80"} computed from the case)."""
    op = case[-1].split(" ")
    cls = op[1] if len(op) > 1 and op[0] == "parse" else "api"
    if kind == "spec":
        sig = {"kind": kind, "clause": detail.split(" ")[1], "class": cls}
    elif kind == "fault":
        sig = {"kind": kind, "site": detail.split(" ")[1] if " " in detail else detail, "class": cls}
    else:
        sig = {"kind": kind, "class": cls}
    for g in family_gens():
        if hasattr(g, "refine_sig"):
            sig = g.refine_sig(sig, case, detail) or sig
    return sig


def run_property(chk, pid, want_parse=True, want_build=False, quick_n=6000, thorough_n=300000, defer_problems=False, no_corr=False):
    """defer_problems: do not report theorems that no longer check, return (problems, totals) for the caller to explain
    (C01: raw-site coverage with a directed search).  no_corr: prove only, run no correspondence (a test switch of C01)."""
    import translator.gen_tags as gen_tags
    gen_tags.main([])
    # constants / limits the wire models restate, read from the current source and tied in Props/Limits/Wire.lean
    # (which also compares the wire model's RadioTap field table and CRC table with the generated ones)
    from translator import gen_limits, gen_radiotap, gen_crc
    gen_limits.main([]); gen_radiotap.main([]); gen_crc.main([])
    problems = chk.prove([f"TinsModel.Props.{pid}", "TinsModel.Props.Limits.Wire"],
                         [f"Audit/{pid}.lean", "Audit/LimitsWire.lean"] + FAMILY_AUDITS,
                         want_leanchecker=(chk.tier == "thorough"))
    problems = gen_limits.name_failures(chk, problems, "Wire")       # name the tie theorems that fail
    rng = random.Random(chk.seed)
    n = quick_n if chk.tier == "quick" else thorough_n
    ops = []
    corpus = os.path.join(core.VERIF, "corpus", pid + ".ops")
    if os.path.exists(corpus):
        ops += [l.rstrip("\n") for l in open(corpus) if l.strip() and not l.startswith("#")]
    gens = family_gens()
    if no_corr:
        ops, want_parse, want_build = [], False, False
    if want_parse:
        ops += wc.every_length_ops(upto=40 if chk.tier == "quick" else 96)
        ops += wc.gen_parse_ops(rng, n)
        for g in gens:
            if hasattr(g, "gen_parse"):
                ops += g.gen_parse(rng, n // 4)
    if want_build:
        for g in gens:
            if hasattr(g, "gen_build"):
                ops += g.gen_build(rng, n // 4)
        ops += builtin_build_ops(rng, max(200, n // 20))
        ops += limit_boundary_ops()
    total = collections_counter()
    B = 20000
    i = 0
    while i < len(ops):
        chunk = ops[i:i + B]
        # never cut a build program in two
        while i + len(chunk) < len(ops) and not ops[i + len(chunk)].split(" ")[0] in ("parse", "new"):
            chunk.append(ops[i + len(chunk)])
        i += len(chunk)
        st = wc.run_wire(chk, pid, chunk, sig_of=sig_of)
        if st is None:
            return (problems, total) if defer_problems else None
        total.update(st)
    for p in ([] if defer_problems else problems):
        if not (total.get("spec", 0) + total.get("fault", 0)):
            chk.violation("proof obligation no longer checks: " + p[:1500], ["theorem-or-audit-failure", p[:4000]], nofail=True)
    chk.extra["unmodelled_lines"] = total.get("unmodelled_lines", 0)
    chk.extra["modelled_classes"] = modelled_classes()
    chk.extra["checker_cmd"] = (f"cd /verif/lean && lake build TinsModel.Props.{pid} && for f in Audit/{pid}.lean "
                                + " ".join(FAMILY_AUDITS) + "; do lake env lean $f; done")
    chk.cov["rule"] = ("parse ops: seed packets harvested from libtins' own test vectors, mutants of them (truncate / bit flip / "
                       "boundary byte / extend / delete), every length 0..N of zeros and ones for every entry point, random short "
                       "buffers; build ops: API programs (new/push/set/show). distinct_nontrivial = distinct (op, implementation "
                       "result) pairs")
    chk.trusted += ["correspondence harness harness/wire_main.cpp + wire_<family>.h; generators checks/wire_common.py, checks/wire_gen_*.py",
                    "translator/gen_tags.py (next-protocol tables regenerated from src/detail/pdu_helpers.cpp on this run)",
                    "translator/gen_limits.py (header sizes, minimum frame sizes, RFC 4884 minimum and units, header-length maxima, "
                    "defaults: compiled probe + preprocessed function bodies at named anchors; tied to the wire models' numerals by "
                    "Props/Limits/Wire.lean)",
                    "g++ 12 / ASan+UBSan(-enum)+LSan build of /repo's working tree with -DTINS_VERIF_HOOKS"]
    chk.assumptions += [
        "classes outside `modelled_classes` are covered by the implementation-side oracle only (no Lean model yet): "
        "their lines are counted in `unmodelled_lines`",
        "little-endian host (the models follow the little-endian #if branches)",
        "UBSan's enum check is off: wire codes outside the enumerators are stored in enum-typed option fields by design",
    ]
    corr.finalize_cov(chk)
    if defer_problems:
        return problems, total


def collections_counter():
    import collections
    return collections.Counter()


def modelled_classes():
    out = core.run_driver("model", "C01", "\n".join(f"parse {c} -" for c in wc.ENTRY_CLASSES) + "\n")
    return [c for c, o in zip(wc.ENTRY_CLASSES, out) if not o.startswith("unmodelled")]


RECOGNISED_ETHER = {0x0800, 0x86dd, 0x0806, 0x8863, 0x8864, 0x888e, 0x8100, 0x88a8, 0x9100, 0x8847}


def unrecognised_ether(rng):
    while True:
        v = rng.choice([0, 0x1234, 0x9000, 0x0500, 0xffff, rng.randrange(65536)])
        if v not in RECOGNISED_ETHER:
            return v


def builtin_build_ops(rng, n):
    """API programs over the classes modelled by the exemplar code (EthernetII, UDP, RawPDU).  Only stacks the
    protocols can express are generated: EthernetII has no tag for UDP, so UDP appears as the outermost layer; an
    EthernetII tag is set by hand only to values libtins does not dispatch on (a tag that names another protocol than
    the payload that follows is not a representable packet)."""
    ops = []
    for _ in range(n):
        ops.append("new")
        layers = []
        kind = rng.random()
        if kind < 0.5:
            if rng.random() < 0.5:
                ops.append("push EthernetII")
            else:
                ops.append(f"push EthernetII {bytes(rng.randrange(256) for _ in range(6)).hex()} {bytes(rng.randrange(256) for _ in range(6)).hex()}")
            layers.append("EthernetII")
        elif kind < 0.9:
            ops.append(f"push UDP {rng.choice([0, 1, 53, 65535, rng.randrange(65536)])} {rng.randrange(65536)}")
            layers.append("UDP")
        if rng.random() < 0.8 or not layers:
            ln = rng.choice([0, 1, 2, 3, 17, 18, 19, 37, 38, 39, 45, 46, 47, rng.randint(0, 80)])
            ops.append(f"push RawPDU {wc.hexs(bytes(rng.randrange(256) for _ in range(ln)))}")
            layers.append("RawPDU")
        for _ in range(rng.randint(0, 4)):
            i = rng.randrange(len(layers))
            if layers[i] == "EthernetII":
                ops.append(rng.choice([f"set {i} dst_addr {bytes(rng.randrange(256) for _ in range(6)).hex()}",
                                       f"set {i} src_addr {bytes(rng.randrange(256) for _ in range(6)).hex()}",
                                       f"set {i} payload_type {unrecognised_ether(rng)}"]))
            elif layers[i] == "UDP":
                ops.append(rng.choice([f"set {i} sport {rng.randrange(65536)}", f"set {i} dport {rng.randrange(65536)}",
                                       f"set {i} length {rng.randrange(65536)}"]))
            else:
                ops.append(f"set {i} payload {wc.hexs(bytes(rng.randrange(256) for _ in range(rng.randint(0, 40))))}")
            if rng.random() < 0.3:
                ops.append("show")
        ops.append("show")
    return ops


def limit_boundary_ops():
    """directed API programs at the limits the source CURRENTLY has (translator/gen_limits.py): payloads one octet short of
    / at / beyond the minimum frame sizes and the RFC 4884 minimum, option lists that fill the 4-bit header-length fields
    and exceed them by one word, extension headers around a multiple of the IPv6 unit.  On the unchanged tree these repeat
    boundaries the family generators already have; after a change of a constant they are the cases that cross it."""
    from translator import gen_limits
    v = {k: x for k, x in gen_limits.values().items() if x is not None}
    ops = []
    z = lambda n: "00" * max(0, n) if n > 0 else "-"
    eth, q = v.get("hdrEthernetII", 14), v.get("hdrDot1Q", 4)
    for m in sorted({60, v.get("ethMinFrame", 60), v.get("ethMinFrameText", 60)}):
        for n in (m - eth - 1, m - eth, m - eth + 1):
            if 0 < n < 1500:
                ops += ["new", "push EthernetII", f"push RawPDU {z(n)}", "show"]
    for m in sorted({50, v.get("dot1qMin", 50), v.get("dot1qMinText", 50)}):
        for n in (m - q - 1, m - q, m - q + 1):
            if 0 < n < 1500:
                ops += ["new", "push EthernetII", "push Dot1Q 5 1", f"push RawPDU {z(n)}", "show",
                        "new", "push Dot1Q 5 1", f"push RawPDU {z(n)}", "show"]
    mins = sorted({128} | {v[k] for k in ("icmpMinPayload", "icmpMinPayloadTrailer", "icmpMinPayloadWrite",
                                          "icmp6MinPayloadTrailer", "icmp6MinPayloadWrite") if k in v and 8 <= v[k] < 1400})
    for m in mins:
        for n in (m - 8, m - 4, m, m + 4, m + 8):
            if n > 0 and n % 8 == 0:
                ops += ["new", "push ICMPv6 1", "set 0 add_extension 1 1 01020304", "set 0 use_length_field 1",
                        f"push RawPDU {z(n)}", "show"]
            if n > 0 and n % 4 == 0:
                ops += ["new", "push ICMP 11", "set 0 add_extension 1 1 01020304", "set 0 use_length_field 1",
                        f"push RawPDU {z(n)}", "show",
                        "new", "push ICMP 3", "set 0 add_extension 1 1 01020304", f"push RawPDU {z(n)}", "show"]
    iu, im, ih = v.get("ipHeadLenUnit", 4), v.get("ipMaxHeadLen", 15), v.get("hdrIp", 20)
    for total in sorted({40, iu * im - ih}):
        for n in (total - iu, total, total + iu):
            if 2 < n < 600:
                ops += ["new", "push IP 0a000001 0a000002", f"set 0 add_option 130 {z(n - 2)}", "push RawPDU 0102", "show"]
    tu, tm, th = v.get("tcpDataOffsetUnit", 4), v.get("tcpMaxDataOffset", 15), v.get("hdrTcp", 20)
    for total in sorted({40, tu * tm - th}):
        for n in (total - tu, total, total + tu):
            if 2 < n < 600:
                ops += ["new", "push TCP 80 1234", f"set 0 add_option 30 {z(n - 2)}", "push RawPDU 0102", "show"]
    u = v.get("ipv6ExtUnit", 8)
    for k in (1, 2, 3):
        for n in (u * k - 3, u * k - 2, u * k - 1):
            if 0 < n < 600:
                ops += ["new", "push IPv6", "set 0 next_header 253", f"set 0 add_header 60 {z(n)}", "push RawPDU 0102", "show"]
    return ops


def replay(pid, path):
    exe, err = core.build_harness("wire_main")
    ops = [l.rstrip("\n") for l in open(path) if not l.startswith("#") and l.strip()]
    impl, mod, spec, faults = corr.evaluate(pid, exe, ops, ("parse", "new"))
    bad = corr.first_problem(ops, impl, mod, spec, wc.strip_extra, lambda m: m.startswith("unmodelled"))
    for o, a, b, c in zip(ops, impl, mod, spec):
        print(o[:300]); print("  impl :", a[:600]); print("  model:", b[:600]); print("  spec :", c)
    if bad:
        print(f"VIOLATION property={pid} replay={path}")
        return 1
    return 0
