"""Common body of the four wire checks C01–C04 (they share the harness and the Lean wire model and differ in
oracle, generators and theorems)."""
import importlib, os, random
from vlib import core, corr
from checks import wire_common as wc

FAMILIES = ["L2", "Ip", "Ip6", "Transport", "Icmp", "App", "Wifi"]
FAMILY_AUDITS = [f"Audit/Wire{f}.lean" for f in FAMILIES] + ["Audit/WireChain.lean"]


def family_gens():
    """optional per-family structured generators: checks/wire_gen_<fam>.py with
       gen_parse(rng, n) -> [op lines]   and   gen_build(rng, n) -> [op lines (new/push/set/show programs)]"""
    mods = []
    for f in FAMILIES + ["extra"]:
        try:
            mods.append(importlib.import_module("checks.wire_gen_" + f.lower()))
        except ImportError:
            pass
    return mods


def sig_of(kind, detail, case):
    """signature of a minimised failing case, matched against known findings; a family module may narrow it with
    refine_sig(sig, case_lines, detail) -> sig (e.g. add {"when": "ip-option-0x80"} computed from the case)."""
    op = case[-1].split(" ")
    cls = op[1] if len(op) > 1 and op[0] == "parse" else "api"
    if kind == "spec":
        sig = {"kind": kind, "clause": detail.split(" ")[1], "class": cls}
    elif kind == "fault":
        sig = {"kind": kind, "site": detail.split(" ")[1] if " " in detail else detail, "class": cls}
    else:
        sig = {"kind": kind, "class": cls}
    for g in family_gens():
        if hasattr(g, "refine_sig"):
            sig = g.refine_sig(sig, case, detail) or sig
    return sig


def run_property(chk, pid, want_parse=True, want_build=False, quick_n=6000, thorough_n=300000, defer_problems=False, no_corr=False):
    """defer_problems: do not report theorems that no longer check, return (problems, totals) for the caller to explain
    (C01: raw-site coverage with a directed search).  no_corr: prove only, run no correspondence (a test switch of C01)."""
    import translator.gen_tags as gen_tags
    gen_tags.main([])
    problems = chk.prove([f"TinsModel.Props.{pid}"], [f"Audit/{pid}.lean"] + FAMILY_AUDITS,
                         want_leanchecker=(chk.tier == "thorough"))
    rng = random.Random(chk.seed)
    n = quick_n if chk.tier == "quick" else thorough_n
    ops = []
    corpus = os.path.join(core.VERIF, "corpus", pid + ".ops")
    if os.path.exists(corpus):
        ops += [l.rstrip("\n") for l in open(corpus) if l.strip() and not l.startswith("#")]
    gens = family_gens()
    if no_corr:
        ops, want_parse, want_build = [], False, False
    if want_parse:
        ops += wc.every_length_ops(upto=40 if chk.tier == "quick" else 96)
        ops += wc.gen_parse_ops(rng, n)
        for g in gens:
            if hasattr(g, "gen_parse"):
                ops += g.gen_parse(rng, n // 4)
    if want_build:
        for g in gens:
            if hasattr(g, "gen_build"):
                ops += g.gen_build(rng, n // 4)
        ops += builtin_build_ops(rng, max(200, n // 20))
    total = collections_counter()
    B = 20000
    i = 0
    while i < len(ops):
        chunk = ops[i:i + B]
        # never cut a build program in two
        while i + len(chunk) < len(ops) and not ops[i + len(chunk)].split(" ")[0] in ("parse", "new"):
            chunk.append(ops[i + len(chunk)])
        i += len(chunk)
        st = wc.run_wire(chk, pid, chunk, sig_of=sig_of)
        if st is None:
            return (problems, total) if defer_problems else None
        total.update(st)
    for p in ([] if defer_problems else problems):
        if not (total.get("spec", 0) + total.get("fault", 0)):
            chk.violation("proof obligation no longer checks: " + p[:1500], ["theorem-or-audit-failure", p[:4000]], nofail=True)
    chk.extra["unmodelled_lines"] = total.get("unmodelled_lines", 0)
    chk.extra["modelled_classes"] = modelled_classes()
    chk.extra["checker_cmd"] = (f"cd /verif/lean && lake build TinsModel.Props.{pid} && for f in Audit/{pid}.lean "
                                + " ".join(FAMILY_AUDITS) + "; do lake env lean $f; done")
    chk.cov["rule"] = ("parse ops: seed packets harvested from libtins' own test vectors, mutants of them (truncate / bit flip / "
                       "boundary byte / extend / delete), every length 0..N of zeros and ones for every entry point, random short "
                       "buffers; build ops: API programs (new/push/set/show). distinct_nontrivial = distinct (op, implementation "
                       "result) pairs")
    chk.trusted += ["correspondence harness harness/wire_main.cpp + wire_<family>.h; generators checks/wire_common.py, checks/wire_gen_*.py",
                    "translator/gen_tags.py (next-protocol tables regenerated from src/detail/pdu_helpers.cpp on this run)",
                    "g++ 12 / ASan+UBSan(-enum)+LSan build of /repo's working tree with -DTINS_VERIF_HOOKS"]
    chk.assumptions += [
        "classes outside `modelled_classes` are covered by the implementation-side oracle only (no Lean model yet): "
        "their lines are counted in `unmodelled_lines`",
        "little-endian host (the models follow the little-endian #if branches)",
        "UBSan's enum check is off: wire codes outside the enumerators are stored in enum-typed option fields by design",
    ]
    corr.finalize_cov(chk)
    if defer_problems:
        return problems, total


def collections_counter():
    import collections
    return collections.Counter()


def modelled_classes():
    out = core.run_driver("model", "C01", "\n".join(f"parse {c} -" for c in wc.ENTRY_CLASSES) + "\n")
    return [c for c, o in zip(wc.ENTRY_CLASSES, out) if not o.startswith("unmodelled")]


RECOGNISED_ETHER = {0x0800, 0x86dd, 0x0806, 0x8863, 0x8864, 0x888e, 0x8100, 0x88a8, 0x9100, 0x8847}


def unrecognised_ether(rng):
    while True:
        v = rng.choice([0, 0x1234, 0x9000, 0x0500, 0xffff, rng.randrange(65536)])
        if v not in RECOGNISED_ETHER:
            return v


def builtin_build_ops(rng, n):
    """API programs over the classes modelled by the exemplar code (EthernetII, UDP, RawPDU).  Only stacks the
    protocols can express are generated: EthernetII has no tag for UDP, so UDP appears as the outermost layer; an
    EthernetII tag is set by hand only to values libtins does not dispatch on (a tag that names another protocol than
    the payload that follows is not a representable packet)."""
    ops = []
    for _ in range(n):
        ops.append("new")
        layers = []
        kind = rng.random()
        if kind < 0.5:
            if rng.random() < 0.5:
                ops.append("push EthernetII")
            else:
                ops.append(f"push EthernetII {bytes(rng.randrange(256) for _ in range(6)).hex()} {bytes(rng.randrange(256) for _ in range(6)).hex()}")
            layers.append("EthernetII")
        elif kind < 0.9:
            ops.append(f"push UDP {rng.choice([0, 1, 53, 65535, rng.randrange(65536)])} {rng.randrange(65536)}")
            layers.append("UDP")
        if rng.random() < 0.8 or not layers:
            ln = rng.choice([0, 1, 2, 3, 17, 18, 19, 37, 38, 39, 45, 46, 47, rng.randint(0, 80)])
            ops.append(f"push RawPDU {wc.hexs(bytes(rng.randrange(256) for _ in range(ln)))}")
            layers.append("RawPDU")
        for _ in range(rng.randint(0, 4)):
            i = rng.randrange(len(layers))
            if layers[i] == "EthernetII":
                ops.append(rng.choice([f"set {i} dst_addr {bytes(rng.randrange(256) for _ in range(6)).hex()}",
                                       f"set {i} src_addr {bytes(rng.randrange(256) for _ in range(6)).hex()}",
                                       f"set {i} payload_type {unrecognised_ether(rng)}"]))
            elif layers[i] == "UDP":
                ops.append(rng.choice([f"set {i} sport {rng.randrange(65536)}", f"set {i} dport {rng.randrange(65536)}",
                                       f"set {i} length {rng.randrange(65536)}"]))
            else:
                ops.append(f"set {i} payload {wc.hexs(bytes(rng.randrange(256) for _ in range(rng.randint(0, 40))))}")
            if rng.random() < 0.3:
                ops.append("show")
        ops.append("show")
    return ops


def replay(pid, path):
    exe, err = core.build_harness("wire_main")
    ops = [l.rstrip("\n") for l in open(path) if not l.startswith("#") and l.strip()]
    impl, mod, spec, faults = corr.evaluate(pid, exe, ops, ("parse", "new"))
    bad = corr.first_problem(ops, impl, mod, spec, wc.strip_extra, lambda m: m.startswith("unmodelled"))
    for o, a, b, c in zip(ops, impl, mod, spec):
        print(o[:300]); print("  impl :", a[:600]); print("  model:", b[:600]); print("  spec :", c)
    if bad:
        print(f"VIOLATION property={pid} replay={path}")
        return 1
    return 0
