"""C16 — address types: text round-trip, ordering and range arithmetic are exact."""
import collections, random, socket
from vlib import core, corr

AREA = "C16"
MODULES = ["TinsModel.Props.C16", "TinsModel.Props.Limits.C16"]   # + the constants / limits tied to the source (translator/gen_limits.py)
AUDIT = ["Audit/C16.lean", "Audit/LimitsC16.lean"]
LEVEL = "proof"
HARNESS = "c16_address"
HARNESS_FLAGS = ["-fno-access-control"]      # the harness prints AddressRange::first_/last_ themselves
MANIFEST = dict(
    text="Lean 4 theorems over a code-shaped executable model of IPv4Address / IPv6Address / HWAddress<n>, "
         "Internals::increment/decrement, AddressRange and its iterator (order = numeric order, equality, masks, "
         "prefix ranges, contains, iteration visits exactly [first..last] / the hosts for every range incl. those ending "
         "at all-ones, hardware-address text codec = reference grammar, IPv4 and IPv6 text: the inet_pton reference models "
         "= the strict dotted-quad / RFC 4291 grammars for every string, inet_ntop6 reference model = RFC 5952 canonical "
         "text and parse(print(a)) = a for all 2^128 addresses), tied to the code by differential correspondence "
         "under ASan/UBSan and by a numeric / RFC-grammar spec oracle evaluated on the implementation's own output.",
    note="Trusted: Lean kernel + standard axioms; hand-written model tied by correspondence (harness/c16_address.cpp); "
         "libc itself: IPv6Address(text) / to_string() are inet_pton / inet_ntop(AF_INET6) and IPv4Address(text) is "
         "inet_pton(AF_INET) — the theorems are about Lean reference models of these glibc routines (V6.pton6, V6.ntop6, "
         "V4.pton4Loop), which are compared with the linked libc through libtins on every run (structured generator: all 256 "
         "zero patterns of the eight groups, every '::' placement, embedded-IPv4 forms and near misses, case / padding "
         "variants, every malformed shape, random edits); the oracle answers from Spec.parse6 / Spec.fmt6 (RFC 4291 / 5952), "
         "not from the algorithm model; std::hash<string>/std::hash<uint32_t> are libstdc++.",
    technique="Lean 4 proof (induction over address bytes / range length / text; zero-pattern abstraction for the '::' run) "
              "+ model/impl correspondence + spec oracle",
    design="DESIGN.md §6 C16")
MANIFEST["note"] += (" Constants and limits of the C++ source that the model restates (translator/gen_limits.py -> Gen/Limits.lean: "
                     "compiled probe + preprocessed function bodies at named anchors) are tied to the model's numerals by the "
                     "theorems of lean/TinsModel/Props/Limits/C16.lean (audit: Audit/LimitsC16.lean); tools/LIMITS-INVENTORY.md lists "
                     "what is tied and what is not.")

FAMS = {"4": 4, "6": 16, "h": 6}
CASE_START = ("cmp", "bit", "txt", "fmt", "pfx", "msk", "rng", "has", "inc", "dec")
CAP = 66000


def hx(v, n):
    return (v % (1 << (8 * n))).to_bytes(n, "big").hex()


def thex(s):
    if isinstance(s, str):
        s = s.encode("latin-1")
    return s.hex() if s else "-"


def boundary_values(n):
    M = 1 << (8 * n)
    vals = set()
    for k in range(0, 6):
        vals.add(k); vals.add(M - 1 - k)
    for sh in range(8, 8 * n, 8):
        for d in (-2, -1, 0, 1, 2):
            vals.add(((1 << sh) + d) % M)
            vals.add((M - (1 << sh) + d) % M)
    vals.add(M // 2); vals.add(M // 2 - 1)
    return sorted(vals)


def rand_addr(rng, n):
    M = 1 << (8 * n)
    r = rng.random()
    if r < 0.35:
        return rng.choice(boundary_values(n))
    if r < 0.55:
        # bytes from a small alphabet: many equal prefixes, many 00 / ff runs
        return int.from_bytes(bytes(rng.choice([0, 0, 0xff, 0xff, 1, 0xfe, 0x7f, 0x80, rng.randrange(256)]) for _ in range(n)), "big")
    return rng.randrange(M)


def near(rng, v, n):
    M = 1 << (8 * n)
    r = rng.random()
    if r < 0.5:
        return (v + rng.choice([-3, -2, -1, 0, 0, 1, 2, 3])) % M
    if r < 0.7:
        i = rng.randrange(n)           # change one byte
        b = bytearray(v.to_bytes(n, "big")); b[i] = rng.randrange(256)
        return int.from_bytes(b, "big")
    return rand_addr(rng, n)


# ---------------------------------------------------------------------------- text generators

def gen_text4(rng):
    r = rng.random()
    if r < 0.3:
        parts = [str(rng.choice([0, 1, 9, 10, 99, 100, 199, 200, 249, 250, 255, rng.randrange(256)])) for _ in range(4)]
        s = ".".join(parts)
    else:
        octet = lambda: rng.choice(["0", "1", "00", "01", "255", "256", "260", "300", "1000", "", " 1", "1 ", "+1", "-1", "0x1",
                                    "a", "٣", str(rng.randrange(256)), str(rng.randrange(256)), str(rng.randrange(256))])
        k = rng.choice([1, 2, 3, 4, 4, 4, 4, 4, 5])
        s = ".".join(octet() for _ in range(k))
        if rng.random() < 0.15:
            s += rng.choice([".", " ", "x", "\n", "/24", ":"])
        if rng.random() < 0.1:
            s = rng.choice([".", " ", "x"]) + s
        if rng.random() < 0.1 and s:
            i = rng.randrange(len(s)); s = s[:i] + rng.choice(".:x9 ") + s[i + 1:]
    b = s.encode("utf-8").replace(b"\0", b"")
    return b


HEXCH = "0123456789abcdefABCDEF"


def gen_texth(rng):
    r = rng.random()
    if r < 0.25:
        k = rng.choice([6, 6, 6, 1, 2, 3, 5])
        s = ":".join("%02x" % rng.randrange(256) for _ in range(k))
        if rng.random() < 0.3:
            s = s.upper()
    else:
        def group():
            q = rng.random()
            if q < 0.55:
                return rng.choice(HEXCH) + rng.choice(HEXCH)
            if q < 0.7:
                return rng.choice(HEXCH)
            if q < 0.8:
                return ""
            if q < 0.88:
                return rng.choice(HEXCH) * 3
            return rng.choice(["zz", "g0", "0g", " 1", "1 ", "-1", "0x", "1:", "\xff\xfe", "@", "G", "`", "/", ":"])
        k = rng.choice([0, 1, 2, 5, 6, 6, 6, 6, 7, 8])
        s = rng.choice([":", ":", ":", ":", ":", "-", ".", "::", ""]).join(group() for _ in range(k))
        if rng.random() < 0.2:
            s += rng.choice([":", ":zz", ":00", "zz", " ", ":0", "0", "::"])
        if rng.random() < 0.05:
            s = ":" + s
    return s.encode("latin-1").replace(b"\0", b"")


V6_VALS = [[0x1, 0x12, 0x123, 0x1234, 0xffff, 0xa, 0xabc, 0xf00d],
           [0xffff, 0x8000, 0x100, 0x10, 0xf, 0xff, 0xfff, 0x1000]]


def v6_groups_to_int(gs):
    v = 0
    for g in gs:
        v = (v << 16) | g
    return v


def v6_pattern_groups(pat, variant=0):
    """zero pattern (bit i set = group i is zero) -> 8 groups with non-zero values of every digit length elsewhere"""
    return [0 if (pat >> i) & 1 else V6_VALS[variant][i] for i in range(8)]


def v6_ntop(v):
    return socket.inet_ntop(socket.AF_INET6, (v % (1 << 128)).to_bytes(16, "big"))


def v6_case(rng, s):
    q = rng.random()
    if q < 0.4:
        return s
    if q < 0.7:
        return s.upper()
    return "".join(c.upper() if rng.random() < 0.5 else c for c in s)


def v6_text_of_groups(rng, gs, dc=None, pad=None, v4tail=False):
    """a text form of the groups: `dc` = (start, len) of the groups replaced by "::" (must be zero groups for a valid text),
    `pad` = number of digits every group is padded to (5 = one digit too many), v4tail = last two groups as dotted quad"""
    def g2s(g):
        t = "%x" % g
        if pad:
            t = t.rjust(pad, "0")
        return t
    n = 6 if v4tail else 8
    parts = [g2s(g) for g in gs[:n]]
    tail = ["%d.%d.%d.%d" % (gs[6] >> 8, gs[6] & 255, gs[7] >> 8, gs[7] & 255)] if v4tail else []
    if dc is None:
        return ":".join(parts + tail)
    i, l = dc
    return ":".join(parts[:i]) + "::" + ":".join(parts[i + l:] + tail)


V6_SPECIAL = [
    "::", "::1", "::2", "::ffff", "::1:0", "::0.1.0.0", "::0.0.255.255", "::1.2.3.4", "::255.255.255.255", "::0.0.0.0",
    "::ffff:0.0.0.0", "::ffff:0.0.0.1", "::ffff:1.2.3.4", "::ffff:255.255.255.255", "::fffe:1.2.3.4", "::ffff:0:1.2.3.4",
    "::1:ffff:1.2.3.4", "1::ffff:1.2.3.4", "0:0:0:0:1:ffff:1.2.3.4", "::ffff:ffff:1.2.3.4", "::fff:1.2.3.4", "::1:1.2.3.4",
    "1::1.2.3.4", "0:1::1.2.3.4", "::0:ffff:0:0", "::ffff:0:0", "::ffff:0:1", "::ffff:1:0", "64:ff9b::1.2.3.4", "::1:0:0",
    "::1:0:0:0", "1::", "1:0:0:0:0:0:0:0", "0:0:0:0:0:0:0:1", "ffff:ffff:ffff:ffff:ffff:ffff:ffff:ffff",
    "1111:2222:3333:4444:5555:6666:7777:8888", "fe80::1", "2001:db8::1", "2001:db8:0:0:1:0:0:1", "2001:0:0:1::1",
    "1:0:0:2:0:0:3:4", "1:0:0:2:0:0:0:4", "1:0:0:0:2:0:0:0", "0:0:1:0:0:1:0:0", "0:1:0:1:0:1:0:1", "1:0:1:0:1:0:1:0",
]

V6_MALFORMED = [
    "", ":", ":::", "::::", ":1", "1:", ":1:2:3:4:5:6:7:8", "1:2:3:4:5:6:7:8:", ":1::", "::1:", ":::1", "1:::", "1:::2", "1::2::3",
    "::1::", "1:2:3:4:5:6:7", "1:2:3:4:5:6:7:8:9", "1:2:3:4::5:6:7:8", "::1:2:3:4:5:6:7:8", "1:2:3:4:5:6:7:8::", "1:2:3:4:5:6:7::",
    "::2:3:4:5:6:7:8", "1::3:4:5:6:7:8", "12345::", "::12345", "1:2:3:4:5:6:7:12345", "00000::", "::00001", "0000::", "g::", "::g",
    "1::g", "::1g", "fe80::1%eth0", "fe80::1%1", "::1%", "%", "[::1]", "::1/128", "::/0", " ::1", "::1 ", ": :", "1: :2", "::\t1",
    "::1\n", "0x1::", "::0x1", "::-1", "::+1", "1;:2", "1.2.3.4", "1.2.3.4::", "::1.2.3.4:1", "1.2.3.4:1::", "::1.2.3", "::1.2.3.4.5",
    "::1.2.3.", "::.1.2.3", "::1..2.3", "::256.1.1.1", "::1.2.3.256", "::01.2.3.4", "::1.2.3.04", "::1.2.3.4.", "::a.2.3.4",
    "::1a.2.3.4", "::1.2.3.a", "::1.2.3.4a", "::12345.2.3.4", "::1234.2.3.4", "::0.0.0.0", "::00.0.0.0", "1:2:3:4:5:6:7:1.2.3.4",
    "1:2:3:4:5:6:1.2.3.4", "1:2:3:4:5:1.2.3.4", "1:2:3:4:5:6:7:8:1.2.3.4", "1:2:3:4:5::1.2.3.4", "1:2:3:4:5:6::1.2.3.4",
    "::1:2:3:4:5:1.2.3.4", "::1:2:3:4:5:6:1.2.3.4", "1.2.3.4:5:6:7:8:9:a", "::ffff:1.2.3.4", "::FFFF:1.2.3.4", "::ffff:1.2.3.4:5",
    "::ffff:1:2.3.4.5", "1:2:3:4:5:6:7:8%9", "::\xff", "\xff::", "::\x80", "1::\xe9", ":::1.2.3.4", "::1.2.3.4::", "1::2:", ":1::2",
    "abcd:ef01:2345:6789:ABCD:EF01:2345:6789", "ABCD::", "::aBcD", "0:0:0:0:0:0:0:0", "0::0", "0::", "::0", "0:0::0:0", "00:000:0000::",
    "0001:002:03:4::", "1::8", "::ffff:", "::ffff:.", ".", "..", "::.", ":.:", "1.", "::1.", "::1.2", "1::2.3", "::1:2.3.4.5.6",
    ",", "::,", "1:2:3:4:5:6:7:8\x01", "::G", "::@", "::`", "::/", "::9:", "::a:", "::A:", "::f:", "::F:", "::g:",
]


def v6_boundary_ops():
    """IPv6 text, enumerated: every zero pattern of the eight groups (all positions and lengths of the compressed run, all ties),
    in several writings; the embedded-IPv4 forms and their near misses; every malformed shape."""
    rng = random.Random(616)
    ops = []
    fmt = lambda v: ops.append(f"fmt 6 {hx(v, 16)}")
    txt = lambda t: ops.append(f"txt 6 {thex(t.encode('latin-1').replace(bytes([0]), b''))}")
    for pat in range(256):
        for variant in (0, 1):
            gs = v6_pattern_groups(pat, variant)
            v = v6_groups_to_int(gs)
            fmt(v)
            canon = v6_ntop(v)
            txt(canon if variant == 0 else canon.upper())
        gs = v6_pattern_groups(pat, 0)
        txt(v6_text_of_groups(rng, gs))                              # nothing compressed
        txt(v6_text_of_groups(rng, gs, pad=4))                       # every group four digits
        txt(v6_text_of_groups(rng, gs, v4tail=True))                 # dotted-quad tail
        zeros = [i for i in range(8) if gs[i] == 0]
        # every placement of "::" over zero groups of this pattern (any sub-run, also a single group)
        runs = [(i, l) for i in range(8) for l in range(1, 9 - i) if all(gs[j] == 0 for j in range(i, i + l))]
        for dc in rng.sample(runs, min(3, len(runs))):
            txt(v6_case(rng, v6_text_of_groups(rng, gs, dc=dc, pad=rng.choice([None, None, 2, 3, 4]))))
            if dc[0] + dc[1] <= 6:
                txt(v6_text_of_groups(rng, gs, dc=dc, v4tail=True))
        if pat % 8 == 0:
            txt(v6_text_of_groups(rng, gs, pad=5))                   # five digits: not an address
            # "::" over a group that is not zero / with nothing left to stand for
            txt(v6_text_of_groups(rng, gs, dc=(rng.randrange(8), 0)))
    # all start x length combinations once more with one run only (the other groups non-zero), both value sets
    for start in range(8):
        for ln in range(0, 9 - start):
            pat = sum(1 << i for i in range(start, start + ln))
            for variant in (0, 1):
                fmt(v6_groups_to_int(v6_pattern_groups(pat, variant)))
    for t in V6_SPECIAL:
        b = socket.inet_pton(socket.AF_INET6, t)
        fmt(int.from_bytes(b, "big")); txt(t); txt(t.upper())
    for low in (0, 1, 0xff, 0x100, 0xffff, 0x10000, 0x10001, 0xffffff, 0x1000000, 0x7fffffff, 0xffffffff, 0x01020304, 0xc0a80001):
        for hi in (0, 0xffff, 0xfffe, 0x1, 0x10000, 0xffff0000, 0x1ffff, 0xffffffff):
            fmt((hi << 32) | low)
    for t in V6_MALFORMED:
        txt(t)
    return ops


def gen_text6(rng):
    r = rng.random()
    if r < 0.25:
        v = rand_addr(rng, 16)
        s = v6_case(rng, v6_ntop(v))
    elif r < 0.45:
        # a valid writing of an address with a random zero pattern: random "::" placement, padding, case, v4 tail
        pat = rng.randrange(256)
        gs = [0 if (pat >> i) & 1 else rng.choice([rng.randrange(1, 16), rng.randrange(16, 256), rng.randrange(256, 4096),
                                                    rng.randrange(4096, 65536)]) for i in range(8)]
        runs = [(i, l) for i in range(8) for l in range(1, 9 - i) if all(gs[j] == 0 for j in range(i, i + l))]
        v4 = rng.random() < 0.25
        if v4:
            runs = [d for d in runs if d[0] + d[1] <= 6]
        dc = rng.choice(runs) if runs and rng.random() < 0.7 else None
        s = v6_case(rng, v6_text_of_groups(rng, gs, dc=dc, pad=rng.choice([None, None, None, 2, 3, 4, 5]), v4tail=v4))
    elif r < 0.7:
        # one edit of a valid text
        s = rng.choice(V6_SPECIAL) if rng.random() < 0.4 else v6_ntop(rand_addr(rng, 16))
        for _ in range(rng.choice([1, 1, 1, 2])):
            i = rng.randrange(len(s) + 1)
            q = rng.random()
            c = rng.choice(":::..0019afAFg%/ x")
            if q < 0.4:
                s = s[:i] + c + s[i:]
            elif q < 0.7 and s:
                s = s[:i] + s[i + 1:]
            else:
                s = s[:i] + c + s[i + 1:]
    else:
        def group():
            q = rng.random()
            if q < 0.6:
                return "".join(rng.choice(HEXCH) for _ in range(rng.choice([1, 2, 3, 4, 4])))
            if q < 0.75:
                return ""
            if q < 0.85:
                return "".join(rng.choice(HEXCH) for _ in range(5))
            return rng.choice(["g", "1.2.3.4", "255.255.255.255", "1.2.3", "1.2.3.256", " ", "%eth0", "0x1"])
        k = rng.choice([1, 2, 3, 4, 6, 7, 8, 8, 8, 9])
        s = ":".join(group() for _ in range(k))
        if rng.random() < 0.2:
            s = rng.choice(["::", ":", "::ffff:"]) + s
        if rng.random() < 0.2:
            s += rng.choice(["::", ":", "/64", "%1", ":1.2.3.4"])
    b = s.encode("latin-1").replace(b"\0", b"")
    return b


def rand_addr6_text(rng):
    """addresses for `fmt 6`: random zero patterns / embedded-IPv4 shapes besides the generic distribution"""
    q = rng.random()
    if q < 0.35:
        pat = rng.randrange(256)
        return v6_groups_to_int([0 if (pat >> i) & 1 else rng.choice([1, 0xf, 0x10, 0xff, 0x100, 0xfff, 0x1000, 0xffff,
                                                                       rng.randrange(1, 65536)]) for i in range(8)])
    if q < 0.5:
        return (rng.choice([0, 0xffff, 0xfffe, 1, 0x10000]) << 32) | rng.choice([0, 1, 0xffff, 0x10000, rng.randrange(1 << 32)])
    return rand_addr(rng, 16)


# ---------------------------------------------------------------------------- op generators

def gen_range(rng, n, max_size):
    """(first, last) with a size distribution biased to small sizes and to the ends of the address space"""
    M = 1 << (8 * n)
    size = rng.choice([1, 1, 2, 2, 3, 3, 4, 4, 5, 6, 7, 8, 9, 16, 17, 255, 256, 257, rng.randint(1, 300),
                       rng.randint(1, max_size)])
    size = min(size, max_size, M)
    r = rng.random()
    if r < 0.3:
        last = M - 1 - rng.choice([0, 0, 0, 1, 1, 2, 3, 4])
        first = last - size + 1
    elif r < 0.5:
        first = rng.choice([0, 0, 0, 1, 1, 2, 3])
        last = first + size - 1
    elif r < 0.7:
        # straddle a byte-carry boundary
        k = rng.randrange(1, n)
        mid = (rng.randrange(1, 1 << (8 * (n - k))) << (8 * k)) % M
        first = mid - rng.randint(0, size - 1) if size > 1 else mid
        last = first + size - 1
    else:
        first = rand_addr(rng, n)
        last = first + size - 1
    first = max(0, first); last = min(M - 1, max(first, last))
    return first, last


def gen_ops(rng, count, max_iter):
    ops = []
    fams = ["4", "4", "6", "h"]
    for _ in range(count):
        f = rng.choice(fams); n = FAMS[f]; W = 8 * n
        k = rng.random()
        if k < 0.14:
            a = rand_addr(rng, n); b = near(rng, a, n)
            ops.append(f"cmp {f} {hx(a, n)} {hx(b, n)}")
        elif k < 0.19:
            ops.append(f"bit {f} {hx(rand_addr(rng, n), n)} {hx(rand_addr(rng, n), n)}")
        elif k < 0.34:
            tf = rng.choice(["4", "h", "h", "6"])
            if tf == "4":
                ops.append(f"txt 4 {thex(gen_text4(rng))}")
            elif tf == "h":
                ops.append(f"txt h {thex(gen_texth(rng))}")
            else:
                ops.append(f"txt 6 {thex(gen_text6(rng))}")
        elif k < 0.42:
            a = rand_addr6_text(rng) if f == "6" else rand_addr(rng, n)
            ops.append(f"fmt {f} {hx(a, n)}")
        elif k < 0.57:
            a = rand_addr(rng, n)
            if rng.random() < 0.75:
                # iterated prefix ranges stay small; everything else exercises ends + is_iterable + the cap
                p = rng.choice([W, W - 1, W - 2, W - 3, W - 4, W - 8, W - 9, rng.randint(max(0, W - max_iter), W)])
            else:
                p = rng.choice([0, 1, 7, 8, 9, W // 2, W + 1, W + 2, rng.randint(0, W), -1, -rng.randint(1, 300)])
            ops.append(f"pfx {f} {hx(a, n)} {p}" + (f" {rng.choice([0, 1, 17, 64])}" if W - p > 16 else ""))
        elif k < 0.63:
            a = rand_addr(rng, n)
            if rng.random() < 0.5:
                p = rng.randint(max(0, W - max_iter), W)
                m = ((1 << W) - (1 << (W - p))) if p else 0
                if rng.random() < 0.5:
                    m ^= 1 << rng.randrange(W)              # non-contiguous mask
            else:
                m = rand_addr(rng, n) | (((1 << W) - 1) >> 12 << 12)   # random low bits, ones above
            ops.append(f"msk {f} {hx(a, n)} {hx(m, n)}")
        elif k < 0.80:
            first, last = gen_range(rng, n, 1 << max_iter)
            if rng.random() < 0.06:
                first, last = last, first
            ops.append(f"rng {f} {hx(first, n)} {hx(last, n)} {rng.choice([0, 0, 1])}")
        elif k < 0.92:
            first, last = gen_range(rng, n, 1 << rng.choice([2, 8, 16, W]))
            x = rng.choice([first, last, first - 1, last + 1, first + 1, last - 1, (first + last) // 2,
                            rand_addr(rng, n), near(rng, first, n), near(rng, last, n)])
            if rng.random() < 0.04:
                first, last = last, first
            ops.append(f"has {f} {hx(first, n)} {hx(last, n)} {hx(x, n)}")
        else:
            ops.append(f"{rng.choice(['inc', 'dec'])} {f} {hx(rand_addr(rng, n), n)}")
    return ops


def boundary_ops(thorough):
    """the boundary classes named by the property, enumerated (not sampled)"""
    ops = []
    for f, n in FAMS.items():
        W = 8 * n; M = 1 << W
        # every prefix length (and two beyond) on base addresses at both ends and in the middle
        bases = [0, M - 1, M - 2, M - 3, M - 4, M - 5, 1, 2, 3, 4, M // 2, M // 2 - 1,
                 int.from_bytes(bytes([0xc0, 0xa8, 0x05, 0x81] * 4)[:n], "big")]
        for a in bases:
            for p in range(-2, W + 3):
                big = W - p > (10 if not thorough else 13)
                ops.append(f"pfx {f} {hx(a, n)} {p}" + (" 40" if big else ""))
        # all small ranges touching zero and all-ones, host-only and not
        top = 7 if not thorough else 12
        for size in range(1, top):
            for off in range(0, 6):
                for oh in (0, 1):
                    ops.append(f"rng {f} {hx(M - size - off, n)} {hx(M - 1 - off, n)} {oh}")
                    ops.append(f"rng {f} {hx(off, n)} {hx(off + size - 1, n)} {oh}")
        # the whole address space and its neighbours
        for first, last in [(0, M - 1), (1, M - 1), (0, M - 2), (1, M - 2), (M - 1, M - 1), (0, 0)]:
            for oh in (0, 1):
                ops.append(f"rng {f} {hx(first, n)} {hx(last, n)} {oh}")
        ops.append(f"msk {f} {hx(0, n)} {hx(0, n)}")
        ops.append(f"msk {f} {hx(M - 1, n)} {hx(0, n)}")
        ops.append(f"msk {f} {hx(M - 1, n)} {hx(M - 1, n)}")
        for size in (1 << 16, (1 << 16) + 1, CAP - 1, CAP, CAP + 1):
            ops.append(f"rng {f} {hx(M - size, n)} {hx(M - 1, n)} 0")
            ops.append(f"rng {f} {hx(0, n)} {hx(size - 1, n)} 0")
        for v in boundary_values(n):
            ops.append(f"inc {f} {hx(v, n)}")
            ops.append(f"dec {f} {hx(v, n)}")
            ops.append(f"cmp {f} {hx(v, n)} {hx(v, n)}")
            ops.append(f"cmp {f} {hx(v, n)} {hx((v + 1) % M, n)}")
            ops.append(f"cmp {f} {hx(v, n)} {hx((v + 256) % M, n)}")
            ops.append(f"fmt {f} {hx(v, n)}")
    # the hardware text parser's boundary strings
    for s in ["", ":", "::", "0", "00", "000", "0:", ":0", "0:1", "0:1:2:3:4:5", "00:11:22:33:44:55", "00:11:22:33:44:5",
              "00:11:22:33:44:55:", "00:11:22:33:44:55:66", "00:11:22:33:44:55:zz", "00:11:22:33:44:55zz", "00:11:22:33:44:555",
              "00::22:33:44:55", "00:11:22:33:44:", "00:11:22:33:44", "0011:22:33:44:55", "001122334455", "00-11-22-33-44-55",
              "0g:11:22:33:44:55", "AA:bB:Cc:dd:EE:ff", "a:b:c:d:e:f", " 00:11:22:33:44:55", "00:11:22:33:44:55 ",
              "00:11:22:33:44:55:6", "1:2:3:4:5:6:7", ":::::", "::::::", "33:34:35"]:
        ops.append(f"txt h {thex(s)}")
    for s in ["1.2.3.4", "0.0.0.0", "255.255.255.255", "256.1.1.1", "1.2.3", "1.2.3.4.5", "1.2.3.4.", ".1.2.3.4", "1..2.3",
              "01.2.3.4", "1.2.3.04", "1.2.3.00", "1.2.3.0", "1.2.3.4 ", " 1.2.3.4", "1.2.3.4/24", "0x1.2.3.4", "1.2.3.256",
              "1.2.3.1000", "", "a.b.c.d", "1.2.3.-4", "1.2.3.+4", "192.168.000.001", "1.2.3.4x"]:
        ops.append(f"txt 4 {thex(s)}")
    for s in ["::", "::1", "1::", "::1.2.3.4", "::ffff:1.2.3.4", "1:2:3:4:5:6:7:8", "1:2:3:4:5:6:7", "1:2:3:4:5:6:7:8:9", "1::2::3",
              ":1", "1:", "12345::", "g::", "1:2:3:4:5:6:1.2.3.4", "1:2:3:4:5:6:7:1.2.3.4", "::1.2.3", "::1.2.3.256", "", ":::",
              "fe80::1%eth0", "FFFF:ffff:FFFF:ffff:FFFF:ffff:FFFF:ffff", "0:0:0:0:0:0:0:0", "1::8", "::01.2.3.4"]:
        ops.append(f"txt 6 {thex(s)}")
    ops += v6_boundary_ops()
    return ops


# ---------------------------------------------------------------------------- reporting

def classify(op, impl):
    w = op.split(" ")
    tag = w[0] + ":" + w[1]
    if w[0] in ("pfx", "msk", "rng"):
        if impl.startswith("throw"):
            tag += ":throw"
        elif "it=0" in impl:
            tag += ":not-iterable"
        elif " ov=1" in impl:
            tag += ":capped"
        elif " n=0 " in impl:
            tag += ":empty"
        else:
            tag += ":iterated"
        if w[0] != "pfx" and w[3].startswith("ff" * (FAMS[w[1]] - 2)) and w[0] == "rng":
            tag += ":top"
    elif w[0] == "txt":
        tag += ":accepted" if impl.startswith("ok") else ":rejected"
    elif w[0] == "cmp":
        tag += ":eq" if " eq=1" in impl else ":ne"
    elif w[0] == "has":
        tag += ":in" if impl == "c=1" else ":out"
    return tag


def sig_of(kind, detail, case):
    w = case[-1].split(" ")
    sig = {"kind": kind, "op": w[0], "fam": w[1]}
    if kind == "spec":
        sig["clause"] = detail.split(" ")[1]
    return sig


def run(chk):
    from translator import gen_limits
    gen_limits.main([])          # Gen/Limits.lean: constants and limits read from the current source
    chk.trusted.append("translator/gen_limits.py (constants / limits of the source -> Gen/Limits.lean: compiled probe + "
                       "preprocessed function bodies at named anchors; tied to the model numerals by Props/Limits/C16.lean)")
    problems = chk.prove(MODULES, AUDIT, want_leanchecker=(chk.tier == "thorough"))
    problems = gen_limits.name_failures(chk, problems, "C16")   # name the tie theorems that fail
    exe, err = core.build_harness(HARNESS, extra=HARNESS_FLAGS)
    if exe is None:
        chk.violation("implementation does not build: " + err[-1500:], ["build-error"], nofail=True)
        return
    rng = random.Random(chk.seed)
    thorough = chk.tier == "thorough"
    ops = boundary_ops(thorough)
    ops += gen_ops(rng, 6000 if not thorough else 50000, 9)
    ops += gen_ops(rng, 150 if not thorough else 3000, 16)
    # one comparison per op group, so that a flood of failures of one kind cannot use up the report budget of another
    groups = {}
    for o in ops:
        k = o.split(" ", 1)[0]
        g = "text" if k in ("txt", "fmt") else "range" if k in ("pfx", "msk", "rng") else "value"
        groups.setdefault(g, []).append(o)
    stats = collections.Counter()
    for g in sorted(groups):
        stats += corr.correspond(chk, AREA, exe, groups[g], case_start=CASE_START, classify=classify, sig_of=sig_of)
    if thorough:
        for _ in range(2):
            stats += corr.correspond(chk, AREA, exe, gen_ops(rng, 50000, 10), case_start=CASE_START,
                                     classify=classify, sig_of=sig_of)
    for p in problems:
        found = stats.get("spec", 0) + stats.get("fault", 0)
        if not found:
            chk.violation("proof obligation no longer checks: " + p[:1500], ["theorem-or-audit-failure", p[:4000]], nofail=True)
    chk.cov["rule"] = ("one case = one operation on fresh objects (comparison, bit operation, text parse, format+parse back, "
                       "a/p, from_mask, range construction + is_iterable + full iteration, contains, increment/decrement) "
                       "for IPv4, IPv6 and HWAddress<6>; distinct_nontrivial counts distinct (operation, implementation result) pairs")
    chk.assumptions += [
        "texts handed to the constructors contain no NUL byte (IPv4/IPv6 constructors take the C string)",
        "glibc >= 2.26 inet_pton6 (a group of five hex digits is refused even when its value fits 16 bits); the reference model "
        "follows that algorithm and the correspondence would show an older / different libc as a model difference",
        "prefix lengths range over -300..8n+2 (outside 0..8n the only requirement is std::logic_error)",
        f"iterations are cut after {CAP} steps: longer ranges are checked on their first {CAP} addresses and on not having terminated",
        "a HWAddress hash collision between different addresses would show as a model difference (std::hash<std::string>)",
        "is_iterable() of a host-only range with exactly three addresses is left unspecified (documentation says iterable, code says not)",
        "little-endian host (the model follows the little-endian branch of endianness.h)",
    ]
    chk.trusted += ["correspondence harness harness/c16_address.cpp (compiled with -fno-access-control to print first_/last_) "
                    "+ generators in checks/C16.py",
                    "g++ 12 / ASan+UBSan build of the repo's working tree",
                    "libc inet_pton / inet_ntop (AF_INET and AF_INET6) themselves: libtins only calls them; the Lean reference models "
                    "V4.pton4Loop / V6.pton6 / V6.ntop6 (proved equal to Spec.parse4 / Spec.parse6 / Spec.fmt6, round trip proved) are "
                    "compared with the linked libc through IPv6Address(string), IPv6Address(const char*), to_string(), operator<< on every run",
                    "libstdc++ std::hash<uint32_t> (identity) and std::hash<std::string>"]
    chk.extra["modelled_not_proved"] = [
        "std::hash<IPv6Address> VALUE (modelled bit-exactly and compared on every cmp op): the property needs only that equal "
        "addresses hash equally — hash_congr, proved; which number comes out is the boost-style combine over libstdc++'s size_t "
        "and no statement of C16 depends on it",
        "inet_pton / inet_ntop themselves are libc, not libtins: every IPv4 / IPv6 text theorem (ipv4_accept_iff, pton6_is_spec, "
        "ntop6_canonical, ntop6_roundtrip, ipv6_text_roundtrip) is about the Lean reference models; that the linked libc "
        "behaves like them is validated on every run, not proved",
        "big-endian #if branch of endianness.h"]
    corr.finalize_cov(chk)


def replay(path):
    exe, err = core.build_harness(HARNESS, extra=HARNESS_FLAGS)
    ops = [l.rstrip("\n") for l in open(path) if not l.startswith("#") and l.strip()]
    impl, mod, spec, faults = corr.evaluate(AREA, exe, ops, CASE_START)
    bad = corr.first_problem(ops, impl, mod, spec)
    for o, a, b, c in zip(ops, impl, mod, spec):
        print(o[:200]); print("  impl :", a[:300]); print("  model:", b[:300]); print("  spec :", c)
    if bad:
        print(f"VIOLATION property=C16 replay={path}")
        return 1
    return 0
