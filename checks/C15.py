"""C15 — header field accessors are exact inverses and do not disturb neighbouring fields."""
import json, os, random, re
from vlib import core, corr
from translator import gen_layout

AREA = "C15"
MODULES = ["TinsModel.Props.C15"]
AUDIT = "Audit/C15.lean"
LEVEL = "proof"
HARNESS = "c15_fields"
DESIGN_ROWS_ESTIMATE = 350
MANIFEST = dict(
    text="Lean 4 theorems: a generic bit-field lens over the header image (get-put, put-get, frame, disjointness) proved once; "
         "the compiler's struct layout (probe) and every one-statement accessor recognised in the C++ source proved equal to the "
         "hand-written RFC/IEEE field table by `decide`; every hand-written shift/mask accessor (IP flags/fragment offset, IPv6 "
         "traffic class/flow label, MPLS, Dot1Q id, SNAP, TCP flags, STP ids/timers, VXLAN, ...) proved equal to the lens for all "
         "values and all images; small_uint rejection.  Tied to the code by a generated harness that pokes random header images "
         "into real objects and runs every public setter/getter (exhaustive for small domains) under ASan/UBSan, compared 3-way "
         "with the model and with the spec oracle (getter value, all other getters, serialisation diff confined to the field).",
    note="Trusted: Lean kernel + standard axioms; translator (regex recognition of one-statement accessors, layout probe compiled "
         "by g++ with -fno-access-control); harness pokes the private header struct to create arbitrary prior states; "
         "little-endian host branch only; classes outside Spec.lean are not covered (rows covered / design estimate in evidence).",
    technique="Lean 4 proof (lens laws + table `decide` + all-values accessor proofs) + generated exhaustive correspondence",
    design="DESIGN.md §6 C15")


def mask_hex(k):
    L = k["len"]
    b = bytearray(L)
    for off, w in k["derived"]:
        for i in range(off, off + w):
            if k["order"] == "be":
                b[i // 8] |= 1 << (7 - i % 8)
            else:
                b[i // 8] |= 1 << (i % 8)
    return b.hex()


# values / images the generators avoid (the serialisation changes shape there; out of scope of C15)
AVOID_VALUES = {("DHCPv6", "msg_type"): {"12", "13"},          # relay-forward / relay-reply: different header layout
                ("ICMPv6", "type"): {"1", "3", "143"}}         # RFC 4884 length byte / MLDv2 record count are derived there
FIX_IMAGE = {"DHCPv6": lambda h: ("01" + h[2:]) if h[:2] in ("0c", "0d") else h,
             "ICMPv6": lambda h: ("80" + h[2:]) if h[:2] in ("01", "03", "8f") else h}


def rand_image(rng, L, default):
    t = rng.random()
    if t < 0.08:
        return default
    if t < 0.12:
        return "00" * L
    if t < 0.16:
        return "ff" * L
    if t < 0.3:   # sparse / dense bit patterns
        dens = rng.choice([0.1, 0.9])
        return bytes(sum((rng.random() < dens) << j for j in range(8)) for _ in range(L)).hex()
    return bytes(rng.randrange(256) for _ in range(L)).hex()


def value_pool(rng, row, dom, exhaustive_bits, nrand):
    """values of the setter's parameter domain to try (decimal strings / x<hex>)"""
    if row["kind"] == "bytes":
        n = row["width"] // 8
        vals = ["00" * n, "ff" * n, "01" + "00" * (n - 1), "00" * (n - 1) + "01", "80" + "00" * (n - 1), "00" * (n - 1) + "80"]
        vals += [bytes(rng.randrange(256) for _ in range(n)).hex() for _ in range(nrand)]
        return ["x" + v for v in vals]
    if dom <= exhaustive_bits:
        return [str(v) for v in range(2 ** dom)]
    w = row["width"]
    top = 2 ** dom - 1
    cand = {0, 1, 2, top, top - 1, 2 ** (dom - 1), 2 ** (dom - 1) - 1}
    rep = (2 ** w - 1) // row["scale"]                      # largest representable value
    cand |= {rep, rep - 1, rep + 1, rep + 2, 2 * rep + 1}
    for j in range(dom):
        cand |= {2 ** j, 2 ** j - 1, 2 ** j + 1, top ^ (2 ** j)}
    for b in (0x55, 0xaa, 0x0f, 0xf0, 0x01, 0x80, 0xfe, 0x7f):
        cand.add(int.from_bytes(bytes([b]) * 8, "big") & top)
    for _ in range(nrand):
        cand.add(rng.randrange(top + 1))
        cand.add(rng.randrange(rep + 1))
    return [str(v) for v in sorted(c for c in cand if 0 <= c <= top)]


def gen_ops(g, rng, tier, only=None):
    """case = `init <class> <image> <mask>` followed by setter calls"""
    quick = tier == "quick"
    exhaustive_bits = 8 if quick else 16
    nrand = 24 if quick else 400
    per_case = 32
    ops = []
    args = {(c, f): (d, s) for c, f, d, s in g["args"]}
    by_cls = {}
    for r in g["rows"]:
        by_cls.setdefault(r["cls"], []).append(r)
    for cname in sorted(by_cls):
        if only and cname not in only:
            continue
        k = g["classes"][cname]
        L = k["len"]
        mh = mask_hex(k)
        default = g["defaults"][cname]
        rw = [r for r in by_cls[cname] if r["access"] == "rw"]
        pools = {}
        for r in rw:
            dom = args[(cname, r["fld"])][0]
            pools[r["fld"]] = [v for v in value_pool(rng, r, dom, exhaustive_bits, nrand)
                               if v not in AVOID_VALUES.get((cname, r["fld"]), ())]
        # (0) every representable value of narrow fields (a sample for wide ones) from complementary prior images,
        #     so that each value is written over a field holding all-zeros, all-ones and random bits
        for r in rw:
            w, sc = r["width"], r["scale"]
            if r["kind"] == "bytes":
                reps = pools[r["fld"]][:4]
            else:
                rep_max = (2 ** w - 1) // sc
                if rep_max < 16:
                    reps = [str(v) for v in range(rep_max + 1)]
                else:
                    reps = sorted({0, 1, rep_max, rep_max - 1, rep_max // 2, rep_max // 2 + 1} | {rng.randint(0, rep_max) for _ in range(10)})
                    reps = [str(v) for v in reps]
            reps = [v for v in reps if v not in AVOID_VALUES.get((cname, r["fld"]), ())]
            a = bytes(rng.randrange(256) for _ in range(L))
            for img in (a.hex(), bytes(x ^ 0xff for x in a).hex(), "00" * L, "ff" * L):
                ops.append(f"init {cname} {img} {mh}")
                seq = list(reps)
                rng.shuffle(seq)
                ops += [f"set {r['fld']} {v}" for v in seq]
        # (1) every value of the pool of every row, from random prior images
        for r in rw:
            vals = list(pools[r["fld"]])
            if len(vals) > 4096:
                pass                                     # exhaustive 16-bit sweep: keep the order (cheap), new image per chunk
            else:
                rng.shuffle(vals)
            for i in range(0, len(vals), per_case):
                ops.append(f"init {cname} {rand_image(rng, L, default)} {mh}")
                ops += [f"set {r['fld']} {v}" for v in vals[i:i + per_case]]
        # (2) random interleavings of setters of different fields on one object
        for _ in range(60 if quick else 1500):
            ops.append(f"init {cname} {rand_image(rng, L, default)} {mh}")
            for _ in range(rng.randint(2, 14)):
                r = rng.choice(rw)
                ops.append(f"set {r['fld']} {rng.choice(pools[r['fld']])}")
    fix = {c: f for c, f in FIX_IMAGE.items()}
    out = []
    for o in ops:
        w = o.split(" ")
        if w[0] == "init" and w[1] in fix:
            w[2] = fix[w[1]](w[2])
            o = " ".join(w)
        out.append(o)
    return out


def classify(op, impl):
    w = op.split(" ")
    if w[0] == "init":
        return "init"
    m = re.match(r"r=(\S+)", impl)
    return "set:" + (m.group(1) if m else impl.split(" ")[0][:20])


def sig_of(kind, detail, case):
    cls = case[0].split(" ")[1] if case and case[0].startswith("init ") else ""
    last = case[-1].split(" ")
    fld = last[1] if last[0] == "set" and len(last) > 1 else ""
    clause = detail.split(" ")[1] if kind == "spec" and " " in detail else ""
    return {"kind": kind, "clause": clause, "cls": cls, "fld": fld}


def _setup():
    g = gen_layout.generate()
    exe, err = core.build_harness(HARNESS, extra=("-fno-access-control",))
    return g, exe, err


def run(chk):
    g = gen_layout.generate()
    problems = chk.prove(MODULES, AUDIT, want_leanchecker=(chk.tier == "thorough"))
    exe, err = core.build_harness(HARNESS, extra=("-fno-access-control",))
    if exe is None:
        chk.violation("implementation / harness does not build: " + (err or "")[-1500:], ["build-error"], nofail=True)
        return
    rng = random.Random(chk.seed)
    custom_modelled = set(re.findall(r'⟨"(\w+)", "(\w+)", \d+', open(os.path.join(core.LEAN, "TinsModel", "Fields", "Custom.lean")).read()))
    simple = {(c, f) for c, f, *_ in g["simple"]}
    unmodelled_cls = sorted({r["cls"] for r in g["rows"] if (r["cls"], r["fld"]) not in simple and (r["cls"], r["fld"]) not in custom_modelled})
    all_cls = sorted(g["classes"])
    modelled_cls = [c for c in all_cls if c not in unmodelled_cls]
    stats = {}
    total = {"spec": 0, "fault": 0, "diff": 0}
    # corpus: the witness of every listed known finding is replayed first, so that a KNOWN-FINDING line is printed
    # because the finding was observed in this run (and it disappears from the output once the code is repaired)
    for kf in chk.known:
        sg = kf.get("signature", {})
        wit = kf.get("witness")
        if wit and sg.get("cls") in g["classes"]:
            k = g["classes"][sg["cls"]]
            ops = [f"init {k['name']} {g['defaults'][k['name']]} {mask_hex(k)}"] + list(wit)
            corr.correspond(chk, AREA, exe, ops, case_start=("init",), classify=classify, sig_of=sig_of,
                            model=(k["name"] in modelled_cls), max_reports=2)
    for group, with_model in ((modelled_cls, True), (unmodelled_cls, False)):
        for cname in group:
            ops = gen_ops(g, rng, chk.tier, only={cname})
            CH = 120000
            # split at case boundaries
            start = 0
            while start < len(ops):
                end = min(len(ops), start + CH)
                while end < len(ops) and not ops[end].startswith("init "):
                    end += 1
                st = corr.correspond(chk, AREA, exe, ops[start:end], case_start=("init",), classify=classify, sig_of=sig_of,
                                     model=with_model, max_reports=4)
                for a, b in st.items():
                    total[a] = total.get(a, 0) + b
                start = end
    for p in problems:
        # a theorem no longer checks: the run above was the search for a concrete failing input; known findings do not count
        if not any(not nofail for (_, _, nofail) in chk.violations):
            chk.violation("proof obligation no longer checks: " + p[:1500], ["theorem-or-audit-failure", p[:4000]], nofail=True)
    rows = g["rows"]
    chk.extra["rows_in_table"] = len(rows)
    chk.extra["rows_with_public_setter"] = sum(1 for r in rows if r["access"] == "rw")
    chk.extra["rows_modelled"] = sum(1 for r in rows if r["cls"] in modelled_cls)
    chk.extra["rows_one_statement_accessor (translator)"] = len(g["simple"])
    chk.extra["rows_hand_written_model"] = sorted(f"{c}.{f}" for c, f in custom_modelled)
    chk.extra["rows_oracle_only"] = sorted(f"{r['cls']}.{r['fld']}" for r in rows if r["cls"] in unmodelled_cls)
    chk.extra["classes_covered"] = all_cls
    chk.extra["rows_covered_of_design_estimate"] = f"{len(rows)} / ~{DESIGN_ROWS_ESTIMATE}"
    chk.extra["modelled_not_proved"] = ["derived bytes of the serialisation (lengths, checksums) are masked, not modelled (C05)",
                                        "big-endian #if branches of the accessors"]
    chk.cov["rule"] = ("case = (class, random/default/sparse header image poked into a fresh object, sequence of public setter calls); "
                       "values: every value of the C++ parameter domain when it has <= 8 bits (quick) / <= 16 bits (thorough), else "
                       "boundaries of the field width and of the parameter type, single bits, patterns and random values; "
                       "distinct_nontrivial counts distinct (operation, implementation result) pairs")
    chk.assumptions += [
        "little-endian host (the #if TINS_IS_LITTLE_ENDIAN branches are the ones modelled and exercised)",
        "prior states are created by copying an arbitrary image into the private header struct (-fno-access-control); "
        "IPv6 additionally gets next_header_ re-synchronised",
        "the object carries a 3-byte RawPDU payload (no payload for SNAP) so that next-protocol fields are not derived",
        "derived runs (lengths, checksums, header-length nibbles; Spec.classes) are masked out of the serialisation comparison",
        "enum-typed setters are exercised with values of the field's width only",
        "DHCPv6: relay message types 12/13 (different header layout) are not generated",
        "ICMPv6: types 1, 3 (RFC 4884 length byte derived) and 143 (MLDv2 record count derived) are not generated",
    ]
    chk.trusted += ["translator/gen_layout.py (accessor recognition by regex; layout probe compiled against the current headers)",
                    "generated harness harness/c15_fields.cpp + generators in checks/C15.py",
                    "g++ 12 / ASan+UBSan build of the repo's working tree"]
    corr.finalize_cov(chk)


def replay(path):
    g, exe, err = _setup()
    ok, text = core.lake_build(["tinsdriver"])
    ops = [l.rstrip("\n") for l in open(path) if not l.startswith("#") and l.strip()]
    impl, mod, spec, faults = corr.evaluate(AREA, exe, ops, ("init",))
    has_model = not any(l == "unmodelled" for l in mod)          # oracle-only class: no model lines to compare
    bad = corr.first_problem(ops, impl, mod if has_model else None, spec)
    for o, a, b, c in zip(ops, impl, mod, spec):
        print(o[:200]); print("  impl :", a[:400]); print("  model:", b[:400]); print("  spec :", c)
    if bad:
        print(f"VIOLATION property=C15 replay={path}")
        return 1
    return 0
