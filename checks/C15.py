"""C15 — header field accessors are exact inverses and do not disturb neighbouring fields."""
import json, os, random, re
from vlib import core, corr
from translator import gen_layout

AREA = "C15"
MODULES = ["TinsModel.Props.C15"]
AUDIT = "Audit/C15.lean"
LEVEL = "proof"
HARNESS = "c15_fields"
MANIFEST = dict(
    text="Lean 4 theorems: a generic bit-field lens over the header image (get-put, put-get, frame, disjointness) proved once; "
         "the compiler's struct layout (probe) and every one-statement accessor recognised in the C++ source proved equal to the "
         "hand-written RFC/IEEE field table by kernel evaluation, class block by class block (with a lemma that the walk reaches every "
         "row); every hand-written shift/mask accessor (IP flags/fragment offset, IPv6 traffic class/flow label, MPLS, Dot1Q id, SNAP, "
         "TCP flags, STP ids/timers, VXLAN, 802.11 sequence/BlockAck control of every frame class, LLC address bits and control formats, "
         "ICMP extension header, BootP chaddr, ...) proved equal to the lens for all values and all images; small_uint rejection.  "
         "The table covers every class below include/tins that has scalar header-field setter/getter pairs (all 802.11 management / "
         "control / data frames with their fixed parameters and capability bits, EAPOL RC4/RSN key descriptors, ICMP/ICMPv6 "
         "type-specific layouts, BootP, DHCPv6 relay, LLC, RTP, RadioTap, PPI, Loopback, ICMP extensions, ...); coverage is computed "
         "by the translator from the headers (pairs covered / pairs found).  Tied to the code by a generated harness that pokes "
         "random header images into real objects and runs every public setter/getter (exhaustive for small domains) under "
         "ASan/UBSan, compared 3-way with the model and with the spec oracle (getter value, all other getters, serialisation diff "
         "confined to the field).",
    note="Trusted: Lean kernel + standard axioms; translator (regex recognition of one-statement accessors, layout probe compiled "
         "by g++ with -fno-access-control; header scan that counts the accessor pairs); harness pokes the private header struct to "
         "create arbitrary prior states; little-endian host branch only; a class with several header shapes is covered shape by "
         "shape (variants with the shape-selecting field held fixed); not covered: LLC::modifier_function (two separate bit groups: "
         "not one field), LLC::type (selects the control format).",
    technique="Lean 4 proof (lens laws + table certificate by kernel evaluation + all-values accessor proofs) + generated exhaustive correspondence",
    design="DESIGN.md §6 C15")


def mask_hex(k):
    L = k["len"]
    b = bytearray(L)
    for off, w in k["derived"]:
        for i in range(off, off + w):
            if k["order"] == "be":
                b[i // 8] |= 1 << (7 - i % 8)
            else:
                b[i // 8] |= 1 << (i % 8)
    return b.hex()


# values / images the generators avoid (the serialisation changes shape there; out of scope of C15); the per-variant
# constraints (type byte of an ICMPv6 variant, DS bits of a 4-address frame, ...) come from translator/gen_layout.py CONFIG
AVOID_VALUES = {("DHCPv6", "msg_type"): {"12", "13"},          # relay-forward / relay-reply: different header layout
                ("ICMPv6", "type"): {"1", "3", "143"}}         # RFC 4884 length byte / MLDv2 record count are derived there
FIX_IMAGE = {"DHCPv6": lambda h: ("01" + h[2:]) if h[:2] in ("0c", "0d") else h,
             "ICMPv6": lambda h: ("80" + h[2:]) if h[:2] in ("01", "03", "8f") else h}


def fix_image(g, cname, h):
    if cname in FIX_IMAGE:
        h = FIX_IMAGE[cname](h)
    fx = g["fix"].get(cname)
    if fx:
        b = bytearray.fromhex(h)
        for i, am, om in fx:
            b[i] = (b[i] & am) | om
        h = b.hex()
    return h


def avoided(g, cname, fld):
    return set(AVOID_VALUES.get((cname, fld), ())) | set(g["avoid"].get(cname, {}).get(fld, ()))


def rand_image(rng, L, default):
    t = rng.random()
    if t < 0.08:
        return default
    if t < 0.12:
        return "00" * L
    if t < 0.16:
        return "ff" * L
    if t < 0.3:   # sparse / dense bit patterns
        dens = rng.choice([0.1, 0.9])
        return bytes(sum((rng.random() < dens) << j for j in range(8)) for _ in range(L)).hex()
    return bytes(rng.randrange(256) for _ in range(L)).hex()


def value_pool(rng, row, dom, exhaustive_bits, nrand):
    """values of the setter's parameter domain to try (decimal strings / x<hex>)"""
    if row["kind"] == "bytes":
        n = (row["width"] - (row["scale"].bit_length() - 1)) // 8
        vals = ["00" * n, "ff" * n, "01" + "00" * (n - 1), "00" * (n - 1) + "01", "80" + "00" * (n - 1), "00" * (n - 1) + "80"]
        vals += [bytes(rng.randrange(256) for _ in range(n)).hex() for _ in range(nrand)]
        return ["x" + v for v in vals]
    if dom <= exhaustive_bits:
        return [str(v) for v in range(2 ** dom)]
    w = row["width"]
    top = 2 ** dom - 1
    cand = {0, 1, 2, top, top - 1, 2 ** (dom - 1), 2 ** (dom - 1) - 1}
    rep = (2 ** w - 1) // row["scale"]                      # largest representable value
    cand |= {rep, rep - 1, rep + 1, rep + 2, 2 * rep + 1}
    for j in range(dom):
        cand |= {2 ** j, 2 ** j - 1, 2 ** j + 1, top ^ (2 ** j)}
    for b in (0x55, 0xaa, 0x0f, 0xf0, 0x01, 0x80, 0xfe, 0x7f):
        cand.add(int.from_bytes(bytes([b]) * 8, "big") & top)
    for _ in range(nrand):
        cand.add(rng.randrange(top + 1))
        cand.add(rng.randrange(rep + 1))
    return [str(v) for v in sorted(c for c in cand if 0 <= c <= top)]


def light_pool(rng, row, dom):
    """a row whose accessor code is exercised at full strength in another class (inherited accessor / variant of the
    same C++ class): boundaries + a few random values"""
    if row["kind"] == "bytes":
        n = (row["width"] - (row["scale"].bit_length() - 1)) // 8
        return ["x" + v for v in ("00" * n, "ff" * n, bytes(rng.randrange(256) for _ in range(n)).hex())]
    top = 2 ** dom - 1
    rep = (2 ** row["width"] - 1) // row["scale"]
    cand = {0, 1, rep, rep + 1, top, rng.randrange(rep + 1), rng.randrange(top + 1)}
    return [str(v) for v in sorted(c for c in cand if 0 <= c <= top)]


def gen_ops(g, rng, tier, only=None):
    """case = `init <class> <image> <mask>` followed by setter calls"""
    quick = tier == "quick"
    exhaustive_bits = 8 if quick else 16
    nrand = 24 if quick else 400
    per_case = 32
    ops = []
    args = {(c, f): (d, s) for c, f, d, s in g["args"]}
    by_cls = {}
    for r in g["rows"]:
        by_cls.setdefault(r["cls"], []).append(r)
    for cname in sorted(by_cls):
        if only and cname not in only:
            continue
        k = g["classes"][cname]
        L = k["len"]
        mh = mask_hex(k)
        default = g["defaults"][cname]
        rw = [r for r in by_cls[cname] if r["access"] == "rw"]
        light = {r["fld"] for r in rw if (cname, r["fld"]) in g["light"]}
        pools = {}
        for r in rw:
            dom = args[(cname, r["fld"])][0]
            if r["fld"] not in light:
                pool = value_pool(rng, r, dom, exhaustive_bits, nrand)
            elif quick:
                pool = light_pool(rng, r, dom)
            else:
                pool = value_pool(rng, r, dom, 8, 40)
            pools[r["fld"]] = [v for v in pool if v not in avoided(g, cname, r["fld"])]
        if not rw:
            # getters only (parse-only class): the getters are judged against the image on every `init`
            ops += [f"init {cname} {rand_image(rng, L, default)} {mh}" for _ in range(40 if quick else 2000)]
            ops += [f"init {cname} {img} {mh}" for img in ("00" * L, "ff" * L, default)]
        # (0) every representable value of narrow fields (a sample for wide ones) from complementary prior images,
        #     so that each value is written over a field holding all-zeros, all-ones and random bits
        for r in rw:
            w, sc = r["width"], r["scale"]
            if r["kind"] == "bytes":
                reps = pools[r["fld"]][:4]
            else:
                rep_max = (2 ** w - 1) // sc
                if rep_max < 16:
                    reps = [str(v) for v in range(rep_max + 1)]
                elif r["fld"] in light:
                    reps = [str(v) for v in sorted({0, rep_max, rng.randint(0, rep_max)})]
                else:
                    reps = sorted({0, 1, rep_max, rep_max - 1, rep_max // 2, rep_max // 2 + 1} | {rng.randint(0, rep_max) for _ in range(10)})
                    reps = [str(v) for v in reps]
            reps = [v for v in reps if v not in avoided(g, cname, r["fld"])]
            a = bytes(rng.randrange(256) for _ in range(L))
            imgs = (a.hex(), bytes(x ^ 0xff for x in a).hex(), "00" * L, "ff" * L)
            if r["fld"] in light:
                imgs = imgs[:2]
            for img in imgs:
                ops.append(f"init {cname} {img} {mh}")
                seq = list(reps)
                rng.shuffle(seq)
                ops += [f"set {r['fld']} {v}" for v in seq]
        # (1) every value of the pool of every row, from random prior images
        for r in rw:
            if quick and r["fld"] in light:
                continue                                 # the small pool was used in (0) and is used again in (2)
            vals = list(pools[r["fld"]])
            if len(vals) > 4096:
                pass                                     # exhaustive 16-bit sweep: keep the order (cheap), new image per chunk
            else:
                rng.shuffle(vals)
            for i in range(0, len(vals), per_case):
                ops.append(f"init {cname} {rand_image(rng, L, default)} {mh}")
                ops += [f"set {r['fld']} {v}" for v in vals[i:i + per_case]]
        # (2) random interleavings of setters of different fields on one object
        full_share = (len(rw) - len(light)) / max(1, len(rw))
        n_inter = 1000 if not light else max(100, int(1000 * full_share))
        if quick:
            n_inter = 60 if not light else max(10, int(60 * full_share))
        usable = [r for r in rw if pools[r["fld"]]]
        for _ in range(n_inter if usable else 0):
            ops.append(f"init {cname} {rand_image(rng, L, default)} {mh}")
            for _ in range(rng.randint(2, 14)):
                r = rng.choice(usable)
                ops.append(f"set {r['fld']} {rng.choice(pools[r['fld']])}")
    out = []
    for o in ops:
        w = o.split(" ")
        if w[0] == "init":
            w[2] = fix_image(g, w[1], w[2])
            o = " ".join(w)
        out.append(o)
    return out


def classify(op, impl):
    w = op.split(" ")
    if w[0] == "init":
        return "init"
    m = re.match(r"r=(\S+)", impl)
    return "set:" + (m.group(1) if m else impl.split(" ")[0][:20])


def sig_of(kind, detail, case):
    cls = case[0].split(" ")[1] if case and case[0].startswith("init ") else ""
    last = case[-1].split(" ")
    fld = last[1] if last[0] == "set" and len(last) > 1 else ""
    clause = detail.split(" ")[1] if kind == "spec" and " " in detail else ""
    return {"kind": kind, "clause": clause, "cls": cls, "fld": fld}


def _setup():
    g = gen_layout.generate()
    exe, err = core.build_harness(HARNESS, extra=("-fno-access-control",))
    return g, exe, err


def run(chk):
    g = gen_layout.generate()
    problems = chk.prove(MODULES, AUDIT, want_leanchecker=(chk.tier == "thorough"))
    exe, err = core.build_harness(HARNESS, extra=("-fno-access-control",))
    if exe is None:
        chk.violation("implementation / harness does not build: " + (err or "")[-1500:], ["build-error"], nofail=True)
        return
    rng = random.Random(chk.seed)
    custom_modelled = set(re.findall(r'⟨"(\w+)", "(\w+)", \d+', open(os.path.join(core.LEAN, "TinsModel", "Fields", "Custom.lean")).read()))
    simple = {(c, f) for c, f, *_ in g["simple"]}
    unmodelled_cls = sorted({r["cls"] for r in g["rows"] if (r["cls"], r["fld"]) not in simple and (r["cls"], r["fld"]) not in custom_modelled})
    all_cls = sorted(g["classes"])
    modelled_cls = [c for c in all_cls if c not in unmodelled_cls]
    stats = {}
    total = {"spec": 0, "fault": 0, "diff": 0}
    # corpus: the witness of every listed known finding is replayed first, so that a KNOWN-FINDING line is printed
    # because the finding was observed in this run (and it disappears from the output once the code is repaired)
    for kf in chk.known:
        sg = kf.get("signature", {})
        wit = kf.get("witness")
        if wit and sg.get("cls") in g["classes"]:
            k = g["classes"][sg["cls"]]
            ops = [f"init {k['name']} {fix_image(g, k['name'], g['defaults'][k['name']])} {mask_hex(k)}"] + list(wit)
            corr.correspond(chk, AREA, exe, ops, case_start=("init",), classify=classify, sig_of=sig_of,
                            model=(k["name"] in modelled_cls), max_reports=2)
    BATCH = 30000                                            # several classes per harness / driver process
    for group, with_model in ((modelled_cls, True), (unmodelled_cls, False)):
        pending = []

        def flush():
            CH = 120000
            start = 0
            while start < len(pending):                      # split at case boundaries
                end = min(len(pending), start + CH)
                while end < len(pending) and not pending[end].startswith("init "):
                    end += 1
                st = corr.correspond(chk, AREA, exe, pending[start:end], case_start=("init",), classify=classify, sig_of=sig_of,
                                     model=with_model, max_reports=4)
                for a, b in st.items():
                    total[a] = total.get(a, 0) + b
                start = end
            del pending[:]
        for cname in group:
            pending += gen_ops(g, rng, chk.tier, only={cname})
            if len(pending) >= BATCH:
                flush()
        flush()
    for p in problems:
        # a theorem no longer checks: the run above was the search for a concrete failing input; known findings do not count
        if not any(not nofail for (_, _, nofail) in chk.violations):
            chk.violation("proof obligation no longer checks: " + p[:1500], ["theorem-or-audit-failure", p[:4000]], nofail=True)
    rows = g["rows"]
    chk.extra["rows_in_table"] = len(rows)
    chk.extra["rows_with_public_setter"] = sum(1 for r in rows if r["access"] == "rw")
    chk.extra["rows_modelled"] = sum(1 for r in rows if r["cls"] in modelled_cls)
    chk.extra["rows_one_statement_accessor (translator)"] = len(g["simple"])
    chk.extra["rows_hand_written_model"] = sorted(f"{c}.{f}" for c, f in custom_modelled)
    chk.extra["rows_oracle_only"] = sorted(f"{r['cls']}.{r['fld']}" for r in rows if r["cls"] in unmodelled_cls)
    chk.extra["classes_covered"] = all_cls
    st = g["stats"]
    chk.extra["cpp_classes_with_header_field_pairs (header scan)"] = st["classes_with_pairs"]
    chk.extra["cpp_classes_fully_covered"] = f"{len(st['classes_fully_covered'])} / {len(st['classes_with_pairs'])}"
    chk.extra["accessor_pairs_covered_of_found (header scan)"] = f"{st['pairs_covered']} / {st['pairs_total']}"
    chk.extra["accessor_pairs_not_covered"] = st["pairs_uncovered"]
    chk.extra["accessor_pairs_excluded_as_not_header_fields"] = st["excluded"]
    chk.extra["spec_classes_incl_variants"] = len(all_cls)
    chk.extra["modelled_not_proved"] = ["derived bytes of the serialisation (lengths, checksums) are masked, not modelled (C05)",
                                        "big-endian #if branches of the accessors",
                                        "LLC::modifier_function (the modifier bits are two separate groups of the control octet, not one "
                                        "contiguous field) and LLC::type (selects the control format, i.e. the header's shape) have no row",
                                        "PPI is parse-only: its four getters are judged against the poked image (no serialisation to compare)"]
    chk.cov["rule"] = ("case = (class, random/default/sparse header image poked into a fresh object, sequence of public setter calls); "
                       "values: every value of the C++ parameter domain when it has <= 8 bits (quick) / <= 16 bits (thorough), else "
                       "boundaries of the field width and of the parameter type, single bits, patterns and random values; "
                       "distinct_nontrivial counts distinct (operation, implementation result) pairs")
    chk.assumptions += [
        "little-endian host (the #if TINS_IS_LITTLE_ENDIAN branches are the ones modelled and exercised)",
        "prior states are created by copying an arbitrary image into the private header struct (-fno-access-control); "
        "IPv6 additionally gets next_header_ re-synchronised",
        "the object carries a 3-byte RawPDU payload (no payload for SNAP) so that next-protocol fields are not derived",
        "derived runs (lengths, checksums, header-length nibbles; Spec.classes) are masked out of the serialisation comparison",
        "enum-typed setters are exercised with values of the field's width only",
        "DHCPv6: relay message types 12/13 (different header layout) are not generated in class DHCPv6 (class DHCPv6Relay covers them)",
        "ICMPv6: types 1, 3 (RFC 4884 length byte derived) and 143 (MLDv2 record count derived) are not generated",
        "variants: a class whose header shape depends on a field (ICMP / ICMPv6 type, 802.11 To DS + From DS, LLC format, RTP X bit, "
        "DHCPv6 relay types) is covered shape by shape with that field held fixed (read-only row, image bytes forced by the generator)",
        "802.11 frames with fixed parameters are exercised with From DS = 0 (with both DS bits set libtins inserts a fourth address "
        "before the fixed parameters; the 4-address shape is covered by the *WDS variants)",
        "rows whose accessor code is exercised at full strength in another class (inherited accessors, variants of one C++ class) "
        "are sampled lightly there: boundary + random values (quick), every value of domains <= 8 bits + boundaries + 40 random values "
        "(thorough); they take part in the interleavings like every other row",
        "LLC: the cached format member type_ is set by LLC::type() after the image is poked (the generator keeps the type bits of the "
        "control octet consistent with it)",
    ]
    chk.trusted += ["translator/gen_layout.py (accessor recognition by regex; layout probe compiled against the current headers; header scan counting the accessor pairs)",
                    "generated harness harness/c15_fields.cpp + generators in checks/C15.py",
                    "g++ 12 / ASan+UBSan build of the repo's working tree"]
    corr.finalize_cov(chk)


def replay(path):
    g, exe, err = _setup()
    ok, text = core.lake_build(["tinsdriver"])
    ops = [l.rstrip("\n") for l in open(path) if not l.startswith("#") and l.strip()]
    impl, mod, spec, faults = corr.evaluate(AREA, exe, ops, ("init",))
    has_model = not any(l == "unmodelled" for l in mod)          # oracle-only class: no model lines to compare
    bad = corr.first_problem(ops, impl, mod if has_model else None, spec)
    for o, a, b, c in zip(ops, impl, mod, spec):
        print(o[:200]); print("  impl :", a[:400]); print("  model:", b[:400]); print("  spec :", c)
    if bad:
        print(f"VIOLATION property=C15 replay={path}")
        return 1
    return 0
