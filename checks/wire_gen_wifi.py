"""Structured generators of the Wifi family (RadioTap, Dot11 classes, RC4/RSN EAPOL) for the wire checks C01–C04.
Packets are built byte by byte here, independently of libtins."""
from checks import wire_common as wc
import struct

MGMT = {  # class -> (subtype, fixed-parameter size)
    "Dot11AssocRequest": (0, 4), "Dot11AssocResponse": (1, 6), "Dot11ReAssocRequest": (2, 10),
    "Dot11ReAssocResponse": (3, 6), "Dot11ProbeRequest": (4, 0), "Dot11ProbeResponse": (5, 12),
    "Dot11Beacon": (8, 12), "Dot11Disassoc": (10, 2), "Dot11Authentication": (11, 6), "Dot11Deauthentication": (12, 2),
}
CTRL_TA = {"Dot11BlockAckRequest": (8, 4), "Dot11BlockAck": (9, 12), "Dot11PSPoll": (10, 0), "Dot11RTS": (11, 0),
           "Dot11CFEnd": (14, 0), "Dot11EndCFAck": (15, 0)}
PLAIN = {"Dot11Ack": (1, 13), "Dot11Control": (1, 12), "Dot11": (3, 0)}
BOUNDARY_LENS = [0, 1, 2, 3, 4, 7, 8, 9, 15, 16, 17, 32, 253, 254, 255]
KNOWN_TAGS = [0, 1, 2, 3, 4, 5, 6, 7, 8, 9, 10, 11, 12, 16, 32, 33, 35, 36, 37, 40, 41, 42, 46, 48, 50, 221]
# natural payload lengths of the typed options (so that the typed decoders of the sweep see well-formed data too)
TYPED_LEN = {2: 5, 3: 1, 4: 6, 5: 4, 6: 2, 7: 6, 8: 2, 9: 4, 11: 5, 12: 18, 32: 1, 33: 2, 35: 2, 37: 3, 40: 6, 41: 7,
             42: 1, 46: 1, 48: 20}


def hexs(b):
    return bytes(b).hex() if b else "-"


def rb(rng, n):
    return bytes(rng.randrange(256) for _ in range(n))


def mac(rng):
    return rng.choice([b"\xff" * 6, bytes(6), rb(rng, 6)])


def frame_control(rng, ftype, sub, force_ds=None, wep=None):
    flags = rng.choice([0, 0, 1, 2, 3, 0x08, 0x40, 0x80, 0xff, rng.randrange(256)])
    if force_ds is not None:
        flags = (flags & ~3) | force_ds
    if wep is not None:
        flags = (flags & ~0x40) | (0x40 if wep else 0)
    proto = rng.choice([0, 0, 0, 1, 3])
    return bytes([proto | (ftype << 2) | (sub << 4), flags])


def rsn_ie(rng):
    np, na = rng.choice([0, 1, 1, 2, 3]), rng.choice([0, 1, 1, 2])
    suites = [0x01ac0f00, 0x02ac0f00, 0x04ac0f00, 0x05ac0f00, rng.randrange(1 << 32)]
    b = struct.pack("<HI", rng.choice([1, 1, 0, 2, 0xffff]), rng.choice(suites))
    b += struct.pack("<H", np) + b"".join(struct.pack("<I", rng.choice(suites)) for _ in range(np))
    b += struct.pack("<H", na) + b"".join(struct.pack("<I", rng.choice(suites)) for _ in range(na))
    b += struct.pack("<H", rng.randrange(65536))
    k = rng.random()
    if k < 0.15:                       # counts that lie
        b = bytearray(b); b[6] = rng.choice([0xff, 4, 5, 0x80]); b = bytes(b)
    elif k < 0.3:                      # truncated (capabilities / lists are optional in the standard)
        b = b[:rng.randint(0, len(b))]
    return b


def tagged(rng, max_opts=6):
    """a tagged-parameter area: valid TLVs (boundary lengths, typed payload sizes), optionally a damaged tail"""
    out = b""
    for _ in range(rng.choice([0, 1, 1, 2, 3, max_opts])):
        code = rng.choice(KNOWN_TAGS + [rng.randrange(256)])
        r = rng.random()
        if code == 48 and r < 0.7:
            data = rsn_ie(rng)
        elif code in TYPED_LEN and r < 0.6:
            data = rb(rng, TYPED_LEN[code] + rng.choice([0, 0, 0, -1, 1, 2]))
        else:
            data = rb(rng, rng.choice(BOUNDARY_LENS + [rng.randint(0, 40)]))
        data = data[:255]
        out += bytes([code, len(data)]) + data
    k = rng.random()
    if k < 0.12:
        out += bytes([rng.randrange(256)])                                  # a single trailing byte
    elif k < 0.24:
        ln = rng.choice([1, 2, 8, 255])
        out += bytes([rng.choice(KNOWN_TAGS), ln]) + rb(rng, rng.randint(0, ln - 1))   # last option cut short
    elif k < 0.30 and out:
        out = out[:rng.randint(0, len(out))]
    return out


def dot11_frame(rng, cls, payload_ok=True):
    """(entry class, bytes) of a mostly valid frame of class `cls`"""
    if cls in MGMT:
        sub, blen = MGMT[cls]
        fc = frame_control(rng, 0, sub)
        both = (fc[1] & 3) == 3
        b = fc + rb(rng, 2) + mac(rng) + mac(rng) + mac(rng) + rb(rng, 2) + (mac(rng) if both else b"") + rb(rng, blen)
        b += tagged(rng)
    elif cls in CTRL_TA:
        sub, blen = CTRL_TA[cls]
        b = frame_control(rng, 1, sub) + rb(rng, 2) + mac(rng) + mac(rng) + rb(rng, blen)
        if rng.random() < 0.2:
            b += rb(rng, rng.randint(1, 6))
    elif cls in PLAIN:
        t, sub = PLAIN[cls]
        b = frame_control(rng, t, sub) + rb(rng, 2) + mac(rng)
        if rng.random() < 0.2:
            b += rb(rng, rng.randint(1, 12))
    else:  # data frames
        qos = cls == "Dot11QoSData"
        sub = rng.choice([8, 9, 10, 11, 12, 15]) if qos else rng.choice([0, 1, 2, 3, 4])
        wep = rng.random() < 0.6
        fc = frame_control(rng, 2, sub, wep=wep)
        both = (fc[1] & 3) == 3
        b = fc + rb(rng, 2) + mac(rng) + mac(rng) + mac(rng) + rb(rng, 2) + (mac(rng) if both else b"")
        if qos:
            b += rb(rng, 2)
        if payload_ok and rng.random() < 0.85:
            if wep:
                b += rb(rng, rng.choice([1, 2, 7, 8, 16, 40]))
            else:   # LLC/SNAP header + payload
                b += bytes([0xaa, 0xaa, 3, 0, 0, 0]) + rng.choice([b"\x08\x00", b"\x88\x8e", b"\x12\x34"]) + rb(rng, rng.choice([0, 1, 20, 28]))
    return b


ALL_DOT11 = list(MGMT) + list(CTRL_TA) + list(PLAIN) + ["Dot11Data", "Dot11QoSData"]

RT_FIELDS = [(8, 8), (1, 1), (1, 1), (4, 2), (2, 2), (1, 1), (1, 1), (2, 2), (2, 2), (2, 2), (1, 1), (1, 1), (1, 1), (1, 1),
             (2, 2), (2, 2), (1, 1), (1, 1), (8, 4), (3, 1), (8, 4), (12, 2)]


def radiotap(rng, inner):
    """a RadioTap header (one or more present words, aligned fields) + inner frame [+ FCS]"""
    nwords = rng.choice([1, 1, 1, 2, 3])
    words = []
    for w in range(nwords):
        bits = 0
        for bit in range(22):
            if rng.random() < (0.35 if w == 0 else 0.15):
                bits |= 1 << bit
        if w == 0 and rng.random() < 0.8:
            bits |= 2                                     # FLAGS
        if rng.random() < 0.1:
            bits |= rng.randrange(1 << 22, 1 << 31)       # reserved / namespace bits
        if w < nwords - 1:
            bits |= 1 << 31
        words.append(bits)
    fcs = rng.random() < 0.5
    failed = rng.random() < 0.06
    body = b"".join(struct.pack("<I", w) for w in words)
    for wi, w in enumerate(words):
        for bit in range(22):
            if w >> bit & 1:
                size, align = RT_FIELDS[bit]
                pos = 4 + len(body)
                pad = (-pos) % align
                body += bytes(pad)
                val = rb(rng, size)
                if bit == 1 and wi == 0:
                    fl = rng.randrange(256) & ~0x50
                    fl |= (0x10 if fcs else 0) | (0x40 if failed else 0)
                    val = bytes([fl])
                body += val
    has_flags0 = bool(words[0] & 2)
    ln = 4 + len(body)
    k = rng.random()
    if k < 0.08:
        ln = rng.choice([0, 4, 7, 8, ln - 1, ln + 1, ln + 4, 0xffff])
    hdr = bytes([rng.choice([0, 0, 0, 1]), rng.choice([0, 0, 0, 7])]) + struct.pack("<H", ln & 0xffff)
    pkt = hdr + body + inner
    if fcs and has_flags0:
        pkt += rb(rng, 4)
    if rng.random() < 0.08:
        pkt = pkt[:rng.randint(0, len(pkt))]
    return pkt


def eapol(rng, rsn):
    """RC4 / RSN EAPOL key frame"""
    klen = rng.choice([0, 0, 1, 5, 13, 16, 32, 38, 200])
    key = rb(rng, klen)
    if rsn:
        info = rng.randrange(65536)
        body = struct.pack(">HH", info, rng.choice([0, 16, 32, 5])) + rb(rng, 8) + rb(rng, 32) + rb(rng, 16) + rb(rng, 8) \
            + rb(rng, 8) + rb(rng, 16) + struct.pack(">H", klen)
        ty = rng.choice([2, 2, 254])
    else:
        body = struct.pack(">H", klen) + rb(rng, 8) + rb(rng, 16) + rb(rng, 1) + rb(rng, 16)
        ty = 1
    k = rng.random()
    tail = b""
    if k < 0.2:
        key = key[:rng.randint(0, max(0, klen - 1))] if klen else key     # advertised key longer than what is left
    elif k < 0.45:
        tail = rb(rng, rng.choice([1, 2, 4, 30]))                         # payload after the key
    payload = body + key + tail
    ln = len(payload) + 1
    r = rng.random()
    if r < 0.1:
        ln = rng.choice([0, 1, ln - 1, ln + 1, 0xffff, len(body)])
    return bytes([rng.choice([1, 2, 3]), 3]) + struct.pack(">H", ln & 0xffff) + bytes([ty]) + payload


def gen_parse(rng, n):
    ops = []
    for _ in range(n):
        k = rng.random()
        if k < 0.5:
            cls = rng.choice(ALL_DOT11)
            b = dot11_frame(rng, cls)
            entry = rng.choice([cls, cls, "Dot11*"])
            if rng.random() < 0.08:                          # a frame of one class handed to another class' constructor
                entry = rng.choice(ALL_DOT11)
            if rng.random() < 0.1:
                b = b[:rng.randint(0, len(b))]
            ops.append(f"parse {entry} {hexs(b)}")
        elif k < 0.75:
            cls = rng.choice(ALL_DOT11)
            inner = dot11_frame(rng, cls) if rng.random() < 0.9 else rb(rng, rng.choice([0, 1, 2, 4, 9, 10]))
            ops.append(f"parse RadioTap {hexs(radiotap(rng, inner))}")
        else:
            rsn = rng.random() < 0.5
            b = eapol(rng, rsn)
            r = rng.random()
            if r < 0.45:
                entry = "EAPOL*"
                if rng.random() < 0.15:
                    b = b[:4] + bytes([rng.choice([0, 3, 4, 253, 255])]) + b[5:]   # unknown key descriptor type
            else:
                entry = "RSNEAPOL" if rsn else "RC4EAPOL"
            if rng.random() < 0.1:
                b = b[:rng.randint(0, len(b))]
            ops.append(f"parse {entry} {hexs(b)}")
    return ops


# ------------------------------------------------------------------------------------------------ API programs

def scalar_ops(rng, cls):
    ops = [f"duration_id {rng.choice([0, 1, 0x7fff, 0xffff, rng.randrange(65536)])}", f"addr1 {mac(rng).hex()}",
           f"more_frag {rng.randrange(2)}", f"retry {rng.randrange(2)}", f"power_mgmt {rng.randrange(2)}",
           f"more_data {rng.randrange(2)}", f"order {rng.randrange(2)}", f"protocol {rng.randrange(4)}"]
    if cls in MGMT or cls in ("Dot11Data", "Dot11QoSData"):
        ops += [f"addr2 {mac(rng).hex()}", f"addr3 {mac(rng).hex()}", f"frag_num {rng.choice([0, 1, 15, rng.randrange(16)])}",
                f"seq_num {rng.choice([0, 1, 4095, rng.randrange(4096)])}", f"to_ds {rng.randrange(2)}", f"from_ds {rng.randrange(2)}",
                f"addr4 {mac(rng).hex()}"]
    if cls in CTRL_TA:
        ops += [f"target_addr {mac(rng).hex()}"]
    if cls in ("Dot11BlockAckRequest", "Dot11BlockAck"):
        ops += [f"bar_control {rng.randrange(16)}", f"start_sequence {rng.choice([0, 4095, rng.randrange(4096)])}",
                f"fragment_number {rng.randrange(16)}"]
    if cls == "Dot11BlockAck":
        ops += [f"bitmap {rb(rng, 8).hex()}"]
    if cls == "Dot11QoSData":
        ops += [f"qos_control {rng.randrange(65536)}"]
    u16 = lambda: rng.choice([0, 1, 255, 256, 0xffff, rng.randrange(65536)])
    if cls in ("Dot11Beacon", "Dot11ProbeResponse"):
        ops += [f"timestamp {rng.choice([0, 1, (1 << 64) - 1, rng.randrange(1 << 64)])}", f"interval {u16()}"]
    if cls in ("Dot11Disassoc", "Dot11Deauthentication"):
        ops += [f"reason_code {u16()}"]
    if cls in ("Dot11AssocRequest", "Dot11ReAssocRequest"):
        ops += [f"listen_interval {u16()}"]
    if cls == "Dot11ReAssocRequest":
        ops += [f"current_ap {mac(rng).hex()}"]
    if cls in ("Dot11AssocResponse", "Dot11ReAssocResponse"):
        ops += [f"status_code {u16()}", f"aid {u16()}"]
    if cls == "Dot11Authentication":
        ops += [f"auth_algorithm {u16()}", f"auth_seq_number {u16()}", f"status_code {u16()}"]
    if cls in MGMT and cls not in ("Dot11ProbeRequest", "Dot11Disassoc", "Dot11Deauthentication", "Dot11Authentication"):
        ops += [f"cap {rng.randrange(16)} {rng.randrange(2)}"]
    return ops


def u8(rng):
    return rng.choice([0, 1, 127, 128, 255, rng.randrange(256)])


def pairs(rng, n):
    return ",".join(f"{u8(rng)}:{u8(rng)}" for _ in range(n)) or "-"


def typed_op(rng):
    """one typed tagged-option setter with a representable argument (every list/string ≤ 255 bytes once encoded,
    rates < 64 Mbit/s so that the basic-rate bit is not part of the value)"""
    u16 = lambda: rng.choice([0, 1, 255, 256, 0xffff, rng.randrange(65536)])
    u32 = lambda: rng.choice([0, 1, 0xffffffff, rng.randrange(1 << 32)])
    blen = lambda lo=1: rng.choice([lo, lo + 1, 7, 8, 9, 32, rng.randint(lo, 60)])
    suites = [0x01ac0f00, 0x02ac0f00, 0x04ac0f00, 0x05ac0f00, 0x06ac0f00]
    choices = [
        lambda: f"ssid {hexs(wc.textish(rng, rng.choice([0, 1, 6, 7, 8, 9, 32, 255])))}",
        lambda: "supported_rates " + (",".join(str(rng.choice([2, 4, 11, 22, 12, 18, 24, 36, 48, 72, 96, 108, rng.randrange(128)])) for _ in range(rng.choice([0, 1, 4, 8, 9]))) or "-"),
        lambda: "extended_supported_rates " + (",".join(str(rng.randrange(128)) for _ in range(rng.choice([0, 1, 4, 8, 9]))) or "-"),
        lambda: f"qos_capability {u8(rng)}",
        lambda: f"power_capability {u8(rng)} {u8(rng)}",
        lambda: f"supported_channels {pairs(rng, rng.choice([0, 1, 2, 4, 5]))}",
        lambda: f"edca_parameter_set {u32()} {u32()} {u32()} {u32()}",
        lambda: f"request_information {hexs(rb(rng, blen(0)))}",
        lambda: f"fh_parameter_set {u16()} {u8(rng)} {u8(rng)} {u8(rng)}",
        lambda: f"ds_parameter_set {u8(rng)}",
        lambda: f"cf_parameter_set {u8(rng)} {u8(rng)} {u16()} {u16()}",
        lambda: f"ibss_parameter_set {u16()}",
        lambda: f"ibss_dfs {mac(rng).hex()} {u8(rng)} {pairs(rng, rng.choice([1, 2, 5]))}",
        lambda: f"country {rb(rng, 3).hex()} {','.join(f'{u8(rng)}:{u8(rng)}:{u8(rng)}' for _ in range(rng.choice([1, 2, 3, 4])))}",
        lambda: f"fh_parameters {u8(rng)} {u8(rng)}",
        lambda: f"fh_pattern_table {u8(rng)} {u8(rng)} {u8(rng)} {u8(rng)} {hexs(rb(rng, rng.choice([0, 1, 4, 5, 20])))}",
        lambda: f"power_constraint {u8(rng)}",
        lambda: f"channel_switch {u8(rng)} {u8(rng)} {u8(rng)}",
        lambda: f"quiet {u8(rng)} {u8(rng)} {u16()} {u16()}",
        lambda: f"tpc_report {u8(rng)} {u8(rng)}",
        lambda: f"erp_information {u8(rng)}",
        lambda: f"bss_load {u16()} {u8(rng)} {u16()}",
        lambda: f"tim {u8(rng)} {u8(rng)} {u8(rng)} {hexs(rb(rng, rng.choice([1, 2, 5, 6, 30])))}",
        lambda: f"challenge_text {hexs(wc.textish(rng, rng.choice([1, 8, 9, 128, 253])))}",
        lambda: f"vendor_specific {rb(rng, 3).hex()} {hexs(rb(rng, rng.choice([0, 1, 4, 5, 6, 30])))}",
        lambda: ("rsn_information " + f"{rng.choice([1, 1, 2, 0xffff])} {rng.choice(suites)} "
                 + (",".join(str(rng.choice(suites)) for _ in range(rng.choice([0, 1, 2, 3]))) or "-") + " "
                 + (",".join(str(rng.choice(suites)) for _ in range(rng.choice([0, 1, 2]))) or "-") + f" {u16()}"),
    ]
    return rng.choice(choices)()


def raw_option_op(rng):
    data = rb(rng, rng.choice([0, 1, 7, 8, 9, 16, 254, 255, rng.randint(0, 40)]))
    return f"add_option {rng.choice(KNOWN_TAGS + [rng.randrange(256)])} {len(data)} {hexs(data)}"


def typed_value_probes():
    """C04 value clause: every typed tagged-option setter once on a fresh Beacon with members that are all different,
    directly followed by `show` (deterministic: every seed covers every codec)"""
    table = ["ssid 6e6574", "supported_rates 2,4,11,22", "extended_supported_rates 12,18,24", "qos_capability 5",
             "power_capability 3 20", "supported_channels 1:11,36:4", "request_information 000103", "fh_parameter_set 258 3 4 5",
             "ds_parameter_set 6", "cf_parameter_set 1 2 772 1286", "ibss_parameter_set 258", "ibss_dfs 0a0b0c0d0e0f 7 1:2,3:4",
             "country 555320 1:11:30,36:4:23", "country 444520 1:13:20", "fh_parameters 2 9", "fh_pattern_table 1 2 3 4 0506",
             "power_constraint 3", "channel_switch 1 6 9", "quiet 1 2 772 1286", "tpc_report 17 5", "erp_information 4",
             "bss_load 258 3 1029", "tim 1 2 3 0405", "challenge_text 0102030405", "vendor_specific 0050f2 01020304",
             "rsn_information 1 78384896 78384896,78384128 78384640 258"]
    ops = []
    for t in table:
        ops += ["new", "push Dot11Beacon", f"set 0 {t}", "show"]
    return ops


def gen_build(rng, n):
    ops = typed_value_probes()
    for _ in range(n):
        ops.append("new")
        k = rng.random()
        if k < 0.7:
            cls = rng.choice(ALL_DOT11)
            args = rng.choice(["", f" {mac(rng).hex()}", f" {mac(rng).hex()} {mac(rng).hex()}"])
            if cls in PLAIN and args.count(" ") == 2:
                args = args.rsplit(" ", 1)[0]
            ops.append(f"push {cls}{args}")
            data_frame = cls in ("Dot11Data", "Dot11QoSData")
            if data_frame:
                # the only payload a data frame can carry without another family's class is an opaque (protected) one
                ops.append("set 0 wep 1")
                if rng.random() < 0.85:
                    ops.append(f"push RawPDU {hexs(rb(rng, rng.choice([1, 2, 8, 30])))}")
            codes = []
            for _ in range(rng.choice([0, 1, 2, 3, 5, 8])):
                r = rng.random()
                if cls in MGMT and r < 0.45:
                    ops.append("set 0 " + typed_op(rng))
                elif cls in MGMT and r < 0.6:
                    ops.append("set 0 " + raw_option_op(rng))
                elif cls in MGMT and r < 0.72:
                    ops.append(f"set 0 remove_option {rng.choice(KNOWN_TAGS)}")
                else:
                    op = rng.choice(scalar_ops(rng, cls))
                    if data_frame and op.startswith("wep "):
                        continue
                    ops.append("set 0 " + op)
                if rng.random() < 0.25:
                    ops.append("show")
        else:
            rsn = rng.random() < 0.5
            ops.append("push " + ("RSNEAPOL" if rsn else "RC4EAPOL"))
            klen = rng.choice([0, 0, 1, 5, 16, 32, 33])
            sets = [f"version {u8(rng)}", f"packet_type {u8(rng)}", f"replay_counter {rng.choice([0, 1, (1 << 64) - 1, rng.randrange(1 << 64)])}",
                    f"key_iv {rb(rng, 16).hex()}"]
            if rsn:
                sets += [f"key_mic {rng.randrange(2)}", f"secure {rng.randrange(2)}", f"error {rng.randrange(2)}",
                         f"request {rng.randrange(2)}", f"encrypted {rng.randrange(2)}", f"key_descriptor {rng.randrange(8)}",
                         f"key_index {rng.randrange(4)}", f"key_ack {rng.randrange(2)}", f"nonce {rb(rng, 32).hex()}",
                         f"rsc {rb(rng, 8).hex()}", f"id {rb(rng, 8).hex()}", f"mic {rb(rng, 16).hex()}",
                         f"key_t {rng.randrange(2)}", f"install {rng.randrange(2)}",
                         f"key_length {rng.choice([0, 5, 13, 16, 32])}"]
            else:
                sets += [f"key_flag {rng.randrange(2)}", f"key_index {rng.randrange(128)}", f"key_sign {rb(rng, 16).hex()}"]
            for _ in range(rng.choice([0, 1, 3, 6])):
                ops.append("set 0 " + rng.choice(sets))
            if klen:
                ops.append(f"set 0 key {rb(rng, klen).hex()}")
            # a payload can only follow a key whose advertised length is the key's length (both derived on serialization
            # when the key is non-empty; 0 = 0 when it is empty)
            if rng.random() < 0.5:
                ops.append(f"push RawPDU {hexs(rb(rng, rng.choice([1, 4, 20])))}")
        ops.append("show")
    return ops
