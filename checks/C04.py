"""C04 — see DESIGN.md §6 C04. Shares harness/wire_main.cpp and the Lean wire model with C01–C04."""
from checks import wire_checks

LEVEL = "proof"
MANIFEST = dict(
    text="API histories (constructors, operator/, setters, option edits) run on the real classes and on the Lean model; getters must agree after every step and the wire round trip must preserve the view; codec-inverse theorems for the modelled typed fields/options.",
    note="Proof covers the Lean models of the classes listed in the evidence (modelled_classes) and the generic backbone; "
         "the tie is differential correspondence under sanitizers; unmodelled classes get the implementation-side oracle only. "
         "Trusted: Lean kernel + standard axioms, hand-written models, harness, generators, translator/gen_tags.py.",
    technique="Lean 4 proof over executable byte-level models + model/impl correspondence + spec oracle on impl output",
    design="DESIGN.md §6 C04")


def run(chk):
    wire_checks.run_property(chk, "C04", want_parse=False, want_build=True)


def replay(path):
    return wire_checks.replay("C04", path)
