"""C04 — see DESIGN.md §6 C04. Shares harness/wire_main.cpp and the Lean wire model with C01–C04."""
from checks import wire_checks

LEVEL = "proof"
MANIFEST = dict(
    text="Lean 4: every modelled public constructor establishes and every modelled API call preserves the class invariant (cached option sizes "
         "exact), getters form a last-write map, option containers obey search/add/remove laws, typed option codecs are inverse under explicit "
         "representability predicates (each excluded point executed on the real code: rejected, or recorded as a known finding with a machine-"
         "checked refutation). API histories run on the real classes and on the model; getters must agree after every step and the wire round "
         "trip must preserve the view. Wire half for whole packets: built_packet_reparse (any representable stack of the seven families, "
         "once serialized, is parsed back to the same classes and views). Oracle clauses on the implementation's own output: view preserved, "
         "serialize repeatable, typed getter returns the first value set for verbatim options, a typed getter never rejects what its own "
         "accepted setter encoded (getter-rejects-own-setter, read under every family's dump convention), and for 89 typed options "
         "(ICMPv6, TCP, IP, DHCP, DHCPv6, Dot11 management tagged options, PPPoE vendor tag) the typed getter of the live object AND of "
         "the re-parsed serialization returns exactly the representable argument that was set (typed-getter-returns-set-value; raw "
         "add/remove by option code un-tracks only that code for TCP/IP/DHCP/DHCPv6). Codec half: 104 of the 112 "
         "typed option codecs of libtins have a theorem decode (encode v) = v for ALL representable v (7 have no getter / are flag "
         "options, DHCPv6 authentication is correspondence-only); inventory with theorem names, Repr predicates, dump fields and "
         "oracle clauses: tools/CODEC-INVENTORY.md (tools/codec_inventory.py --check is run by this check).",
    note="The theorems are about hand-written, code-shaped Lean models of 53 entry classes in seven families (link layers, IPv4 + options / AH / ESP, "
         "IPv6 + extension headers, TCP + options / UDP, ICMP / ICMPv6 + extensions, DHCP / DHCPv6 / BootP / RTP / VXLAN / ARP / STP, 802.11 / "
         "RadioTap / EAPOL; list in the evidence: modelled_classes); the tie to the C++ is differential correspondence of every line under "
         "ASan/UBSan/LSan plus the Lean spec oracle evaluated on the implementation's own output; DNS as an entry class and the paths "
         "the model cannot express (host routing table in IP::prepare_for_serialize, EAPOL null result) get the implementation-side oracle "
         "only (evidence: unmodelled_lines). Trusted: Lean kernel + propext/Classical.choice/Quot.sound, the models, harness, generators, "
         "translator/gen_tags.py; allocator / lifetime behaviour is observed by the sanitizers, not proved.",
    technique="Lean 4 proof over executable byte-level models + model/impl correspondence + spec oracle on impl output",
    design="DESIGN.md §6 C04")
MANIFEST["note"] += (" Constants and limits of the C++ source that the model restates (translator/gen_limits.py -> Gen/Limits.lean: "
                     "compiled probe + preprocessed function bodies at named anchors) are tied to the model's numerals by the "
                     "theorems of lean/TinsModel/Props/Limits/Wire.lean (audit: Audit/LimitsWire.lean); tools/LIMITS-INVENTORY.md lists "
                     "what is tied and what is not.")


def run(chk):
    wire_checks.run_property(chk, "C04", want_parse=False, want_build=True)
    # the codec inventory: every theorem it names must exist and be audited; its summary goes into the evidence
    import subprocess, sys, os
    from vlib import core
    r = subprocess.run([sys.executable, os.path.join(core.VERIF, "tools", "codec_inventory.py"), "--check"],
                       capture_output=True, text=True)
    chk.cov["typed_codecs"] = r.stdout.strip().split("\n")[0][:400]
    chk.assumptions += ["typed codecs without an inverse theorem (compared with the real code on every run, judged by the oracle "
                        "clause getter-rejects-own-setter only): DHCPv6 authentication",
                        "the value clause typed-getter-returns-set-value restates the representability hypotheses of the inverse theorems "
                        "(Wire/Icmp/ThCodec6.lean, Transport/ThTcpApi.lean, Ip/ThIp4Api.lean, App/TheoremsCodec{,2}.lean, "
                        "Wire/Wifi/TheoremsCodec.lean, L2/ThPPPoEReparse.lean) on the argument words of the line protocol "
                        "(Driver/WireSpec.lean: typedExpect<Family>; the theorem files import Mathlib lemma modules, so the driver "
                        "cannot import the predicates); not under the value clause: DHCPv6 authentication (no theorem), EAPOL key "
                        "(whole-header reparse theorem), ICMPv6 / Dot11 / PPPoE layers after any raw add/remove (whole layer "
                        "un-tracked; TCP, IP, DHCP, DHCPv6 un-track per option code via the code table codeOf)"]
    if r.returncode != 0:
        chk.violation("codec inventory: " + r.stdout.strip()[-600:], ["# tools/codec_inventory.py --check"], nofail=True)


def replay(path):
    return wire_checks.replay("C04", path)
