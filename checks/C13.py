"""C13 — layer look-up and casts never hand back an object of the wrong type."""
import glob, os, random, re, sys, time
from concurrent.futures import ThreadPoolExecutor
from vlib import core, corr

sys.path.insert(0, os.path.join(core.VERIF, "translator"))
import gen_pdu_classes  # noqa: E402

AREA = "C13"
MODULES = ["TinsModel.Props.C13"]
AUDIT = "Audit/C13.lean"
LEVEL = "proof"
HARNESS = "c13_lookup"
# the harness file itself is compiled without the vptr check (a wrong static_cast in the inlined helpers is then
# *reported* through dynamic_cast instead of aborting at the first wrong pair); libtins stays fully sanitized
HARNESS_FLAGS = ["-fno-sanitize=vptr", "-O0"]
CASE_START = ("row", "pair", "chain", "ser", "counts")
MANIFEST = dict(
    text="Lean 4 theorems over a table (class, bases, pdu_flag, pdu_type(), matches_flag() body) regenerated from the "
         "clang AST of every header on each run, evaluated by a code-shaped model of find_pdu/rfind_pdu/tins_cast "
         "(name lookup, virtual vs qualified calls, member forwarding); table theorems by kernel evaluation over all "
         "(K,T) pairs, chain theorems by induction; tied to the code by an exhaustive differential run on real "
         "objects of every concrete class against dynamic_cast under ASan/UBSan, and by the same comparison on objects built by "
         "the (buffer, size) constructors from the wire generators' byte strings (each class on its own bytes and on those of "
         "its hierarchy's other classes: what a class reports may depend on the header it holds).",
    note="Trusted: Lean kernel + standard axioms; translator (clang-14 AST -> table), cross-checked row by row and "
         "pair by pair against the real objects; harness/c13_lookup.cpp. PDUCacher<X> violates the property by design "
         "(known finding, reproduced on every run).",
    technique="Lean 4 proof over a regenerated declaration table + exhaustive model/impl correspondence",
    design="DESIGN.md §6 C13")

INTERNAL_CHILD = ["TCP", "UDP", "ICMPv6"]          # cast their parent_pdu() in write_serialization
INTERNAL_OUTER = ["Loopback", "RadioTap"]          # cast their inner_pdu() in write_serialization


# ----------------------------------------------------------------------------- class relations (from the table)

class Classes:
    def __init__(self, g):
        self.rows = g["rows"]
        self.name = {r["idx"]: r["key"] for r in self.rows}
        self.concrete = [r["key"] for r in self.rows if not r["abstract"]]
        by = {r["idx"]: r for r in self.rows}

        def has_flag(i):
            return by[i]["flag"] is not None or any(has_flag(b) for b in by[i]["bases"])
        self.askable = [r["key"] for r in self.rows if has_flag(r["idx"])]
        self.anc = {}
        for r in self.rows:                        # rows are in topological order
            s = {r["key"]}
            for b in r["bases"]:
                s |= self.anc[self.name[b]]
            self.anc[r["key"]] = s
        self.desc = {k: set() for k in self.anc}
        for k, s in self.anc.items():
            for a in s:
                self.desc[a].add(k)
        self.wrapper_of = {self.name[r["wraps"]]: r["key"] for r in self.rows if r["wraps"] is not None}
        self.wraps = {r["key"]: self.name[r["wraps"]] for r in self.rows if r["wraps"] is not None}

    def related(self, k):
        """classes whose flag a look-up on k could plausibly be confused with"""
        base = self.wraps.get(k, k)
        out = set(self.anc[base]) | set(self.desc[base]) | {k}
        out |= {self.wrapper_of[x] for x in list(out) if x in self.wrapper_of}
        return [x for x in sorted(out) if x in self._ask]

    @property
    def _ask(self):
        if not hasattr(self, "_askset"):
            self._askset = set(self.askable)
        return self._askset


def regex_class_list(repo):
    """independent (regex, not AST) list of the plain classes derived from PDU, to cross-check the translator"""
    pat = re.compile(r"\b(?:class|struct)\s+(?:TINS_API\s+)?(\w+)\s*(?:final\s*)?:\s*(?:public\s+)?([\w:]+)")
    edges = {}
    for f in glob.glob(os.path.join(repo, "include", "tins", "**", "*.h"), recursive=True):
        src = re.sub(r"//[^\n]*|/\*.*?\*/", "", open(f, errors="replace").read(), flags=re.S)
        for m in pat.finditer(src):
            edges[m.group(1)] = m.group(2).split("::")[-1]
    derived, changed = {"PDU"}, True
    while changed:
        changed = False
        for k, b in edges.items():
            if b in derived and k not in derived:
                derived.add(k); changed = True
    return derived


# ----------------------------------------------------------------------------- generators

def gen_ops(cl, rng, tier):
    ops = ["counts"]
    ops += [f"row {k}" for k in sorted(set(cl.concrete) | set(cl.askable))]
    # exhaustive: every concrete K x every askable T  (this IS the quantifier of the property)
    for k in cl.concrete:
        for t in cl.askable:
            ops.append(f"pair {k} {t}")
    # chains
    def pick_t(chain):
        r = rng.random()
        if r < 0.55:
            return rng.choice(cl.related(rng.choice(chain)))
        return rng.choice(cl.askable)

    def chain(n):
        style = rng.random()
        if style < 0.5:
            return [rng.choice(cl.concrete) for _ in range(n)]
        # hierarchy-heavy: dot11 / eapol / bootp families and their wrappers, repeated classes
        fam = rng.choice(["Dot11", "EAPOL", "BootP", "Dot11Control", "Dot11ManagementFrame"])
        pool = [k for k in cl.concrete if fam in cl.anc[cl.wraps.get(k, k)]]
        return [rng.choice(pool) if rng.random() < 0.7 else rng.choice(cl.concrete) for _ in range(n)]

    nrand = 3000 if tier == "quick" else 120000
    for i in range(nrand):
        n = rng.choice([1, 2, 2, 3, 3, 4, 5, 6]) if i % 40 else rng.randint(7, 24)
        c = chain(n)
        ops.append(f"chain {','.join(c)} {pick_t(c)}")
    if tier == "thorough":
        # small-scope exhaustive: every ordered pair of layers x every related T (+ two random ones)
        for a in cl.concrete:
            for b in cl.concrete:
                ts = set(cl.related(a)) | set(cl.related(b))
                ts |= {rng.choice(cl.askable), rng.choice(cl.askable)}
                for t in sorted(ts):
                    ops.append(f"chain {a},{b} {t}")
    return ops


def gen_parsed_ops(cl, rng, tier):
    """objects built by the (buffer, size) constructors from the byte strings of the wire generators (C01-C04), each class
    on its own bytes AND on the bytes of the other classes of its hierarchy (an RSNEAPOL constructed on an RC4 key frame, a
    Dot11Beacon on a data frame ...): what pdu_type() / matches_flag() answer may depend on the header the object holds
    (seeded/C13b, seeded/C13e), which default-constructed objects do not show"""
    import importlib
    per = {}
    n = 300 if tier == "quick" else 3000
    for m in ("wire_gen_l2", "wire_gen_ip", "wire_gen_ip6", "wire_gen_transport", "wire_gen_icmp", "wire_gen_app", "wire_gen_wifi"):
        try:
            g = importlib.import_module("checks." + m)
            for op in g.gen_parse(random.Random(rng.randrange(2 ** 32)), n):
                w = op.split(" ")
                if len(w) == 3 and w[0] == "parse" and len(w[2]) <= 600:
                    per.setdefault(w[1].rstrip("*"), []).append(w[2])
        except Exception as e:                       # a generator that cannot run here only narrows this stream
            core.log(f"C13: {m}.gen_parse not usable for the parsed stream: {e!r}")
    plain = [k for k in cl.concrete if k not in cl.wraps]
    ops = []
    own = 6 if tier == "quick" else 60
    for k in plain:
        hs = per.get(k, [])
        for h in rng.sample(hs, min(len(hs), own)):
            ops.append(f"parsed {k} {h}")
        # the bytes of every other class that shares a (non-root) base with k
        rel = [t for t in plain if t != k and (set(cl.anc[k]) & set(cl.anc[t])) - {"PDU"}]
        for t in rel:
            hs2 = per.get(t, [])
            for h in rng.sample(hs2, min(len(hs2), 2 if tier == "quick" else 12)):
                ops.append(f"parsed {k} {h}")
        for h in rng.sample(per.get("Dot11", []), min(len(per.get("Dot11", [])), 4)) if "Dot11" in cl.anc[k] else []:
            ops.append(f"parsed {k} {h}")
    return ops


def gen_ser_ops(cl, rng, tier):
    """serializations that exercise the casts libtins performs on neighbouring layers"""
    ops = []
    for child in INTERNAL_CHILD:
        if child in cl.concrete:
            for k in cl.concrete:
                ops.append(f"ser {k},{child}")
    for outer in INTERNAL_OUTER:
        if outer in cl.concrete:
            for k in cl.concrete:
                ops.append(f"ser {outer},{k}")
    if tier == "thorough":
        for _ in range(3000):
            mid = rng.choice(INTERNAL_CHILD + INTERNAL_OUTER)
            c = [rng.choice(cl.concrete), mid, rng.choice(cl.concrete)]
            ops.append(f"ser {','.join(c)}")
    return ops


# ----------------------------------------------------------------------------- verdicts

def sig_of(kind, detail, op):
    w = op.split(" ")
    if kind == "spec":
        return {"kind": "spec", "clause": detail.split(" ")[1] if " " in detail else detail, "op": w[0]}
    if kind == "fault":
        names = w[1].split(",") if len(w) > 1 else []
        wrapper_next_to_user = any(
            (a.startswith("PDUCacher<") and b in INTERNAL_CHILD) or (a in INTERNAL_OUTER and b.startswith("PDUCacher<"))
            for a, b in zip(names, names[1:]))
        clause = "wrapper-forwarding-internal-cast" if ("downcast" in detail and wrapper_next_to_user) else \
            re.sub(r"ADDR.*", "", detail.split(" ", 1)[-1])[:80]
        return {"kind": "fault", "clause": clause, "op": w[0]}
    return {"kind": "diff", "op": w[0]}


TYPE_CONFUSION = ("downcast", "does_not_point_to_an_object", "vptr")


def problem_of(op, impl, mod, spec):
    if impl.startswith("FAULT") or " EXITFAULT " in impl:
        if op.startswith("ser ") and not any(t in impl for t in TYPE_CONFUSION):
            return None        # a crash that is not a wrong-type access belongs to another property (see unrelated_faults)
        return "fault", impl
    if spec is not None and spec.startswith("violates"):
        return "spec", spec
    if mod is not None and mod != impl and impl != "SKIP":
        return "diff", f"impl: {impl[:300]} | model: {mod[:300]}"
    return None


def shrink_chain(exe, op, kind, clause, model=True, oracle=True):
    """drop layers of a `chain`/`ser` op while the same kind of problem with the same clause persists"""
    w = op.split(" ")
    if w[0] not in ("chain", "ser"):
        return op
    names = w[1].split(",")
    changed = True
    while changed and len(names) > 1:
        changed = False
        for i in range(len(names)):
            cand = names[:i] + names[i + 1:]
            cop = " ".join([w[0], ",".join(cand)] + w[2:])
            impl, mod, spec, _ = corr.evaluate(AREA, exe, [cop], CASE_START, oracle=oracle, model=model)
            p = problem_of(cop, impl[0], mod[0] if mod else None, spec[0] if spec else None)
            if p and p[0] == kind and sig_of(p[0], p[1], cop).get("clause") == clause:
                names, changed = cand, True
                break
    return " ".join([w[0], ",".join(names)] + w[2:])


def judge(chk, exe, ops, impl, mod, spec, stats, model=True, oracle=True, max_per_sig=1):
    """group the problems by signature; report the smallest example of each signature"""
    groups = {}
    for i, op in enumerate(ops):
        p = problem_of(op, impl[i], mod[i] if mod else None, spec[i] if spec else None)
        if p is None:
            continue
        stats[p[0]] = stats.get(p[0], 0) + 1
        sig = sig_of(p[0], p[1], op)
        key = tuple(sorted(sig.items()))
        groups.setdefault(key, []).append((len(op), i, p))
    concrete = any(dict(k)["kind"] != "diff" for k in groups)
    for key, items in sorted(groups.items()):
        sig = dict(key)
        if sig["kind"] == "diff" and concrete:
            # a bare model/implementation difference is reported only when the run found no failing input
            chk.extra.setdefault("suppressed_diffs", 0)
            chk.extra["suppressed_diffs"] += len(items)
            continue
        chk.extra.setdefault("problem_counts", {})["/".join(f"{a}={b}" for a, b in key)] = len(items)
        for _, i, p in sorted(items)[:max_per_sig]:
            op = shrink_chain(exe, ops[i], p[0], sig.get("clause"), model=model, oracle=oracle)
            si, sm, ss, _ = corr.evaluate(AREA, exe, [op], CASE_START, oracle=oracle, model=model)
            sp = problem_of(op, si[0], sm[0] if sm else None, ss[0] if ss else None) or p
            what = {"fault": "implementation memory/UB fault", "spec": "implementation violates the spec oracle",
                    "diff": "model/implementation correspondence differs"}[sp[0]] + f" [{AREA}]: {op} -> {sp[1][:400]}"
            lines = [op, "# impl:  " + si[0]] + (["# model: " + sm[0]] if sm else []) + (["# spec:  " + ss[0]] if ss else [])
            chk.violation(what, lines, nofail=(sp[0] == "diff"), signature=sig_of(sp[0], sp[1], op))


def nontrivial(op, impl):
    return ("find=1" in impl or "cast=1" in impl or ("chain find=" in impl and "find=none" not in impl)
            or (impl.startswith("row") and "," in impl))


def run(chk):
    t0 = time.time()
    pool = ThreadPoolExecutor(2)
    f_impl = pool.submit(core.build_impl, "asan")       # the sanitizer build does not depend on the generated files
    # 1. translator: regenerate the table from the current headers (before the theorems are re-checked)
    try:
        g = gen_pdu_classes.main(core.REPO, core.VERIF)
    except Exception as e:
        chk.violation(f"translator cannot read the class declarations: {e!r}"[:1500], ["translator-error", repr(e)[:3000]],
                      nofail=True)
        return
    cl = Classes(g)
    chk.extra["generated_changed"] = g.get("changed", [])
    chk.extra["table"] = {"classes": len(g["rows"]), "concrete": len(cl.concrete), "askable": len(cl.askable),
                          "wrapper_instantiations": len(cl.wraps), "enumerators": len(g["enum"]),
                          "unparsed_rows": sum(1 for r in g["rows"] for f in ("flag", "type", "match")
                                               if r[f] and "unparsed" in r[f])}
    plain = {r["key"] for r in g["rows"] if not r["wrapper"]}
    rx = regex_class_list(core.REPO)
    if cl.wraps:
        rx.discard(gen_pdu_classes.WRAPPER)      # the template is represented by its instantiations
    if rx != plain:
        chk.violation("translator table and a textual scan of the headers disagree on the set of PDU classes: "
                      f"only in AST table {sorted(plain - rx)}, only in text scan {sorted(rx - plain)}",
                      ["class-list-mismatch"], nofail=True)
    # the harness needs the regenerated class list; it compiles while the theorems are re-checked
    f_harness = pool.submit(lambda: (f_impl.result(), core.build_harness(HARNESS, extra=HARNESS_FLAGS))[1])
    # 2. theorems
    problems = chk.prove(MODULES, AUDIT, want_leanchecker=(chk.tier == "thorough"))
    if problems:
        core.lake_build(["tinsdriver"])           # the model must follow the regenerated table even if a theorem broke
    t_prove = time.time() - t0
    # 3. implementation + harness
    exe, err = f_harness.result()
    if exe is None:
        chk.violation("implementation / harness does not build: " + err[-1500:], ["build-error", err[-3000:]], nofail=True)
        return
    rng = random.Random(chk.seed)
    stats = {}
    # 4. three-way comparison: exhaustive pairs, rows, chains
    ops = gen_ops(cl, rng, chk.tier)
    impl, mod, spec, faults = corr.evaluate(AREA, exe, ops, CASE_START)
    judge(chk, exe, ops, impl, mod, spec, stats)
    dist = chk.extra.setdefault("input_distribution", {})
    seen = set()
    for o, a in zip(ops, impl):
        chk.cov["evaluations"] += 1
        tag = o.split(" ", 1)[0]
        if tag == "chain":
            tag += ":len" + str(min(o.split(" ")[1].count(",") + 1, 7)) + ("+" if o.split(" ")[1].count(",") >= 6 else "")
            tag += ":hit" if "find=none" not in a else ":miss"
        elif tag == "pair":
            tag += ":hit" if ("find=1" in a or "cast=1" in a) else ":miss"
        dist[tag] = dist.get(tag, 0) + 1
        if nontrivial(o, a):
            seen.add((o, a))
    chk.cov["samples"] += [{"op": o, "impl": a} for o, a in list(zip(ops, impl))[200:12000:3000]]
    # 4b. parsed objects (no model: the table is about classes, not header states; the oracle judges the implementation)
    pops = gen_parsed_ops(cl, rng, chk.tier)
    pimpl, _, pspec, _ = corr.evaluate(AREA, exe, pops, CASE_START, model=False)
    judge(chk, exe, pops, pimpl, None, pspec, stats, model=False)
    for o, a in zip(pops, pimpl):
        chk.cov["evaluations"] += 1
        tag = "parsed:" + ("throw" if "throw" in a else "noctor" if "noctor" in a else "ok" if a.startswith("parsed ok") else "fault")
        dist[tag] = dist.get(tag, 0) + 1
        if a.startswith("parsed ok"):
            seen.add((o, a))
    # 5. the casts libtins itself relies on, on the real (fully sanitized) library
    sops = gen_ser_ops(cl, rng, chk.tier)
    simpl, sfaults = core.run_harness_lines(exe, (), sops, CASE_START)
    judge(chk, exe, sops, simpl, None, None, stats, model=False, oracle=False)
    for o, a in zip(sops, simpl):
        chk.cov["evaluations"] += 1
        tag = "ser:" + ("fault" if a.startswith("FAULT") else "throw" if a.startswith("throw") else "ok")
        dist[tag] = dist.get(tag, 0) + 1
    chk.cov["distinct_nontrivial"] = len(seen)
    chk.cov["traces_validated_against_impl"] = len(ops) + len(sops)
    # 6. a theorem / audit problem without a concrete failing input found by the exhaustive run above
    unrelated = sorted({f"{o} -> {a[:160]}" for o, a in zip(sops, simpl)
                        if a.startswith("FAULT") and not any(t in a for t in TYPE_CONFUSION)})
    if unrelated:
        chk.extra["unrelated_faults"] = unrelated[:20]
        core.log(f"{len(unrelated)} serialization fault(s) that are not wrong-type accesses (other properties): {unrelated[:3]}")
    # observation only (the property is an 'only if'): objects that are a T but are not found as a T
    chk.extra["incomplete_lookups"] = sorted(
        f"{o.split(' ')[1]} as {o.split(' ')[2]}" for o, a in zip(ops, impl)
        if o.startswith("pair ") and "PDUCacher<" not in o and " dyn=1" in a and "find=0" in a)[:40]
    for p in problems:
        if not any(not nofail for (_, _, nofail) in chk.violations):
            chk.violation("proof obligation no longer checks: " + p[:1500], ["theorem-or-audit-failure", p[:4000]], nofail=True)
    chk.cov["rule"] = ("evaluations = operation lines executed on real objects (row: one object per class; pair: every "
                       "concrete K x every askable T, exhaustive; chain: random and small-scope exhaustive chains; ser: "
                       "serializations through the library's own casts); distinct_nontrivial = distinct (op, result) "
                       "with a successful look-up")
    chk.assumptions += [
        "every class is exercised through one default-built object (look-up behaviour depends only on the dynamic class)",
        "PDUCacher is instantiated once per concrete class (no nested PDUCacher<PDUCacher<X>>)",
        "callers pass the default flag argument T::pdu_flag to find_pdu/rfind_pdu",
        "classes with more than one base class are outside the model (none exist; such a row is emitted as unparsed)",
    ]
    chk.trusted += ["translator/gen_pdu_classes.py (clang-14 JSON AST -> table); cross-checked per row (flag, pdu_type, accepted "
                    "flags) and per pair (dynamic_cast vs generated bases) against real objects, and against a textual class scan",
                    "harness/c13_lookup.cpp + generators in checks/C13.py",
                    "g++ 12 / ASan+UBSan(vptr) build of the repo's working tree; dynamic_cast/typeid as ground truth for 'is a T'"]
    chk.extra["timing_s"] = {"translate+prove": round(t_prove, 1), "total": round(time.time() - t0, 1)}
    chk.extra["modelled_not_proved"] = [
        "const overloads of find_pdu/rfind_pdu (compared in the harness as cfind=)",
        "pointer identity of the returned layer (ptr=same / chain index), compared in the harness",
        "incompleteness (an object that is a T but is not found: DHCP as BootP, RC4EAPOL/RSNEAPOL as EAPOL, "
        "Dot11ControlTA descendants as Dot11ControlTA) is outside the property and only reported here",
    ]
    corr.finalize_cov(chk)


def replay(path):
    exe, err = core.build_harness(HARNESS, extra=HARNESS_FLAGS)
    if exe is None:
        print(err[-2000:]); return 2
    ops = [l.rstrip("\n") for l in open(path) if not l.startswith("#") and l.strip()]
    bad = False
    for op in ops:
        if op.startswith("ser "):
            impl, _ = core.run_harness_lines(exe, (), [op], CASE_START)
            mod, spec = [None], [None]
        else:
            impl, mod, spec, _ = corr.evaluate(AREA, exe, [op], CASE_START)
        print(op[:300]); print("  impl :", impl[0][:400])
        if mod[0] is not None:
            print("  model:", mod[0][:400]); print("  spec :", spec[0])
        if problem_of(op, impl[0], mod[0], spec[0]):
            bad = True
    if bad:
        print(f"VIOLATION property=C13 replay={path}")
        return 1
    return 0
