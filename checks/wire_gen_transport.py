"""Structured generators of the Transport family (UDP, TCP with options).

gen_parse: packets built byte by byte here (independently of libtins) + targeted mutants (option length octets, data
           offset, END/NOP placement, every option kind, truncation at every byte, option straddling the header end).
gen_build: API programs (new / push / set / show) with TCP / UDP as the outermost layer over a RawPDU (and inside IP / IPv6
           as soon as the model of those classes accepts `push IP` / `push IPv6`): scalar setters, flag accessors, typed
           options, raw add/remove histories crossing the 8-byte small-buffer threshold of PDUOption and the 40-byte
           limit of the option area.
"""
import re, sys

LEN_OCTETS = [0, 1, 2, 3, 4, 5, 6, 7, 8, 9, 10, 11, 12, 18, 34, 38, 39, 40, 41, 42, 127, 128, 253, 254, 255]
DATA_LENS = [0, 1, 2, 3, 4, 6, 7, 8, 9, 10, 16, 17, 30, 36, 37, 38]
PAYLOAD_LENS = [0, 0, 1, 2, 3, 4, 7, 8, 9, 20, 40, 41]
FLAG_MASKS = [1, 2, 4, 8, 16, 32, 64, 128]


def hexs(b):
    return bytes(b).hex() if b else "-"


def rb(rng, n):
    return bytes(rng.randrange(256) for _ in range(n))


def be16(v):
    return bytes([(v >> 8) & 255, v & 255])


def be32(v):
    return bytes([(v >> 24) & 255, (v >> 16) & 255, (v >> 8) & 255, v & 255])


def running_property():
    for a in sys.argv[1:]:
        if re.fullmatch(r"C0[1-4]", a):
            return a
    return None


# ------------------------------------------------------------------------------------------------ byte-level builders

def u16(rng):
    return rng.choice([0, 1, 80, 443, 0x7fff, 0x8000, 0xffff, rng.randrange(65536)])


def u32(rng):
    return rng.choice([0, 1, 0x7fffffff, 0x80000000, 0xffffffff, 0xfffffff0, rng.randrange(1 << 32)])


def tcp_opt(rng, room):
    """one well-formed option of at most `room` bytes (None if nothing fits)"""
    cands = []
    if room >= 1:
        cands.append(bytes([1]))
    if room >= 4:
        cands.append(bytes([2, 4]) + be16(u16(rng)))
    if room >= 3:
        cands.append(bytes([3, 3, rng.choice([0, 7, 14, 15, 255, rng.randrange(256)])]))
        cands.append(bytes([14, 3, rng.choice([0, 1, 2, 3, 255])]))
    if room >= 2:
        cands.append(bytes([4, 2]))
        cands.append(bytes([rng.choice([34, 28, 30, 253, 254, 6, 7, 255, 15, rng.randrange(2, 256)]), 2]))
    for k in (1, 2, 3, 4):
        if room >= 2 + 8 * k:
            cands.append(bytes([5, 2 + 8 * k]) + b"".join(be32(u32(rng)) for _ in range(2 * k)))
    if room >= 6:
        cands.append(bytes([5, 6]) + be32(u32(rng)))          # odd number of edges: still a multiple of 4
    if room >= 10:
        cands.append(bytes([8, 10]) + be32(u32(rng)) + be32(u32(rng)))
    for n in DATA_LENS:
        if room >= 2 + n:
            cands.append(bytes([rng.choice([34, 253, 254, 9, 19, 29, 30, rng.randrange(2, 256)]), 2 + n]) + rb(rng, n))
    # typed kinds with a size their decoder rejects
    if room >= 5:
        cands.append(bytes([2, 5]) + rb(rng, 3))
        cands.append(bytes([5, 5]) + rb(rng, 3))
        cands.append(bytes([8, 5]) + rb(rng, 3))
    if room >= 2:
        cands.append(bytes([rng.choice([2, 3, 5, 8, 14]), 2]))
    return rng.choice(cands) if cands else None


def tcp_options(rng, budget=None):
    budget = rng.choice([0, 0, 4, 8, 12, 20, 24, 36, 40]) if budget is None else budget
    out, used = [], 0
    while used < budget:
        o = tcp_opt(rng, budget - used)
        if o is None or (out and rng.random() < 0.15):
            break
        out.append(o)
        used += len(o)
    return out


def pad_options(rng, ob):
    """pad an option area to a multiple of 4 the way senders do: NOPs, or END followed by zeros / garbage"""
    r = (-len(ob)) % 4
    if r == 0:
        return ob
    k = rng.random()
    if k < 0.4:
        return ob + bytes([1]) * r
    if k < 0.8:
        return ob + bytes(r)
    return ob + bytes([0]) + rb(rng, r - 1)


def tcp_header(rng, doff, flags12=None):
    flags12 = rng.choice([0x002, 0x012, 0x010, 0x018, 0x011, 0x004, 0x0c2, 0x1ff, 0xfff, 0, rng.randrange(4096)]) if flags12 is None else flags12
    return (be16(u16(rng)) + be16(u16(rng)) + be32(u32(rng)) + be32(u32(rng)) +
            bytes([((doff & 15) << 4) | (flags12 >> 8), flags12 & 255]) + be16(u16(rng)) + be16(u16(rng)) + be16(u16(rng)))


def tcp_packet(rng, opt_area=None, payload=None, doff=None):
    if opt_area is None:
        opt_area = pad_options(rng, b"".join(tcp_options(rng)))
    if payload is None:
        payload = rb(rng, rng.choice(PAYLOAD_LENS))
    if doff is None:
        doff = (20 + len(opt_area)) // 4
    return tcp_header(rng, doff) + opt_area + payload


def udp_packet(rng, payload=None, length=None):
    payload = rb(rng, rng.choice(PAYLOAD_LENS)) if payload is None else payload
    length = 8 + len(payload) if length is None else length
    return be16(u16(rng)) + be16(u16(rng)) + be16(length & 0xffff) + be16(u16(rng)) + payload


def ipv4(rng, proto, inner, ihl_opts=b""):
    hl = 20 + len(ihl_opts)
    return (bytes([0x40 | (hl // 4), rng.choice([0, 0x10])]) + be16(hl + len(inner)) + be16(rng.randrange(65536)) + be16(0x4000) +
            bytes([rng.choice([1, 64, 255]), proto]) + be16(0) + rb(rng, 4) + rb(rng, 4) + ihl_opts + inner)


def ipv6(rng, nh, inner):
    return bytes([0x60, 0, 0, 0]) + be16(len(inner)) + bytes([nh, 64]) + rb(rng, 16) + rb(rng, 16) + inner


def eth(rng, ethertype, inner):
    return rb(rng, 6) + rb(rng, 6) + be16(ethertype) + inner


# ------------------------------------------------------------------------------------------------ parse stream

def gen_parse(rng, n):
    ops = []

    def tcp(b):
        ops.append(f"parse TCP {hexs(b)}")

    # --- deterministic boundary sets (small, always present) ---
    # every option kind with a 2-byte (data-less) option, alone and followed by a payload byte
    for kind in range(256):
        tcp(tcp_header(rng, 6) + bytes([kind, 2, 1, 1]) + (b"\x99" if kind % 2 else b""))
    # every length octet value of an unknown option in a 60-byte header
    for ln in range(0, 44):
        tcp(tcp_header(rng, 15) + bytes([253, ln]) + bytes([1]) * 38 + b"\xaa\xbb")
    for ln in (127, 128, 200, 253, 254, 255):
        tcp(tcp_header(rng, 15) + bytes([253, ln]) + bytes(38) + rb(rng, 260))
    # an option whose data ends exactly at / one before / one after the header end
    for dl in range(0, 7):
        for doff in (6, 7):
            tcp(tcp_header(rng, doff) + bytes([1, 1, 30, 2 + dl]) + rb(rng, dl) + rb(rng, 6))
    # the buffer ends exactly at the header end and the last option claims 1..3 bytes more (a read past the buffer if
    # the bound check is off by one), with and without preceding data
    for extra in (1, 2, 3, 8):
        tcp(tcp_header(rng, 6) + bytes([1, 1, 30, 2 + extra]))
        tcp(tcp_header(rng, 7) + bytes([30, 6 + extra]) + rb(rng, 4) + bytes([1, 1]))
        tcp(tcp_header(rng, 7) + bytes([1, 1, 30, 4 + extra]) + rb(rng, 4))
        tcp(tcp_header(rng, 15) + bytes([253, 40 + extra]) + rb(rng, 38))
    # option kind in the last header byte: the length octet is read from the payload (or from nothing)
    for tail in (b"", b"\x02", b"\x03\x00", b"\x00", b"\xff" * 3):
        tcp(tcp_header(rng, 6) + bytes([1, 1, 1, 34]) + tail)
    # every data offset on a 60-byte buffer with a valid option area, and on a short buffer
    area = bytes([2, 4, 5, 0xb4, 1, 3, 3, 7, 4, 2, 8, 10]) + be32(1) + be32(2) + bytes([1, 1]) + bytes([1]) * 16
    for doff in range(16):
        tcp(tcp_header(rng, doff) + area)
        tcp(tcp_header(rng, doff) + area[:4])
        tcp(tcp_header(rng, doff))
    # END at every position of the option area, garbage after it
    for pos in range(0, 13):
        a = bytearray(bytes([1]) * pos + bytes([0]) + rb(rng, 12 - pos))
        tcp(tcp_header(rng, 8) + bytes(a[:12]) + rb(rng, 3))
    # truncation of one rich packet at every byte
    rich = tcp_header(rng, 11) + bytes([2, 4, 5, 0xb4, 4, 2, 8, 10]) + be32(0xdeadbeef) + be32(7) + bytes([1, 3, 3, 9, 34, 2, 1, 1]) + b"\x01\x02\x03"
    for i in range(len(rich) + 1):
        tcp(rich[:i])
    # the option layouts real stacks emit (RFC 7323 appendix A and the usual SYN / SACK forms) under EVERY data offset from
    # 5 up to the one the layout needs, with the buffer ending exactly at the declared header end, at the end of the layout,
    # and with payload behind it: a declared header that ends inside a recognisable layout (seeded/C01d: a fast path keyed
    # on `01 01 08 0a` that trusts the layout instead of the data offset)
    ts = bytes([8, 10]) + be32(u32(rng)) + be32(u32(rng))
    sack1 = bytes([5, 10]) + be32(u32(rng)) + be32(u32(rng))
    layouts = [bytes([1, 1]) + ts,
               bytes([2, 4, 5, 0xb4, 4, 2]) + ts + bytes([1, 3, 3, 7]),
               bytes([2, 4, 5, 0xb4, 1, 3, 3, 8, 1, 1, 4, 2]),
               bytes([1, 1]) + sack1,
               bytes([1, 1]) + ts + bytes([1, 1]) + sack1,
               bytes([1, 1]) + ts + bytes([1, 1, 5, 18]) + rb(rng, 16),
               ts + bytes([1, 1]),
               bytes([2, 4, 5, 0xb4]), bytes([3, 3, 7, 1]), bytes([1, 1, 4, 2]), bytes([14, 3, 1, 0])]
    for L in layouts:
        need = (20 + len(L) + 3) // 4
        Lp = L + bytes([1]) * ((-len(L)) % 4)
        for doff in range(5, need + 1):
            h = tcp_header(rng, doff)
            tcp((h + Lp)[:4 * doff])                      # buffer ends at the declared header end
            tcp(h + Lp)                                    # the whole layout is there, the header says less
            tcp(h + Lp + rb(rng, 9))
            if doff < need:
                tcp((h + Lp)[:4 * doff + 2])
    # UDP boundaries
    for ln in (0, 7, 8, 9, 65535):
        ops.append(f"parse UDP {hexs(udp_packet(rng, length=ln))}")
    for i in range(0, 10):
        ops.append(f"parse UDP {hexs(udp_packet(rng, payload=b'xy')[:i])}")

    # --- random structured stream ---
    while len(ops) < n:
        k = rng.random()
        if k < 0.30:                                       # valid packets
            tcp(tcp_packet(rng))
        elif k < 0.42:                                     # one length octet replaced by a boundary value
            opts = tcp_options(rng, rng.choice([8, 12, 20, 36, 40]))
            cand = [i for i, o in enumerate(opts) if len(o) >= 2]
            if cand:
                i = rng.choice(cand)
                o = bytearray(opts[i]); o[1] = rng.choice(LEN_OCTETS); opts[i] = bytes(o)
            tcp(tcp_packet(rng, opt_area=pad_options(rng, b"".join(opts))))
        elif k < 0.52:                                     # data offset off by one / arbitrary
            area = pad_options(rng, b"".join(tcp_options(rng)))
            true = (20 + len(area)) // 4
            tcp(tcp_packet(rng, opt_area=area, doff=rng.choice([true - 1, true + 1, 0, 4, 5, 15, rng.randrange(16)]) & 15))
        elif k < 0.58:                                     # unpadded / misaligned option area under a larger data offset
            area = b"".join(tcp_options(rng, rng.choice([3, 5, 6, 7, 9, 11, 13])))
            tcp(tcp_packet(rng, opt_area=area + rb(rng, (-len(area)) % 4)))
        elif k < 0.64:                                     # random bytes as option area
            tcp(tcp_packet(rng, opt_area=rb(rng, 4 * rng.randrange(0, 11))))
        elif k < 0.70:                                     # truncated valid packet
            b = tcp_packet(rng)
            tcp(b[:rng.randrange(len(b) + 1)])
        elif k < 0.80:                                     # chains (IP / IPv6 / EthernetII above TCP and UDP)
            inner = tcp_packet(rng) if rng.random() < 0.7 else udp_packet(rng)
            proto = 6 if len(inner) >= 20 and (inner[12] >> 4) >= 5 and rng.random() < 0.95 else (6 if rng.random() < 0.5 else 17)
            if len(inner) < 20 or rng.random() < 0.3:
                inner = udp_packet(rng); proto = 17
            c = rng.random()
            if c < 0.3:
                ops.append(f"parse IP {hexs(ipv4(rng, proto, inner))}")
            elif c < 0.5:
                ops.append(f"parse IPv6 {hexs(ipv6(rng, proto, inner))}")
            elif c < 0.8:
                ops.append(f"parse EthernetII {hexs(eth(rng, 0x0800, ipv4(rng, proto, inner)))}")
            else:
                ops.append(f"parse EthernetII {hexs(eth(rng, 0x86dd, ipv6(rng, proto, inner)))}")
        elif k < 0.88:                                     # many small options (up to 40 NOP / data-less options)
            cnt = rng.choice([1, 4, 20, 39, 40])
            area = b"".join(rng.choice([bytes([1]), bytes([1]), bytes([rng.randrange(2, 256), 2])]) for _ in range(cnt))[:40]
            tcp(tcp_packet(rng, opt_area=pad_options(rng, area)))
        else:
            ops.append(f"parse UDP {hexs(udp_packet(rng, length=rng.choice([None, 0, 8, 65535, rng.randrange(65536)])))}")
    return ops


# ------------------------------------------------------------------------------------------------ API programs

_api_cache = {}


def api_modelled(cls):
    """does the Lean model accept `push <cls>` (default constructor)?  IP / IPv6 belong to other families."""
    if cls not in _api_cache:
        try:
            from vlib import core
            out = core.run_driver("model", "C04", f"new\npush {cls}\n")
            _api_cache[cls] = len(out) >= 2 and out[1] == "ok"
        except Exception:
            _api_cache[cls] = False
    return _api_cache[cls]


def opt_cost(kind, nbytes):
    return 1 if kind <= 1 else 2 + nbytes


class TcpProg:
    """one API program with a TCP layer at index `i`; tracks the option list the way the wire will see it"""

    def __init__(self, rng, parent=None):
        self.rng = rng
        self.ops = ["new"]
        self.i = 0
        if parent:
            self.ops.append(f"push {parent}")
            self.i = 1
        self.ops.append(rng.choice(["push TCP", f"push TCP {u16(rng)} {u16(rng)}"]))
        self.opts = []          # (kind, data length)

    def used(self):
        return sum(opt_cost(k, n) for k, n in self.opts)

    def set(self, *a):
        self.ops.append(f"set {self.i} " + " ".join(str(x) for x in a))

    def add_raw(self, kind, n, copy=False):
        self.set("add_option_copy" if copy else "add_option", kind, hexs(rb(self.rng, n)))
        self.opts.append((kind, n))

    def remove(self, kind):
        self.set("remove_option", kind)
        for j, (k, _) in enumerate(self.opts):
            if k == kind:
                del self.opts[j]
                break

    def typed(self, room):
        rng = self.rng
        c = []
        if room >= 4: c.append(("mss", 2, 2, [u16(rng)]))
        if room >= 3: c.append(("winscale", 3, 1, [rng.choice([0, 7, 14, 255, rng.randrange(256)])]))
        if room >= 2: c.append(("sack_permitted", 4, 0, []))
        if room >= 10: c.append(("timestamp", 8, 8, [u32(rng), u32(rng)]))
        if room >= 3: c.append(("altchecksum", 14, 1, [rng.choice([0, 1, 2, 3, 255])]))
        for k in range(0, 10):
            if room >= 2 + 4 * k:
                c.append(("sack", 5, 4 * k, [".".join(str(u32(rng)) for _ in range(k)) or "-"]))
        if not c:
            return False
        name, kind, n, args = rng.choice(c)
        self.set(name, *args)
        self.opts.append((kind, n))
        return True

    def scalars(self, count):
        rng = self.rng
        for _ in range(count):
            k = rng.randrange(10)
            if k == 0: self.set("sport", u16(rng))
            elif k == 1: self.set("dport", u16(rng))
            elif k == 2: self.set("seq", u32(rng))
            elif k == 3: self.set("ack_seq", u32(rng))
            elif k == 4: self.set("window", u16(rng))
            elif k == 5: self.set("urg_ptr", u16(rng))
            elif k == 6: self.set("data_offset", rng.randrange(16))
            elif k == 7: self.set("flags", rng.choice([0, 2, 0x12, 0x10, 0x18, 0xff, 0x100, 0xf00, 0xfff, rng.randrange(4096)]))
            else: self.set("set_flag", rng.choice(FLAG_MASKS + [rng.choice([0, 3, 5, 96, 255])]), rng.randrange(2))

    def finish(self, payload=True):
        rng = self.rng
        if payload and rng.random() < 0.8:
            self.ops.append(f"push RawPDU {hexs(rb(rng, rng.choice(PAYLOAD_LENS)))}")
        self.ops.append("show")
        return self.ops


def canonical_program(rng, parent=None):
    p = TcpProg(rng, parent)
    p.scalars(rng.randrange(0, 5))
    budget = rng.choice([0, 4, 8, 12, 20, 30, 38, 39, 40])
    steps = rng.randrange(0, 9)
    for _ in range(steps):
        room = budget - p.used()
        k = rng.random()
        if k < 0.45:
            p.typed(room)
        elif k < 0.8:
            fits = [n for n in DATA_LENS if 2 + n <= room]
            if fits:
                p.add_raw(rng.choice([34, 253, 254, 30, 28, 19, 255, 15, rng.randrange(2, 256)]), rng.choice(fits), copy=rng.random() < 0.3)
        elif k < 0.9:
            if room >= 1:
                p.add_raw(1, 0)
        elif p.opts:
            p.remove(rng.choice(p.opts)[0] if rng.random() < 0.8 else rng.randrange(256))
        if rng.random() < 0.15:
            p.ops.append("show")
    if rng.random() < 0.3:
        p.scalars(rng.randrange(1, 3))
    return p.finish()


def threshold_program(rng):
    """add / show / remove / add histories around the 8-byte small buffer of PDUOption and the 40-byte option area"""
    p = TcpProg(rng)
    kind = rng.choice([34, 253, 9, 77])
    for n in rng.choice([[7, 8, 9], [8, 9, 8], [9, 7, 16], [0, 9, 0], [38], [37, 0], [36, 1], [9, 9, 9, 3]]):
        if p.used() + 2 + n > 40:
            p.remove(p.opts[0][0])
        p.add_raw(kind, n, copy=rng.random() < 0.5)
        p.ops.append("show")
        if rng.random() < 0.5:
            p.remove(kind)
            p.ops.append("show")
        kind = rng.choice([kind, kind + 1 if kind < 255 else 2])      # stays a real kind (2..255): 256 would wrap to END
    return p.finish()


def noncanonical_program(rng):
    """option shapes the wire cannot give back (spoofed length fields, END / NOP with data, END in the middle): only
    C02 (size accounting, no overwrite) has something to say about them"""
    p = TcpProg(rng)
    for _ in range(rng.randrange(1, 5)):
        room = 40 - p.used()
        k = rng.randrange(5)
        if k == 0 and room >= 10:
            n = rng.choice([0, 1, 3, 8])
            p.set("add_option_len", rng.randrange(2, 256), rng.choice([0, 1, 2, n + 1, n + 2, 253, 254, 255, 256, 65535]), hexs(rb(rng, n)))
            p.opts.append((2, n))
        elif k == 1 and room >= 2:
            p.set("add_option_nodata", rng.randrange(2, 256), rng.choice([0, 1, 2, 4, 254, 255, 256, 65535]))
            p.opts.append((2, 0))
        elif k == 2 and room >= 1:
            p.set("add_option", rng.choice([0, 1]), hexs(rb(rng, rng.choice([1, 2, 8, 9]))))
            p.opts.append((1, 0))
        elif k == 3 and room >= 1:
            p.set("add_option_nodata", rng.choice([0, 1]), rng.choice([0, 1, 7]))
            p.opts.append((1, 0))
        elif room >= 4:
            p.typed(room)
    return p.finish()


def removal_programs(rng):
    """every kind of option present is removed in turn (show after each removal), for option mixes whose length sits at
    every residue mod 4: a size bookkeeping that treats the single-byte options NOP / END like the others on removal,
    or forgets the length octet of a data-less one, changes the padded header size only for some residues"""
    out = []
    mixes = [["noop", "noop", "mss"], ["noop", "noop", "timestamp"], ["noop", "mss"], ["noop", "winscale"],
             ["noop", "noop", "noop", "sack_permitted"], ["mss", "sack_permitted", "timestamp", "noop", "winscale"],
             ["noop", "raw0"], ["raw0", "noop", "noop"], ["raw9", "noop", "mss"], ["noop", "raw9", "raw9"]]
    for mix in [rng.choice(mixes) for _ in range(3)] + [mixes[rng.randrange(len(mixes))]]:
        p = TcpProg(rng)
        for m in mix:
            if m == "noop": p.add_raw(1, 0)
            elif m == "mss": p.set("mss", u16(rng)); p.opts.append((2, 2))
            elif m == "winscale": p.set("winscale", rng.randrange(15)); p.opts.append((3, 1))
            elif m == "sack_permitted": p.set("sack_permitted"); p.opts.append((4, 0))
            elif m == "timestamp": p.set("timestamp", u32(rng), u32(rng)); p.opts.append((8, 8))
            elif m == "raw0": p.add_raw(34, 0)
            elif m == "raw9": p.add_raw(rng.choice([253, 254]), 9)
        p.ops.append(f"push RawPDU {hexs(rb(rng, rng.choice([1, 4, 5, 20])))}")
        p.ops.append("show")
        order = [k for k, _ in p.opts]
        rng.shuffle(order)
        for k in order[:rng.randrange(1, len(order) + 1)]:
            p.remove(k)
            p.ops.append("show")
        out += p.ops
    return out


def over40_programs(rng):
    """the option area is limited to 40 bytes by the 4-bit data offset: known finding KF-C02-WTcp-1 (reproduced on every run)"""
    out = []
    p = TcpProg(rng); p.add_raw(253, 39); out += p.finish()
    p = TcpProg(rng); p.set("timestamp", 1, 2); p.set("sack", ".".join(str(u32(rng)) for _ in range(8))); out += p.finish()
    p = TcpProg(rng)
    for _ in range(41):
        p.add_raw(1, 0)
    out += p.finish()
    p = TcpProg(rng); p.set("sack", ".".join(str(i) for i in range(rng.choice([10, 63])))); out += p.finish()
    return out


def fixed_programs(rng, pid):
    ops = []
    # DESIGN §7 #10 (fixed): a data-less option of a kind other than SACK_OK, with and without payload
    ops += ["new", "push TCP 80 1234", "set 0 add_option 34 -", "push RawPDU aabbccdd", "show"]
    ops += ["new", "push TCP 80 1234", "set 0 add_option 34 -", "show"]
    # exactly 40 bytes of options
    ops += ["new", "push TCP", "set 0 add_option 253 " + "ab" * 38, "push RawPDU 01", "show"]
    ops += ["new", "push TCP", "set 0 timestamp 4294967295 0", "set 0 sack 1.2.3.4.5.6", "set 0 mss 1460", "show"]
    # every flag mask, set and cleared again
    for m in FLAG_MASKS:
        ops += ["new", "push TCP", f"set 0 flags {rng.randrange(4096)}", f"set 0 set_flag {m} 1", "show", f"set 0 set_flag {m} 0", "show"]
    # sack: no edges (fixed: indexed an empty vector); 64 / 65 edges (fixed: the length was cut to 8 bits and edges were
    # dropped silently; now 258 / 262 option bytes that serialize() refuses); 16384 edges: option_payload_too_large
    ops += ["new", "push TCP", "set 0 sack -", "show"]
    ops += ["new", "push TCP", "set 0 sack " + ".".join(str(100 + i) for i in range(64)), "show"]
    ops += ["new", "push TCP", "set 0 sack " + ".".join(str(100 + i) for i in range(65)), "show"]
    ops += ["new", "push TCP", "set 0 sack " + ".".join(str(i) for i in range(16384)), "show"]
    # option payload at and above the 16-bit limit of PDUOption
    ops += ["new", "push TCP", "set 0 add_option 253 " + "00" * 65536, "show"]
    if pid == "C02":
        ops += ["new", "push TCP", "set 0 add_option 253 " + "00" * 65535, "show"]
    ops += over40_programs(rng)
    return ops


def udp_program(rng, parent=None):
    ops = ["new"]
    i = 0
    if parent:
        ops.append(f"push {parent}"); i = 1
    ops.append(rng.choice(["push UDP", f"push UDP {u16(rng)} {u16(rng)}"]))
    if rng.random() < 0.8:
        ops.append(f"push RawPDU {hexs(rb(rng, rng.choice(PAYLOAD_LENS)))}")
    for _ in range(rng.randrange(0, 4)):
        ops.append(rng.choice([f"set {i} sport {u16(rng)}", f"set {i} dport {u16(rng)}", f"set {i} length {u16(rng)}"]))
    ops.append("show")
    return ops


def gen_build(rng, n):
    pid = running_property()
    ops = fixed_programs(rng, pid)
    parents = [c for c in ("IP", "IPv6") if api_modelled(c)]
    while len(ops) < n:
        k = rng.random()
        if k < 0.62:
            ops += canonical_program(rng, parent=(rng.choice(parents) if parents and rng.random() < 0.4 else None))
        elif k < 0.78:
            ops += threshold_program(rng)
        elif k < 0.90 and pid == "C02":
            ops += noncanonical_program(rng)
        elif k < 0.93:
            ops += over40_programs(rng)
        elif k < 0.97:
            ops += removal_programs(rng)
        else:
            ops += udp_program(rng, parent=(rng.choice(parents) if parents and rng.random() < 0.4 else None))
    return ops


# ------------------------------------------------------------------------------------------------ known-finding signatures

def tcp_option_bytes(case):
    """bytes of TCP options per TCP layer after the program `case` (counted the way the wire encodes them)"""
    layers, idx = {}, -1
    for l in case:
        w = l.split(" ")
        if w[0] == "new":
            layers, idx = {}, -1
        elif w[0] == "push":
            idx += 1
            if w[1] == "TCP":
                layers[idx] = []
        elif w[0] == "set" and len(w) >= 3 and w[1].isdigit() and int(w[1]) in layers:
            o = layers[int(w[1])]
            op = w[2]
            hexlen = lambda h: 0 if h == "-" else len(h) // 2
            if op == "mss": o.append((2, 2))
            elif op in ("winscale", "altchecksum"): o.append((3 if op == "winscale" else 14, 1))
            elif op == "sack_permitted": o.append((4, 0))
            elif op == "timestamp": o.append((8, 8))
            elif op == "sack" and len(w) == 4:
                cnt = 0 if w[3] == "-" else len(w[3].split("."))
                o.append((5, 4 * cnt))
            elif op in ("add_option", "add_option_copy") and len(w) == 5: o.append((int(w[3]) % 256, hexlen(w[4])))
            elif op == "add_option_nodata" and len(w) == 5: o.append((int(w[3]) % 256, 0))
            elif op == "add_option_len" and len(w) == 6: o.append((int(w[3]) % 256, hexlen(w[5])))
            elif op == "remove_option" and len(w) == 4:
                for j, (k, _) in enumerate(o):
                    if k == int(w[3]) % 256:
                        del o[j]
                        break
    return [sum(opt_cost(k, n) for k, n in o) for o in layers.values()]


def refine_sig(sig, case, detail):
    if sig.get("class") == "api" and sig.get("clause") == "serialize-total" and "serialization_error" in detail:
        if any(b > 40 for b in tcp_option_bytes(case)):
            sig = dict(sig)
            sig["when"] = "tcp-options-over-40-bytes"
    return sig
