"""C18 — independent objects can be used from different threads without data races."""
import os, random, re, subprocess, sys
from vlib import core, corr

sys.path.insert(0, os.path.join(core.VERIF, "translator"))
import gen_staticvars  # noqa: E402

AREA = "C18"
MODULES = ["TinsModel.Props.C18"]
AUDIT = "Audit/C18.lean"
LEVEL = "proof"
HARNESS = "c18_threads"
MANIFEST = dict(
    text="Lean 4 theorems over an abstract shared-memory machine (threads = programs with read/write footprints): for all "
         "thread programs, initial configurations and interleavings, disjoint write footprints imply that every thread "
         "observes exactly what it observes running alone and that no two enabled actions conflict; instantiated for "
         "libtins over a table of every variable with static storage duration that is regenerated from the source on "
         "every run (clang-14 AST: const-ness, write sites; cross-checked against the data symbols of the compiled "
         "library) and decided as a whole (`no_shared_mutable`, `extern_calls_mt_safe`, `scan_complete`); registering "
         "allocators before the threads start only changes the initial configuration (`registration_before_threads`); "
         "a lazily built table races only in a cold process and is invisible to any dynamic detector once one call has "
         "completed (`lazy_init_cold_race`, `lazy_init_warm_hides_race`). Tied to the code by a ThreadSanitizer build: every "
         "concurrent run happens in a fresh forked process whose threads (k = 2/4/8/16, released by one barrier) make the "
         "first libtins calls of that process; 22 workload kinds on thread-private objects (parse/build/copy/address/"
         "reassembly/stream-following/WEP/WPA2 + CRC-32/FCS, TKIP, CCMP with different keys, pseudo-header checksums on "
         "three flows per thread, address text I/O, DNS compose/decode, typed options, RadioTap field table, Dot11 dispatch, "
         "pdu_from_flag for every tag, serialisation of every PDU class, AckTracker); registry scenarios register 0-3 user "
         "allocators per family (ether type, IP protocol) in increasing/decreasing/mixed order before the threads start, no "
         "parse on the registering thread; per-thread digests are compared with the same calls run alone in another "
         "process (three-way: implementation, model, spec oracle).",
    note="Partial by nature: the theorem is about the abstract machine; that the C++ respects the footprints of the "
         "table is established by a syntactic scan (writes through aliases, inline asm or other languages are not seen) "
         "and by the TSan schedules actually run, not by a proof over the C++ memory model. Trusted: Lean kernel + "
         "standard axioms, translator/gen_staticvars.py (clang-14 JSON AST, nm), g++ 12 ThreadSanitizer, the MT-safe "
         "list for libc/OpenSSL callees, harness and generators.",
    technique="Lean 4 proof (induction over interleavings) over regenerated declaration tables + TSan differential runs",
    design="DESIGN.md §6 C18")

TSAN_ENV = {"TSAN_OPTIONS": "halt_on_error=0:exitcode=0:report_signal_unsafe=0:second_deadlock_stack=1"}
OLD_KINDS = ["parse", "build", "copy", "addr", "reasm", "follow", "wep", "wpa2", "crc"]
NEW_KINDS = ["user", "flag", "fcs", "cksum", "addrio", "dns", "opts", "rtap", "dot11", "serall", "ack", "tkip", "ccmp"]
KINDS = OLD_KINDS + NEW_KINDS
ITERS = dict(parse=(20, 160), build=(20, 160), copy=(10, 100), addr=(20, 200), reasm=(5, 60), follow=(2, 20),
             wep=(10, 80), wpa2=(1, 3), crc=(50, 2000),
             user=(20, 150), flag=(20, 200), fcs=(5, 60), cksum=(20, 150), addrio=(10, 80), dns=(10, 80), opts=(5, 40),
             rtap=(10, 80), dot11=(21, 84), serall=(33, 99), ack=(20, 200), tkip=(1, 2), ccmp=(1, 3))
THREAD_COUNTS = [2, 4, 8, 16]
# what meets what at a cold start: workloads whose FIRST library call reaches the same candidate shared state
COLD_GROUPS = {
    "crc32-users": ["fcs", "wep", "tkip", "crc"],
    "checksum-users": ["cksum", "build", "serall", "opts"],
    "address-text": ["addrio", "addr", "dns"],
    "dispatch-tables": ["flag", "user", "dot11", "rtap", "parse"],
    "decrypters": ["ccmp", "tkip", "wep", "wpa2"],
    "trackers": ["reasm", "follow", "ack", "copy"],
}
# identifiers the `user` / `flag` workloads put on the wire (harness ETH_IDS / IP_IDS); only the first four of each are
# ever registered, the others stay unknown
ETH_IDS = [0x88b5, 0x88b6, 0x88b7, 0x88b8]
IP_IDS = [253, 254, 143, 200]
REG_SCENARIOS = [(0, "none"), (1, "single"), (2, "increasing"), (2, "decreasing"), (3, "increasing"), (3, "decreasing"), (3, "mixed")]


# ----------------------------------------------------------------------------------------- generators

def gen_case(rng, cid, k, scale=1):
    ops = [f"case {cid}"]
    style = rng.random()
    if style < 0.25:
        kinds = [rng.choice(KINDS)] * k                      # every thread the same kind of work
    elif style < 0.4:
        kinds = [rng.choice(["crc", "wep", "wpa2", "build"]) for _ in range(k)]   # crc_table / sbox / FCS users together
    else:
        kinds = [rng.choice(KINDS) for _ in range(k)]
    same_seed = rng.random() < 0.15                          # identical work on every thread (maximal overlap)
    seed0 = rng.randrange(1, 2**40)
    for t, kind in enumerate(kinds):
        lo, hi = ITERS[kind]
        iters = min(hi * scale, max(1, int(rng.uniform(lo, hi) * (scale if kind != "wpa2" else 1))))
        if kind == "crc":
            n = rng.choice([0, 1, 2, 7, 64, 257, rng.randint(0, 1500)])
            data = bytes(rng.randrange(256) for _ in range(n))
            ops.append(f"w {t} crc {iters} {data.hex() if data else '-'}")
        else:
            seed = seed0 if same_seed else rng.randrange(1, 2**40)
            ops.append(f"w {t} {kind} {iters} {seed}")
    ops.append(f"go {rng.randrange(2**32)} {rng.choice([1, 2, 2, 3])}")
    return ops


def cold_iters(rng, kind):
    lo, _hi = ITERS[kind]
    return max(1, rng.randint(lo, 2 * lo)) if kind not in ("wpa2", "tkip", "ccmp") else 1


def w_line(rng, t, kind, iters, seed=None):
    if kind == "crc":
        n = rng.choice([1, 7, 64, 257, rng.randint(1, 1500)])
        return f"w {t} crc {iters} {bytes(rng.randrange(256) for _ in range(n)).hex()}"
    return f"w {t} {kind} {iters} {seed if seed is not None else rng.randrange(1, 2**40)}"


def gen_cold(rng, cid, k, kinds, regs=()):
    """One cold start: a fresh process in which nothing of libtins has run; `regs` are registered on its main thread,
    then k threads are released by a barrier at the same instant and each one's FIRST library call is the sensitive
    one of its workload.  One repetition: a second one in the same process would be warm."""
    ops = [" ".join([f"case {cid}"] + [f"{fam}:{ident}" for fam, ident in regs])]
    for t in range(k):
        kind = kinds[t % len(kinds)] if len(kinds) > 1 else kinds[0]
        ops.append(w_line(rng, t, kind, cold_iters(rng, kind)))
    ops.append(f"go {rng.randrange(2**32)} 1")
    return ops


def reg_order(rng, ids, n, order):
    pick = sorted(rng.sample(ids, n))
    if order == "decreasing":
        pick.reverse()
    elif order == "mixed":
        pick = rng.choice([[pick[1], pick[2], pick[0]], [pick[1], pick[0], pick[2]], [pick[2], pick[0], pick[1]], [pick[0], pick[2], pick[1]]])
    return pick


def gen_registry(rng, cid, k, eth_sc, ip_sc):
    """Registry scenario: eth_sc / ip_sc = (number of user allocators, order of their identifiers) for the ether type
    registry (EthernetII/SNAP/SLL/Dot1Q share it) and the IP protocol registry (IP/IPv6 share it).  Registration happens
    before the threads start, and nothing is parsed on the registering thread afterwards."""
    e = [("eth", i) for i in reg_order(rng, ETH_IDS, *eth_sc)]
    p = [("ip", i) for i in reg_order(rng, IP_IDS, *ip_sc)]
    regs = []
    if rng.random() < 0.5:          # the two families interleaved (each keeps its own order)
        while e or p:
            src = e if (e and (not p or rng.random() < 0.5)) else p
            regs.append(src.pop(0))
    else:
        regs = e + p
    kinds = ["user"] * max(2, k - k // 4) + [rng.choice(["flag", "parse", "copy"]) for _ in range(k // 4)]
    kinds = kinds[:k]
    rng.shuffle(kinds)
    # the registrations travel on the case line: the minimiser never drops it, so `alone=` digests stay valid
    ops = [" ".join([f"case {cid}"] + [f"{fam}:{ident}" for fam, ident in regs])]
    for t, kind in enumerate(kinds):
        ops.append(w_line(rng, t, kind, cold_iters(rng, kind)))
    ops.append(f"go {rng.randrange(2**32)} 1")
    return ops


def gen_cold_suite(rng, cid0, tier):
    """Every workload kind alone at every k, every group mixed at every k, every registry scenario at every k."""
    ops, cid, plan = [], cid0, {"homogeneous": 0, "groups": 0, "registry": 0}
    rounds = 3 if tier == "quick" else 12
    for _ in range(rounds):
        for kind in KINDS:
            for k in THREAD_COUNTS:
                cid += 1; ops += gen_cold(rng, cid, k, [kind]); plan["homogeneous"] += 1
        for _name, kinds in sorted(COLD_GROUPS.items()):
            for k in THREAD_COUNTS:
                ks = list(kinds); rng.shuffle(ks)
                cid += 1; ops += gen_cold(rng, cid, k, ks); plan["groups"] += 1
        for k in THREAD_COUNTS:
            shift = rng.randrange(len(REG_SCENARIOS))
            for i, esc in enumerate(REG_SCENARIOS):
                cid += 1; ops += gen_registry(rng, cid, k, esc, REG_SCENARIOS[(i + shift) % len(REG_SCENARIOS)]); plan["registry"] += 1
    return ops, cid, plan


ALONE_ENV = {"ASAN_OPTIONS": "detect_leaks=0:abort_on_error=0:exitcode=99:allocator_may_return_null=1",
             "UBSAN_OPTIONS": "print_stacktrace=1:halt_on_error=1:exitcode=98"}


def with_alone(exe_alone, ops, dropped=None):
    """Run every workload alone (single-threaded process of the ASan/UBSan build) and append `alone=<digest>` to its
    op line.  A workload whose run-alone execution is not memory-safe / UB-free is outside the hypothesis of C18
    (that is C01's business): it is removed from its case and counted in `dropped` (kind -> {fault summary: count})."""
    dropped = dropped if dropped is not None else {}
    cases = corr.split_cases(ops, ("case",))
    done = {}
    todo = list(range(len(cases)))
    for _round in range(6):
        if not todo:
            break
        flat = [l for ci in todo for l in cases[ci]]
        res, _faults = core.run_harness_lines(exe_alone, ["alone"], flat, case_start=("case",), env=ALONE_ENV)
        i, again = 0, []
        for ci in todo:
            c = cases[ci]
            r = res[i:i + len(c)]
            i += len(c)
            bad = [j for j, x in enumerate(r) if x.startswith("FAULT") or " EXITFAULT " in x]
            if bad:
                j = bad[0]
                w = c[j].split(" ")
                if w[0] != "w":
                    raise RuntimeError(f"alone pass: fault outside a workload: {c[j]!r} -> {r[j]!r}")
                e = dropped.setdefault(w[2], {})
                summ = re.sub(r"\d+", "N", r[j][:160]) if "ubsan:" in r[j] else r[j][:160]
                e[summ] = e.get(summ, 0) + 1
                cases[ci] = c[:j] + c[j + 1:]
                again.append(ci)
                continue
            out = []
            for op, x in zip(c, r):
                w = op.split(" ")
                if w[0] == "w" and w[2] != "crc":
                    m = re.match(r"w \S+ seq=(\S+)$", x)
                    if not m:
                        raise RuntimeError(f"alone pass: unexpected harness answer {x!r} to {op!r}")
                    op = " ".join(w[:5]) + " alone=" + m.group(1)
                out.append(op)
            done[ci] = out
        todo = again
    if todo:
        raise RuntimeError("alone pass: cases keep faulting after removing the faulting workloads")
    return [l for ci in sorted(done) for l in done[ci]], dropped


def strip_alone(ops):
    return [" ".join(x for x in op.split(" ") if not x.startswith("alone=")) for op in ops]


# ----------------------------------------------------------------------------------------- classification

def classify(op, impl):
    w = op.split(" ")
    if w[0] == "w":
        return "w:" + w[2]
    if w[0] == "reg":
        return "reg:" + w[1]
    if w[0] == "case":
        return f"case:registered eth={sum(1 for x in w[2:] if x.startswith('eth:'))} ip={sum(1 for x in w[2:] if x.startswith('ip:'))}"
    if w[0] == "go":
        n = 0 if "conc=- " in impl else impl.split(" ")[1].count(",") + 1 if impl.startswith("go conc=") else -1
        return f"go:threads={n}"
    return w[0]


def tsan_site(exe, case):
    """Re-run a (minimised) case and extract where ThreadSanitizer saw the race."""
    err = ""
    for _ in range(6):       # a race needs the two accesses to meet: retry until the detector reports again
        r = subprocess.run([exe], input="\n".join(case) + "\n", stdout=subprocess.PIPE, stderr=subprocess.PIPE, text=True,
                           env=dict(os.environ, **TSAN_ENV), timeout=600)
        err = r.stderr
        if "ThreadSanitizer" in err:
            break
    glob = re.search(r"Location is global '([^']+)'", err)
    fn = ""
    for fm in re.finditer(r"#\d+ (?:0x[0-9a-f]+ in )?([^\n]+?) (/[^\n: ]+):(\d+)", err):
        if "/src/" in fm.group(2) or "/include/tins/" in fm.group(2):
            fn = re.sub(r"\(.*", "", fm.group(1)).strip() + "@" + "/".join(fm.group(2).split("/")[-2:])
            break
    return (glob.group(1) if glob else ""), fn, err


def make_sig_of(exe):
    def sig_of(kind, detail, case):
        sig = {"kind": kind, "clause": detail.split(" ")[1] if kind == "spec" and " " in detail else ""}
        if kind == "spec" and sig["clause"] == "race-report":
            g, fn, _ = tsan_site(exe, case)
            sig["global"] = re.sub(r"<[^<>]*>", "", g)[:160]
            sig["site"] = fn[:160]
        if kind == "spec" and sig["clause"] == "per-thread-results":
            m = re.search(r"thread=(\d+)", detail)
            ws = [l for l in case if l.startswith("w ")]
            if m and int(m.group(1)) < len(ws):
                sig["workload"] = ws[int(m.group(1))].split(" ")[2]
        if kind == "spec" and sig["clause"] == "run-alone-result":
            m = re.search(r"thread=(\d+)", detail)
            ws = [l for l in case if l.startswith("w ")]
            if m and int(m.group(1)) < len(ws):
                sig["workload"] = ws[int(m.group(1))].split(" ")[2]
        return sig
    return sig_of


# ----------------------------------------------------------------------------------------- the check

def regenerate(chk, lib):
    rows, unparsed, changed, nsrc = gen_staticvars.generate(
        core.REPO, lib, os.path.join(core.LEAN, "TinsModel", "Gen"),
        cache_dir=os.path.join(core.WORK, "c18"), key=core.repo_hash() + "-" + gen_staticvars_version(), jobs=6)
    nonconst = [r for r in rows if not r["isConst"]]
    chk.extra["static_vars"] = {
        "count": len(rows), "translation_units": nsrc, "unparsed": unparsed, "regenerated_files_changed": changed,
        "non_const": [{"name": r["name"], "file": r["file"], "write_sites": r["writeSites"], "hook_only": r["hookOnly"],
                       "atomic": r["atomic"], "reads": r["readSites"], "sections": r["sections"]} for r in nonconst],
        "dynamic_init": [r["name"] for r in rows if not r["constInit"] and r["sections"]],
    }
    return rows, unparsed


def gen_staticvars_version():
    import hashlib
    return hashlib.sha256(open(gen_staticvars.__file__, "rb").read()).hexdigest()[:8]


def run(chk):
    lib, err = core.build_impl("tsan")
    if lib is None:
        chk.violation("implementation does not build (tsan): " + err[-1500:], ["build-error"], nofail=True)
        return
    rows, unparsed = regenerate(chk, lib)
    problems = chk.prove(MODULES, AUDIT, want_leanchecker=(chk.tier == "thorough"))
    exe, err = core.build_harness(HARNESS, san="tsan")
    if exe is None:
        chk.violation("harness does not build: " + err[-1500:], ["build-error"], nofail=True)
        return
    # the detector and the report hook must work, otherwise `races=0` means nothing
    st, _ = core.run_harness_lines(exe, [], ["selftest"], env=TSAN_ENV)
    m = re.match(r"selftest races=(\d+)", st[0] if st else "")
    if not m or int(m.group(1)) == 0:
        raise RuntimeError(f"ThreadSanitizer self-test did not report the deliberate race: {st!r}")
    exe_alone, err = core.build_harness(HARNESS, san="asan")
    if exe_alone is None:
        chk.violation("harness (asan) does not build: " + err[-1500:], ["build-error"], nofail=True)
        return
    rng = random.Random(chk.seed)
    sig_of = make_sig_of(exe)
    per_k = 20 if chk.tier == "quick" else 300
    scale = 1 if chk.tier == "quick" else 2
    total = corr.collections.Counter()
    dropped = {}
    cid = 0
    batches = 1 if chk.tier == "quick" else 10
    # cold starts first: one forked process per case, threads released together, one repetition
    cold_ops, cid, cold_plan = gen_cold_suite(rng, cid, chk.tier)
    cold_ops, _ = with_alone(exe_alone, cold_ops, dropped)
    total += corr.correspond(chk, AREA, exe, cold_ops, case_start=("case",), classify=classify, sig_of=sig_of, env=TSAN_ENV)
    n_go = sum(1 for o in cold_ops if o.startswith("go "))
    for b in range(batches):
        ops = []
        for k in THREAD_COUNTS:
            for _ in range(per_k // batches if batches > 1 else per_k):
                cid += 1
                ops += gen_case(rng, cid, k, scale)
        ops, _ = with_alone(exe_alone, ops, dropped)
        n_go += sum(1 for o in ops if o.startswith("go "))
        total += corr.correspond(chk, AREA, exe, ops, case_start=("case",), classify=classify, sig_of=sig_of, env=TSAN_ENV)
    found = total.get("spec", 0) + total.get("fault", 0)
    if problems and not found:
        # a theorem / table obligation no longer checks: search harder for a concrete schedule on which the
        # implementation misbehaves (all kinds on 16 threads, identical seeds for maximal overlap, more repetitions)
        srng = random.Random(chk.seed * 7919 + 13)
        ops = []
        for kind in KINDS:
            for rep in range(3):
                cid += 1
                ops.append(f"case {cid}")
                seed = srng.randrange(1, 2**40)
                for t in range(16):
                    lo, hi = ITERS[kind]
                    if kind == "crc":
                        ops.append(f"w {t} crc {hi} {bytes(srng.randrange(256) for _ in range(300)).hex()}")
                    else:
                        ops.append(f"w {t} {kind} {hi} {seed if rep == 0 else srng.randrange(1, 2**40)}")
                ops.append(f"go {srng.randrange(2**32)} 4")
        for _ in range(5):      # and the whole cold suite again, five more times (a cold race needs the first calls to meet)
            more, cid, _ = gen_cold_suite(srng, cid, "quick")
            ops += more
        ops, _ = with_alone(exe_alone, ops, dropped)
        total += corr.correspond(chk, AREA, exe, ops, case_start=("case",), classify=classify, sig_of=sig_of, env=TSAN_ENV)
        found = total.get("spec", 0) + total.get("fault", 0)
    for p in problems:
        if not found:
            detail = p[:1500]
            bad = [r for r in rows if not (r["hookOnly"] or r["threadLocal"] or r["isConst"]
                                           or all(w == "Tins::Internals::PDUAllocator::register_allocator" for w in r["writeSites"]))]
            if bad:
                detail = "shared mutable statics: " + "; ".join(f"{r['name']} ({r['file']}) written in {r['writeSites']}" for r in bad) + " | " + detail
            if unparsed:
                detail = "translator could not account for: " + "; ".join(unparsed)[:800] + " | " + detail
            chk.violation("proof obligation no longer checks: " + detail, ["theorem-or-audit-failure", p[:4000]], nofail=True)
    # what the workloads exercise (evidence)
    stat_ops = ["case 0", f"reg eth {ETH_IDS[2]}", f"reg eth {ETH_IDS[1]}", f"reg ip {IP_IDS[1]}", f"reg ip {IP_IDS[0]}"] + \
               [f"stat {k} {ITERS[k][1]} {chk.seed}" for k in KINDS if k != "crc"]
    sres, _ = core.run_harness_lines(exe, ["alone"], stat_ops, env=TSAN_ENV)
    chk.extra["workload_coverage"] = {o.split(" ")[1]: " ".join(r.split(" ")[2:]) for o, r in zip(stat_ops, sres) if o.startswith("stat ")}
    chk.extra["workloads"] = KINDS
    chk.extra["cold_starts"] = {
        "processes_in_which_the_threads_made_the_first_libtins_calls": n_go,
        "of_which_dedicated_cold_cases": cold_plan,
        "cold_groups": COLD_GROUPS,
        "registry_scenarios_per_family": [f"{n}:{o}" for n, o in REG_SCENARIOS],
        "registry_identifiers": {"eth": ETH_IDS, "ip": IP_IDS},
        "rule": "every `go` runs in a forked child of a parent that never executes libtins code; registrations happen on the child's main "
                "thread before the threads are created, nothing is parsed there; the run-alone reference digests come from another "
                "process (ASan/UBSan build); the `seq=` re-run inside the child happens AFTER the threads were joined",
    }
    chk.extra["workloads_excluded_because_their_run_alone_execution_faulted_under_asan_ubsan"] = \
        {k: dict(sorted(v.items())) for k, v in sorted(dropped.items())}
    chk.extra["thread_counts"] = THREAD_COUNTS
    chk.extra["modelled_not_proved"] = [
        "that the C++ functions respect the footprints of the generated table (syntactic scan + TSan runs)",
    ]
    chk.cov["rule"] = ("cold case = fresh process, optional allocator registrations, k in {2,4,8,16} small workloads released together, 1 repetition; "
                       "mixed case = k in {2,4,8,16} workloads (kind, iterations, seed) on thread-private objects, run alone and then "
                       "concurrently 1-3 times with seeded random yields under ThreadSanitizer; distinct_nontrivial counts "
                       "distinct (operation, implementation result) pairs")
    chk.assumptions += [
        "footprint hypothesis of libtins_threads_independent: established by the AST scan (aliases not followed) and the TSan schedules run",
        "user-triggered registration (Allocators::register_allocator) is not called concurrently with parsing",
        "verification-hook statics (TINS_VERIF_HOOKS) are excluded from the shipped-library statement; they are atomics or never written (theorem hook_statics_synchronised)",
        "C++11 thread-safe initialisation of function-local statics (g++ default, -fno-threadsafe-statics not used)",
        "libc / OpenSSL callees in Threads/Policy.lean `mtSafe` are MT-safe on distinct objects (glibc manual, OpenSSL >= 1.1); HMAC is always called with a caller-owned output buffer",
        "libstdc++ containers/strings/streams are race-free on distinct objects ([res.on.data.races]); operator new/delete are thread-safe",
        "hypothesis: the run-alone execution of a workload is memory-safe and UB-free (ASan/UBSan build); workloads that are not are excluded and counted (that is C01's property)",
        "TSan detects happens-before races among accesses it instruments (libtins and harness code; uninstrumented libcrypto/libpcap internals are not seen)",
        "TSan judges only the schedules that were executed: a race needs both accesses to be executed without a happens-before edge in one of the runs (they need not collide in time, but must be close enough for the detector's bounded access history, see below); state that is touched only on a path no workload executes, or only under a registration history / key pattern no scenario produces, is seen by the static-variable table alone",
        "a cold-start race is visible only in the first overlapping calls of a process: the quick tier gives each (workload kind, k), each cold group x k and each registry scenario x k three cold processes per run (500 cold processes with the 80 mixed cases); thread start-up skew (16 threads released by one barrier on a shared machine) may let one thread finish a lazy initialisation before the next one arrives, in which case TSan still reports it only if the later reads are not ordered after it (they are not: the barrier precedes both)",
        "TSan's shadow memory remembers the last four accesses to an 8-byte word: the one racing write of a lazy initialisation is forgotten after a few further accesses to the same word, so it is reported only if another thread's first call arrives within a few calls of it (observed with seeded/C18f on 4 slow-starting threads: no report) — hence the spinning barrier, the sensitive call first in every workload, and hundreds of cold processes per run instead of long warm runs",
        "wrong-value manifestations (digest mismatch without a race report) need the accesses to actually collide; they are opportunistic, the race report is the primary signal",
        "TSan suppressions: none are used; no report from libstdc++ / libcrypto internals occurs on the unchanged tree",
    ]
    chk.trusted += ["translator/gen_staticvars.py (clang-14 JSON AST + nm cross-check)",
                    "correspondence harness harness/c18_threads.cpp + generators in checks/C18.py",
                    "g++ 12 ThreadSanitizer build (concurrent runs) and ASan/UBSan build (run-alone reference) of the repo's working tree (hooks on)"]
    corr.finalize_cov(chk)


def replay(path):
    exe, err = core.build_harness(HARNESS, san="tsan")
    if exe is None:
        print("harness does not build:", err[-2000:])
        return 1
    ops = [l.rstrip("\n") for l in open(path) if not l.startswith("#") and l.strip()]
    if ops and ops[0].split(" ")[0] in ("theorem-or-audit-failure", "build-error", "machinery-error"):
        # not an input: a proof obligation / the build / the machinery failed — decide again on the current tree
        chk = core.Check("C18", "quick", int(os.environ.get("VERIF_SEED", "1")))
        run(chk)
        return chk.finish(level=LEVEL)
    exe_alone, err = core.build_harness(HARNESS, san="asan")
    if exe_alone is None:
        print("harness (asan) does not build:", err[-2000:])
        return 1
    excluded = {}
    ops, _ = with_alone(exe_alone, strip_alone(ops), excluded)     # run-alone digests of the tree being replayed on
    if excluded:
        print("workloads whose run-alone execution faults under ASan/UBSan (outside C18's hypothesis):", excluded)
    # a race (and a wrong value caused by one) depends on the schedule: the replay is repeated until it shows
    bad = None
    for attempt in range(12):
        impl, mod, spec, faults = corr.evaluate(AREA, exe, ops, ("case",), env=TSAN_ENV)
        bad = corr.first_problem(ops, impl, mod, spec)
        if bad:
            print(f"(reproduced at attempt {attempt + 1} of 12)")
            break
    for o, a, b, c in zip(ops, impl, mod, spec):
        print(o[:200]); print("  impl :", a[:400]); print("  model:", b[:400]); print("  spec :", c)
    if bad:
        g, fn, errtxt = tsan_site(exe, ops)
        if "ThreadSanitizer" in errtxt:
            print("---- ThreadSanitizer report (first 60 lines) ----")
            print("\n".join(errtxt.split("\n")[:60]))
        print(f"VIOLATION property=C18 replay={path}")
        return 1
    return 0
