"""C19 — ACK/SACK tracker agrees with a set-of-acknowledged-bytes model."""
import itertools, random
from vlib import core, corr

AREA = "C19"
MODULES = ["TinsModel.Props.C19", "TinsModel.Props.Limits.C19"]   # + the constants / limits tied to the source (translator/gen_limits.py)
AUDIT = ["Audit/C19.lean", "Audit/LimitsC19.lean"]
LEVEL = "proof"
HARNESS = "c19_acktracker"
CASE_START = ("init", "finit", "new", "icl")
MANIFEST = dict(
    text="Lean 4 theorems (invariant over all conforming ACK/SACK histories, any initial sequence number, wrap-around "
         "included) over a code-shaped executable model of AckedRange / AckTracker::process_packet / process_sack / "
         "cleanup_sacked_intervals / is_segment_acked, composed with the byte-level model of TCP::TCP(buffer,size), "
         "search_option(SACK) and to<sack_type>() of the Transport wire family into one statement from wire bytes to the "
         "acknowledged set (ack_refines_wire: every conforming history, each packet put on the wire by an RFC 793 / RFC 2018 "
         "reference encoder with any well-formed options around the SACK option, drives process_packet(TCP(bytes)) to the "
         "state of the set-of-acknowledged-bytes model); the decoder facts (big-endian words, malformed_option exactly for "
         "option lengths other than 2+4k and only after the cumulative ACK has been processed, a trailing odd edge ignored); "
         "a safety part for ALL histories and ALL byte strings (no fault, only malformed_packet / malformed_option leave, "
         "32-bit ACK, canonical interval list with 32-bit edges, is_segment_acked total with a point-wise meaning in every "
         "state; the 'every stored point lies ahead of the ACK' invariant refuted in general by witnesses and proved for "
         "every packet that neither jumps the ACK by exactly 2^31 nor carries a block straddling the ACK). Tied to the code "
         "by differential correspondence: the real AckTracker is driven with real TCP packets carrying SACK options "
         "(API-built, serialised and re-parsed, built by a C++ reference encoder whose bytes are compared with the Lean "
         "encoder's and parsed with TCP(buffer,size), arbitrary mutated byte strings, and through TCPIP::Flow::process_packet "
         "with ACK tracking enabled) under ASan/UBSan; its ack_number(), icl intervals and is_segment_acked on a grid around "
         "every interval edge, the ACK and the wrap point are compared with the model, and the executable spec (set of "
         "acknowledged absolute byte positions) judges the implementation's own output.",
    note="Trusted: Lean kernel + standard axioms; boost::icl::interval_set<uint32_t> is a parameter whose assumed behaviour is "
         "the explicit contract Ack/Icl.lean IclContract on exactly the operations the tracker uses (insert / erase / "
         "contains of non-empty closed intervals, const iteration through icl::first / icl::last): canonical iteration "
         "(ascending, non-empty, non-touching intervals) and point-set union / difference / subset. The contract is proved "
         "complete (any implementation satisfying it is observationally the Lean list model: "
         "interval_set_parameter_is_determined) and satisfiable (by the list model, whose canonical-form lemmas are proved); "
         "that the real icl satisfies it is validated by correspondence only - a dedicated op stream on a real "
         "interval_set<uint32_t> (insert closed / right-open, erase, operator-=, contains, iterative_size, cardinality; "
         "intervals overlapping, nested, touching at either end, at 0 and at 2^32-1) compared with the list model and judged "
         "point-wise by the oracle. Hand-written model tied by correspondence (harness/c19_acktracker.cpp); generator "
         "coverage bounds what the tie sees.",
    technique="Lean 4 proof (invariant/refinement over ACK histories, composed with the wire parser model) + model/impl "
              "correspondence + spec oracle",
    design="DESIGN.md §6 C19")
MANIFEST["note"] += (" Constants and limits of the C++ source that the model restates (translator/gen_limits.py -> Gen/Limits.lean: "
                     "compiled probe + preprocessed function bodies at named anchors) are tied to the model's numerals by the "
                     "theorems of lean/TinsModel/Props/Limits/C19.lean (audit: Audit/LimitsC19.lean); tools/LIMITS-INVENTORY.md lists "
                     "what is tied and what is not.")

M32 = 2**32
HALF = 2**31
BOUNDARY_ISNS = [0, 1, 2, HALF - 2, HALF - 1, HALF, HALF + 1, M32 - 1] + [M32 - k for k in range(2, 40)]


# ----------------------------------------------------------------------------- a conforming receiver

class Receiver:
    """RFC 793 / RFC 2018 receiver over absolute positions: holds a set of received positions (merged half-open
    intervals), acknowledges cumulatively up to the first hole and selectively the blocks above it."""

    def __init__(self, start):
        self.next = start            # first position not received
        self.blocks = []             # disjoint merged [l, r) above self.next, most recently touched first

    def receive(self, l, r):
        if r <= self.next or l >= r:
            return None
        l = max(l, self.next)
        merged_l, merged_r = l, r
        rest = []
        for (a, b) in self.blocks:
            if b < merged_l or merged_r < a:
                rest.append((a, b))
            else:
                merged_l, merged_r = min(a, merged_l), max(b, merged_r)
        if merged_l <= self.next:
            self.next = merged_r
            self.blocks = rest
            return None
        self.blocks = [(merged_l, merged_r)] + rest
        return (merged_l, merged_r)


def pick_isn(rng, span):
    r = rng.random()
    if r < 0.45:
        isn = rng.choice(BOUNDARY_ISNS)
    elif r < 0.8 and span > 0:
        isn = (M32 - rng.randint(0, span)) % M32          # the stream crosses the wrap point
    else:
        isn = rng.randrange(M32)
    return rng.choice([1, 1, 2, 5]) * M32 + isn             # absolute positions stay positive when unwrapped


def queries_near(rng, rcv, segs, n):
    out = []
    pts = [rcv.next] + [x for b in rcv.blocks for x in b]
    for _ in range(n):
        r = rng.random()
        if r < 0.35 and segs:
            l, rr = rng.choice(segs)
            out.append((l, rr - l))
        elif r < 0.8:
            a = rng.choice(pts) + rng.randint(-3, 3)
            b = rng.choice(pts) + rng.randint(-3, 3)
            if a > b:
                a, b = b, a
            out.append((a, b - a + rng.randint(0, 1)))
        else:
            a = rng.choice(pts) + rng.randint(-6, 6)
            out.append((a, rng.choice([0, 1, 2, 3, 7])))
    return [(max(s, 0), n_) for s, n_ in out]


def gen_conforming(rng, max_segs=10, scale=None, sack_on=True):
    """random arrival order of a segmented stream; the receiver answers every arrival; ACK packets may be lost"""
    scale = scale if scale is not None else rng.choice([1, 1, 1, 3, 1000, 2**16, 2**24, 2**27])
    nseg = rng.randint(1, max_segs)
    lens = [max(1, rng.randint(1, 9) * scale + (rng.randint(-2, 2) if scale > 4 else 0)) for _ in range(nseg)]
    while sum(lens) >= HALF - 8 and len(lens) > 1:
        lens.pop()
    if sum(lens) >= HALF - 8:
        lens = [HALF - 9 - rng.randint(0, 3)]
    a0 = pick_isn(rng, sum(lens))
    segs, p = [], a0
    for ln in lens:
        segs.append((p, p + ln)); p += ln
    order = list(segs)
    style = rng.random()
    if style < 0.5:
        rng.shuffle(order)
    elif style < 0.8:                                       # mostly in order with a few displaced segments
        for _ in range(rng.randint(1, 3)):
            i = rng.randrange(len(order)); order.append(order.pop(i))
    else:
        order.reverse()
    order += [rng.choice(segs) for _ in range(rng.randint(0, 2))]        # retransmissions
    if rng.random() < 0.3:                                  # re-cut retransmission overlapping two segments
        i = rng.randrange(len(segs)); l, r = segs[i]
        order.insert(rng.randrange(len(order) + 1), (l + (r - l) // 2, min(p, r + max(1, (r - l) // 2))))
    loss = rng.choice([0.0, 0.0, 0.2, 0.5])
    maxblocks = rng.choice([4, 4, 3, 1])
    seg_level = rng.random() < 0.3                          # report the segment just received, not the merged block
    ops = [f"finit {a0}" if sack_on and rng.random() < 0.25 else f"init {a0} {1 if sack_on else 0}"]
    rcv = Receiver(a0)
    for (l, r) in order:
        newest = rcv.receive(l, r)
        blocks = list(rcv.blocks[:maxblocks])
        if seg_level and newest is not None and l > rcv.next:
            blocks[0] = (l, r)
        if rng.random() < loss:
            continue
        kr = rng.random()
        if kr < 0.3:
            # on the wire through the reference encoder: options around the SACK option, SACK omitted / empty when there
            # is no block, now and then an END octet in front of it, an undecodable SACK option or a trailing odd edge
            # (the tracker then has to take only the cumulative ACK / ignore the odd edge)
            flat = [x for b in blocks for x in b]
            sr = rng.random()
            sack = "" if (not flat and sr < 0.5) else "T" if (flat and sr < 0.04) else "S"
            if sack == "S" and len(flat) < 8 and sr > 0.96:
                flat.append(rng.choice(flat or [rcv.next]) + rng.randint(-3, 3))
            lay = pick_layout(rng, len(flat), sack)
            if lay != "." and rng.random() < 0.03:
                lay = "E" + lay
            ops.append(f"segw {rcv.next} {lay} {rng.choice([0, 0, 1, 3, 5])}" + "".join(f" {x}" for x in flat))
            for s, n in queries_near(rng, rcv, segs, rng.choice([0, 0, 1, 3])):
                ops.append(f"q {s} {n}")
            continue
        kind = "pktw" if kr < 0.58 else "pkt"
        edges = " ".join(f"{a} {b}" for a, b in blocks)
        ops.append(f"{kind} {rcv.next}" + (" " + edges if edges else ""))
        for s, n in queries_near(rng, rcv, segs, rng.choice([0, 0, 1, 3])):
            ops.append(f"q {s} {n}")
    return ops


# ----------------------------------------------------------------------------- segments on the wire

OPT_SIZE = {".": 0, "n": 1, "E": 1, "m": 4, "w": 3, "k": 2, "t": 10, "x": 5}
OPT_BYTES = {".": b"", "n": b"\x01", "E": b"\x00", "m": bytes([2, 4, 5, 0xb4]), "w": bytes([3, 3, 7]), "k": bytes([4, 2]),
             "t": bytes([8, 10, 0, 0, 0, 1, 0, 0, 0, 2]), "x": bytes([30, 5, 0xaa, 0xbb, 0xcc])}
PRE = ["", "", "n", "nn", "nn", "nnn", "m", "w", "k", "x", "mw", "nnt", "tnn", "kn"]
POST = ["", "", "", "n", "t", "E", "nE", "x", "nn"]


def layout_size(layout, nedges):
    n = 0
    for c in layout:
        n += (2 + 4 * nedges - (1 if c == "T" else 0)) if c in "ST" else OPT_SIZE[c]
    return (n + 3) // 4 * 4


def pick_layout(rng, nedges, sack="S"):
    """options around the SACK option (kind `sack`, or none when it is ""), fitting the 40-byte option area"""
    for _ in range(20):
        lay = rng.choice(PRE) + sack + rng.choice(POST)
        if layout_size(lay, nedges) <= 40:
            return lay or "."
    return sack or "."


def py_segment(ack, layout, plen, edges):
    """a third encoder (only used to derive *mutated* byte strings for the `wire` op)"""
    opt = b""
    for c in layout:
        if c in "ST":
            d = b"".join((e % M32).to_bytes(4, "big") for e in edges)
            if c == "T":
                d = d[:-1]
            opt += bytes([5, (len(d) + 2) % 256]) + d
        else:
            opt += OPT_BYTES[c]
    opt += b"\x00" * (-len(opt) % 4)
    hdr = (1234).to_bytes(2, "big") + (80).to_bytes(2, "big") + (1001).to_bytes(4, "big") + (ack % M32).to_bytes(4, "big")
    hdr += bytes([(((20 + len(opt)) // 4) << 4) & 0xff, 0x10]) + (32678).to_bytes(2, "big") + b"\x00\x00\x00\x00"
    return hdr + opt + b"\xab" * plen


def mutate_segment(rng, b):
    b = bytearray(b)
    r = rng.random()
    if r < 0.25 and len(b) > 1:
        b = b[:rng.randrange(len(b))]                       # truncation at any length
    elif r < 0.45:
        b[12] = (rng.choice([0, 4, 5, 6, 7, 10, 15, (b[12] >> 4) + 1, max((b[12] >> 4) - 1, 0)]) << 4) & 0xff
    elif r < 0.8 and len(b) > 20:
        i = rng.randrange(20, len(b))                       # an option kind / length / data octet
        b[i] = rng.choice([0, 1, 2, 5, 5, 6, 10, 18, 0xff, (b[i] + 1) & 0xff, (b[i] - 1) & 0xff])
    else:
        i = rng.randrange(len(b)); b[i] ^= 1 << rng.randrange(8)
    return bytes(b)


def gen_icl(rng):
    """the container parameter on its own: insert / erase / contains on a real interval_set<uint32_t>, values chosen so
    that intervals overlap, nest, touch at either end, and sit at 0 and at 2^32 - 1"""
    base = rng.choice([0, 0, M32 - 16, M32 - 16, HALF - 8, rng.randrange(M32 - 64)])
    pool = [0, 1, 2, 3, M32 - 1, M32 - 2, M32 - 3] + [min(base + k, M32 - 1) for k in range(16)]

    def ival(maxlen=6):
        a = rng.choice(pool)
        r = rng.random()
        b = a if r < 0.25 else min(M32 - 1, a + rng.randint(0, maxlen)) if r < 0.9 else rng.choice(pool)
        return (a, b) if a <= b else (b, a)

    ops = ["icl"]
    for _ in range(rng.randint(3, 14)):
        r = rng.random()
        if r < 0.4:
            ops.append("ins %d %d" % ival())
        elif r < 0.47:
            a, b = ival()
            ops.append("insro %d %d" % rng.choice([(a, b), (a, b + 1 if b < M32 - 1 else b), (b, a)]))
        elif r < 0.52:
            ops.append("ins %d %d" % rng.choice([(0, M32 - 1), (0, rng.choice(pool)), (rng.choice(pool), M32 - 1)]))
        elif r < 0.7:
            ops.append("%s %d %d" % ((rng.choice(["del", "del", "sub"]),) + ival(4)))
        elif r < 0.75:
            ops.append("del %d %d" % rng.choice([(0, M32 - 1), (0, 0), (M32 - 1, M32 - 1), (1, M32 - 2)]))
        elif r < 0.93:
            ops.append("has %d %d" % ival(8))
        else:
            ops.append("hasp %d" % rng.choice(pool))
    return ops


def exhaustive_cases(nmax, isns, limit):
    """all arrival orders of the segments of every composition of a short stream (segment lengths 1..2), the receiver
    reporting its maximal blocks, at initial sequence numbers around the wrap point"""
    out = []
    for k in range(1, nmax + 1):
        for lens in itertools.product([1, 2], repeat=k):
            if k > 3 and any(x != 1 for x in lens[1:-1]):
                continue
            for isn in isns:
                a0 = M32 + isn
                segs, p = [], a0
                for ln in lens:
                    segs.append((p, p + ln)); p += ln
                for perm in itertools.permutations(segs):
                    rcv = Receiver(a0)
                    ops = [f"init {a0} 1"]
                    for (l, r) in perm:
                        rcv.receive(l, r)
                        edges = " ".join(f"{a} {b}" for a, b in rcv.blocks[:4])
                        ops.append(f"pkt {rcv.next}" + (" " + edges if edges else ""))
                    out.append(ops)
                    if len(out) >= limit:
                        return out
    return out


def gen_window_edge(rng):
    """blocks and queries exactly at the edge of the half-space window"""
    a0 = pick_isn(rng, 0)
    ops = [f"init {a0} 1"]
    d = rng.choice([0, 1, 2])
    r = a0 + HALF - d + rng.choice([0, 0, 1])              # r = A + 2^31 is the last conforming right edge
    l = r - rng.choice([1, 2, 5, 1000, HALF // 2])
    l = max(l, a0 + 1)
    ops.append(f"pkt {a0} {l} {r}")
    for s, n in [(l, r - l), (l - 1, 2), (r - 1, 1), (r - 1, 2), (a0 - HALF + 1, 3), (a0 - HALF, 3), (a0 - 5, 5),
                 (a0 - 5, 6), (a0, HALF), (a0 + 1, HALF - 1), (a0 - 3, HALF), (a0 - 3, HALF + 1)]:
        if s >= 0:
            ops.append(f"q {s} {n}")
    adv = rng.choice([1, 5, HALF - 1, HALF - 1, HALF // 2])
    if a0 + adv < l:
        ops.append(f"pkt {a0 + adv} {l} {r}")
        ops.append(f"q {l} {r - l}")
    ops.append(f"pkt {r}")
    ops.append(f"q {l} {r - l}")
    return ops


def gen_adversarial(rng):
    """arbitrary (non-conforming) traffic: only the model/implementation correspondence applies"""
    base = rng.choice(BOUNDARY_ISNS + [rng.randrange(M32)])
    ops = [rng.choice([f"init {base} 1", f"init {base} 1", f"init {base} 0", "new", f"finit {base}"])]

    def near():
        r = rng.random()
        if r < 0.6:
            return (base + rng.randint(-12, 40)) % M32
        if r < 0.75:
            return rng.choice([0, 1, M32 - 1, M32 - 2, HALF, HALF - 1, HALF + 1])
        if r < 0.9:
            return (base + rng.choice([HALF, HALF - 1, HALF + 1, -HALF + 1]) + rng.randint(-2, 2)) % M32
        return rng.randrange(M32)

    for _ in range(rng.randint(1, 10)):
        r = rng.random()
        if r < 0.45:
            kind = rng.choice(["pkt", "pkt", "pktw"])
            nb = rng.choice([0, 1, 1, 2, 3, 4])
            edges = []
            for _ in range(nb):
                l = near(); edges += [l, (l + rng.choice([0, 1, 2, 3, 10, 25, M32 - 1, HALF, HALF - 1, HALF + 1])) % M32]
            if rng.random() < 0.1:
                edges.append(near())                        # trailing odd edge
            if rng.random() < 0.1 and kind == "pkt":
                edges += [near() for _ in range(rng.randint(9, 30))]
            tail = " ".join(map(str, edges)) if edges else rng.choice(["", "-"] if kind == "pkt" else [""])
            ops.append(f"{kind} {near()} {tail}".rstrip())
        elif r < 0.6:
            nb = rng.choice([0, 1, 1, 2, 3, 4, 5])
            edges = []
            for _ in range(nb):
                l = near(); edges += [l, (l + rng.choice([0, 1, 2, 3, 10, 25, M32 - 1, HALF, HALF - 1, HALF + 1])) % M32]
            if rng.random() < 0.15:
                edges.append(near())
            lay = rng.choice(PRE) + rng.choice(["S", "S", "S", "T", "", "SS", "TS", "ES"]) + rng.choice(POST)
            a = near()
            if ops[0].startswith("finit") or rng.random() < 0.5:
                ops.append(f"segw {a} {lay or '.'} {rng.choice([0, 1, 4])}" + "".join(f" {x}" for x in edges))
            else:
                lay2 = "".join(c for c in lay if c in OPT_SIZE or (c in "ST" and (edges or c == "S")))
                ops.append("wire " + (mutate_segment(rng, py_segment(a, lay2, rng.choice([0, 2]), edges)).hex() or "-"))
        elif r < 0.65:
            n = rng.choice([0, 1, 3, 4, 5, 7, 8, 9, 12, 16, 17])
            data = bytearray()
            while len(data) < n:
                data += near().to_bytes(4, "big")
            ops.append(f"opt {near()} {bytes(data[:n]).hex() or '-'}")
        elif r < 0.7:
            ops.append("pktn")
        elif r < 0.75:
            ops.append("usesack")
        else:
            ops.append(f"q {near()} {rng.choice([0, 1, 2, 3, 10, 30, HALF - 1, HALF, HALF + 1, M32 - 1, rng.randrange(M32)])}")
    return ops


# fixed cases run first on every run: past findings and hand-picked boundaries
CORPUS = [
    # KF-C19-1 (fixed): TCP::sack({}) indexed an empty vector
    ["init 4294967290 1", "pkt 4294967290 -", "pkt 4294967291 -"],
    # the unit tests' wrap-around scenario in absolute positions
    [f"init {M32 + M32 - 11} 1", f"pkt {M32 + M32 - 11} {M32 + M32 - 4} {2 * M32 + 5}", f"q {M32 + M32 - 4} 9",
     f"q {M32 + M32 - 4} 10", f"pkt {2 * M32 - 1} {2 * M32} {2 * M32 + 5}", f"pkt {2 * M32 + 5}"],
    # cumulative ACK landing exactly one below a SACKed interval, then at its end
    [f"init {M32 + 10} 1", f"pkt {M32 + 10} {M32 + 20} {M32 + 30}", f"pkt {M32 + 19} {M32 + 20} {M32 + 30}",
     f"q {M32 + 19} 2", f"q {M32 + 20} 10", f"q {M32 + 20} 11", f"pkt {M32 + 30}", f"q {M32 + 20} 10"],
    # touching blocks reported separately merge into one interval
    [f"init {M32 - 5} 1", f"pkt {M32 - 5} {M32 - 2} {M32}", f"pkt {M32 - 5} {M32} {M32 + 3}",
     f"pkt {M32 - 5} {M32 + 4} {M32 + 6}", f"pkt {M32 - 5} {M32 + 3} {M32 + 4}"],
    # the witnesses of Props/C19 for non-conforming input (model vs code; the oracle only judges the any-history clause):
    # a block straddling the ACK leaves a stored interval behind it; an ACK jumping by exactly 2^31 erases nothing
    ["init 10 1", "pkt 10 20 31", "pkt 10 5 100", "q 20 5", "q 20 100"],
    ["init 10 1", "pkt 10 20 31", f"pkt {10 + HALF}", "q 20 5"],
    # a straddling block across the wrap point moves the ACK number backwards; its unwrapped analogue
    ["init 5 1", "q 4294967295 1", "pkt 5 4294967280 11", "q 4294967295 1"],
    ["init 21 1", "pkt 21 16 27"],
    # on the wire: options around the SACK option, odd edge count (last edge ignored), undecodable option (ACK processed,
    # malformed_option), END in front of the SACK option, two SACK options (the first counts), no option at all
    [f"init {M32 + 10} 1", f"segw {M32 + 10} nnS 3 {M32 + 20} {M32 + 30}", f"segw {M32 + 12} nnSt 0 {M32 + 20} {M32 + 30} {M32 + 40} {M32 + 50}",
     f"segw {M32 + 12} mS 1 {M32 + 20} {M32 + 30} {M32 + 60}", f"segw {M32 + 14} nnT 0 {M32 + 40} {M32 + 55}",
     f"segw {M32 + 14} ES 0 {M32 + 70} {M32 + 80}", f"segw {M32 + 14} SS 0 {M32 + 70} {M32 + 80}", f"segw {M32 + 15} . 0",
     f"segw {M32 + 15} S 0", f"segw {M32 + 15} nnntS 0 {M32 + 20} {M32 + 30} {M32 + 40} {M32 + 50} {M32 + 60} {M32 + 70} {M32 + 80} {M32 + 90}"],
    [f"finit {M32 - 3}", f"segw {M32 - 3} nnT 2 {M32 + 4} {M32 + 9}", f"segw {M32 - 2} nnS 2 {M32 + 4} {M32 + 9}"],
    ["init 10 1", "wire -", "wire 00", "wire " + py_segment(12, "nnS", 0, [20, 30]).hex(),
     "wire " + py_segment(12, "nnS", 0, [20, 30])[:27].hex(), "wire " + py_segment(13, "S", 0, [40, 50, 60])[:-1].hex()],
    # the container on its own: touching at both ends, at 0 and at 2^32-1, the full set, erasing the ends
    ["icl", "ins 5 9", "ins 10 12", "del 7 7", "ins 4294967295 4294967295", "ins 0 0", "has 0 0", "ins 1 4", "has 0 6",
     "insro 13 15", "ins 1 4294967294", "has 0 4294967295", "del 0 0", "del 4294967295 4294967295", "hasp 0", "sub 3 4294967290",
     "has 1 2", "has 2 3"],
]


def classify(op, impl):
    w = op.split(" ")
    tag = w[0]
    if tag in ("pkt", "pktw"):
        tag += ":blocks=%d" % ((len(w) - 2) // 2 if len(w) > 2 and w[2] != "-" else 0)
    if tag == "segw" and len(w) >= 4:
        vis = w[2].split("E")[0]
        k = next((c for c in vis if c in "ST"), "none")
        tag += ":sack=%s:pre=%d:edges=%d" % (k, len(vis.split(k)[0]) if k != "none" else len(vis.strip(".")), len(w) - 4)
    if impl == "bad-op":
        tag += ":bad-op"
    if impl.startswith("throw"):
        tag += ":" + impl.split(" ")[1]
    if "ivs=" in impl:
        ivs = impl.split("ivs=")[1].split(" ")[0]
        if ivs:
            tag += ":sacked"
            if ivs.startswith("0-") and "-4294967295" in ivs:
                tag += ":across-wrap"
    return tag


def sig_of(kind, detail, case):
    clause = ""
    if kind == "spec":
        clause = detail.split(" ")[1]
    elif kind == "fault":
        clause = detail.split(" ")[-1]
    return {"kind": kind, "clause": clause}


def nontrivial(op, impl):
    if " card=" in impl:
        return (op.split(" ")[0], impl)
    # distinct (op kind, resulting state) pairs where something is SACKed or a query was answered
    if "ivs=" in impl and (impl.split("ivs=")[1][:1] not in ("", " ") or "acked=" in impl):
        return (op.split(" ")[0], impl.split(" grid=")[0])
    return None


def oracle_counts(chk, exe, ops):
    """how many implementation answers the spec oracle actually judged (evidence only)"""
    import collections
    impl, _ = core.run_harness_lines(exe, (), ops, CASE_START)
    spec = core.run_driver("spec", AREA, "\n".join(f"{o} ||| {i}" for o, i in zip(ops, impl)) + "\n")
    c = chk.extra.setdefault("oracle_verdicts", {})
    for (o, s_) in zip(ops, spec):
        k = o.split(" ", 1)[0] + ":" + s_.split(" ", 1)[0]
        c[k] = c.get(k, 0) + 1
    g = sum(len(i.split("grid=")[1]) for i, s_ in zip(impl, spec) if s_ == "ok" and "grid=" in i)
    chk.extra["grid_answers_judged_upper_bound"] = chk.extra.get("grid_answers_judged_upper_bound", 0) + g


def run(chk):
    from translator import gen_limits
    gen_limits.main([])          # Gen/Limits.lean: constants and limits read from the current source
    chk.trusted.append("translator/gen_limits.py (constants / limits of the source -> Gen/Limits.lean: compiled probe + "
                       "preprocessed function bodies at named anchors; tied to the model numerals by Props/Limits/C19.lean)")
    problems = chk.prove(MODULES, AUDIT, want_leanchecker=(chk.tier == "thorough"))
    problems = gen_limits.name_failures(chk, problems, "C19")   # name the tie theorems that fail
    exe, err = core.build_harness(HARNESS)
    if exe is None:
        chk.violation("implementation does not build: " + err[-1500:], ["build-error"], nofail=True)
        return
    rng = random.Random(chk.seed)
    quick = chk.tier == "quick"
    def found(stats):
        return stats.get("spec", 0) + stats.get("fault", 0)

    def batch(ops):
        st = corr.correspond(chk, AREA, exe, ops, case_start=CASE_START, classify=classify, sig_of=sig_of,
                             nontrivial=nontrivial)
        if not found(st):
            oracle_counts(chk, exe, ops)
        return st

    def batches():
        yield [l for c in CORPUS for l in c]
        isns = [M32 - 3, M32 - 1, 0, HALF - 2] if quick else [M32 - 4, M32 - 3, M32 - 2, M32 - 1, 0, 5, HALF - 2, HALF]
        yield [l for c in exhaustive_cases(4 if quick else 6, isns, 10**7) for l in c]
        for _ in range(1 if quick else 8):
            ops = []
            for i in range(6000 if quick else 12000):
                r = i % 10
                if i % 12 == 11:
                    ops += gen_icl(rng)
                elif r < 6:
                    ops += gen_conforming(rng, sack_on=(i % 37 != 0))
                elif r < 7:
                    ops += gen_window_edge(rng)
                else:
                    ops += gen_adversarial(rng)
            if not quick:
                for i in range(60):
                    ops += gen_conforming(rng, max_segs=120)
            yield ops

    import collections
    stats = collections.Counter()
    for ops in batches():
        stats += batch(ops)
        if found(stats):
            break          # a concrete failing input is on record; the remaining batches would only repeat it
    for p in problems:
        # a theorem no longer checks: the runs above were the search for a concrete failing input
        if not found(stats):
            chk.violation("proof obligation no longer checks: " + p[:1500], ["theorem-or-audit-failure", p[:4000]], nofail=True)
    chk.cov["rule"] = ("cases = (initial ACK incl. wrap-point neighbourhood, history of ACK packets with <= 4 SACK blocks "
                       "emitted by a simulated RFC 2018 receiver for a random / exhaustive arrival order, ACK loss, "
                       "queries around every interval edge / the ACK / the wrap point; ~30% of the packets go over the wire "
                       "through the reference encoder with random options around the SACK option, now and then an END octet "
                       "in front of it, an undecodable SACK option or a trailing odd edge) + non-conforming traffic (random "
                       "edges, ref-encoded segments with several / hidden / truncated SACK options, mutated byte strings: "
                       "truncation at any length, data offset, option kind / length octets, bit flips) for the model/code "
                       "tie and the any-history clause + the icl op stream; distinct_nontrivial counts distinct (op kind, tracker state) pairs with SACKed data "
                       "or an answered query")
    chk.assumptions += [
        "conforming history: cumulative ACK non-decreasing, advancing < 2^31 per observed packet; SACK blocks non-empty, "
        "strictly above the packet's ACK, ending <= ACK + 2^31; a later ACK never lies inside an earlier block",
        "queries (seq,len) are judged when the whole segment lies in the window (ACK - 2^31, ACK + 2^31) and len <= 2^31; "
        "outside it serial-number arithmetic has no meaning (Props.C19.segmentAckedAnyLength_fails: is_segment_acked(A, 2^31+1) "
        "answers true with nothing acknowledged) - such queries are compared model vs code only",
        "boost::icl::interval_set<uint32_t> satisfies Ack/Icl.lean IclContract on the operations the tracker uses: "
        "insert(closed) = point-set union, erase(closed) = point-set difference, contains(set, closed) = subset, iteration "
        "= the maximal intervals in ascending order (touching intervals of the discrete domain are joined). Proved: the "
        "contract determines every observation (interval_set_parameter_is_determined). Validated, not proved: that icl "
        "meets it (icl op stream + point-wise oracle). Observed beside the contract: icl::cardinality is computed in the "
        "domain type, the full set [0, 2^32-1] reports 0 (the tracker never asks)",
        "non-conforming traffic is outside the refinement theorems but inside the safety theorems (wire_total_any_bytes, "
        "sane_preserved_by_any_packet, is_segment_acked_any_state): SACK blocks that straddle the ACK (the branch assigning "
        "ack_number_ = interval end, which erases nothing, may leave stored intervals behind the ACK and - across the wrap "
        "point - moves the ACK number backwards: Props/C19 witnesses 1 and 3) and an ACK jumping by exactly 2^31 (nothing "
        "erased: witness 2) are compared model vs code and judged by the any-history clause only",
        "an odd number of SACK edges is not an error in libtins (only size % 4 is tested; process_sack never reads the "
        "last edge: odd_edge_count_drops_last); a SACK option of length other than 2+4k makes process_packet throw "
        "malformed_option after the cumulative ACK has been processed (wire_malformed_sack); Flow::process_packet catches it",
    ]
    chk.trusted += ["correspondence harness harness/c19_acktracker.cpp (incl. its C++ reference encoder, compared byte for byte "
                    "with Ack/Wire.lean refSegment on every segw line) + generators in checks/C19.py",
                    "g++ 12 / ASan+UBSan build of the repo's working tree", "boost::icl (system headers)"]
    chk.extra["modelled_not_proved"] = [
        "the link / network layers in front of the TCP header on the pktw path (EthernetII / IP parsing and "
        "find_pdu<TCP>) are exercised, not composed into ack_refines_wire: the theorem starts at TCP::TCP(buffer,size) "
        "(their byte-level models and safety theorems are property C01's)",
        "Flow::process_packet around the tracker (finit mode: update_state, the catch of malformed_option) is exercised "
        "here and modelled in property C07, not in the C19 theorems",
        "the wire theorems quantify over segments produced by the reference encoder (any header fields, any canonical "
        "options around at most one SACK option, <= 40 option bytes); arbitrary byte strings are covered by the safety "
        "theorem wire_total_any_bytes and by correspondence (wire op), not by a refinement statement"]
    corr.finalize_cov(chk)


def replay(path):
    exe, err = core.build_harness(HARNESS)
    if exe is None:
        print("implementation does not build:", err[-1500:])
        return 1
    ops = [l.rstrip("\n") for l in open(path) if not l.startswith("#") and l.strip()]
    impl, mod, spec, faults = corr.evaluate(AREA, exe, ops, CASE_START)
    bad = corr.first_problem(ops, impl, mod, spec)
    for o, a, b, c in zip(ops, impl, mod, spec):
        print(o[:200]); print("  impl :", a[:300]); print("  model:", b[:300]); print("  spec :", c)
    if bad:
        print(f"VIOLATION property=C19 replay={path}")
        return 1
    return 0
