"""C05 — fields libtins derives (lengths, header lengths, next-protocol tags, padding, checksums, FCS) are correct on the wire."""
import os, random, re, sys, zlib
from vlib import core, corr

AREA = "C05"
LIM = {}          # translator/gen_limits.py values of the current source, filled by run()


def rfc4884_edge():
    """original-datagram sizes around the RFC 4884 minimum as the source currently has it (every site); only values the
    literal lists do not already contain, so that on the unchanged tree the generator's random stream is what it was"""
    out = []
    for k in ("icmpMinPayload", "icmpMinPayloadTrailer", "icmpMinPayloadWrite", "icmp6MinPayloadTrailer", "icmp6MinPayloadWrite"):
        v = LIM.get(k)
        if v is not None and 8 <= v < 1400:
            out += [v - 1, v, v + 1]
    return sorted(set(out) - {127, 128, 129})


MODULES = ["TinsModel.Props.C05", "TinsModel.Props.Limits.C05"]   # + the constants / limits tied to the source (translator/gen_limits.py)
AUDIT = ["Audit/C05.lean", "Audit/WireDerived.lean", "Audit/LimitsC05.lean"]   # the second: C05 stated over the wire models of C01-C04 (Wire/Derived)
LEVEL = "proof"
HARNESS = "c05_wire"
MANIFEST = dict(
    text="Lean 4 theorems: libtins' little-endian sum_range/do_checksum equal the RFC 1071 big-endian one's-complement sum "
         "(byte-order independence) and every checksum tail (IP, TCP, UDP incl. 0->0xffff, ICMP, ICMPv6, ICMP extensions) "
         "verifies for all buffers <= 65535 bytes; the nibble-table crc32 (table regenerated from the source) equals the "
         "bitwise IEEE CRC-32. length_fields: for every stack of the code-shaped serialisation model (EthernetII, 802.1Q/QinQ, "
         "802.3, LLC, SNAP, PPPoE, MPLS, loopback, SLL, IPv4+options, IPv6+extension chain, AH, ESP, TCP+options, UDP, "
         "ICMP/ICMPv6 incl. RFC 4884 extensions, RC4 EAPOL, RadioTap +-FCS, RawPDU; any depth, any mix) an independent RFC "
         "dissector accepts the whole serialisation: every length / header-length field equals the octets it governs, every "
         "next-protocol tag names the follower, padding is zero and minimal, checksums and the RadioTap FCS verify, set "
         "values are read back (induction over the stack, one step lemma per class). The same statements are proved over the "
         "code-shaped wire models of C01-C04 (Wire/Derived: checksums in situ, lengths, tags, Ethernet padding, RadioTap "
         "it_len / FCS for every option payload, EAPOL and 802.3 lengths) and, through layer_in_packet, inside the final bytes "
         "of whole packets. Tied to the code by three-way differential runs (implementation under ASan/UBSan vs model vs RFC "
         "dissector oracle) on API-built and re-serialised parsed packets, libpcap filter predicates and a python/zlib check "
         "of RadioTap it_len / FCS.",
    note="Trusted: Lean kernel + standard axioms; hand-written models tied by correspondence (harness/c05_wire.cpp); the RFC "
         "dissector (lean/TinsModel/Checksum/Dissect.lean), libpcap and zlib as oracles; generator coverage bounds what the "
         "tie sees; little-endian host branch only. length_fields excludes, as explicit decidable predicates, the regions of "
         "KF-C05-1/2 (RFC 4884 length without padding) and KF-C05-10/11 (RFC 4884 length > 255 units stored modulo 256) and "
         "stacks the dissector cannot delimit (a class without a length field of its own inside another layer's padding).",
    technique="Lean 4 proof (arithmetic mod 65535, GF(2)-linearity of the CRC register, induction over the layer stack against "
              "the dissector's introduction rules) + model/impl correspondence + RFC dissector, libpcap and zlib oracles",
    design="DESIGN.md §6 C05")
MANIFEST["note"] += (" Constants and limits of the C++ source that the model restates (translator/gen_limits.py -> Gen/Limits.lean: "
                     "compiled probe + preprocessed function bodies at named anchors) are tied to the model's numerals by the "
                     "theorems of lean/TinsModel/Props/Limits/C05.lean (audit: Audit/LimitsC05.lean); tools/LIMITS-INVENTORY.md lists "
                     "what is tied and what is not.")

CASE_START = ("sum", "crc", "ph4", "ph6", "pkt", "pcap", "reser")


def hx(b):
    return bytes(b).hex() if len(b) else "-"


def rbytes(rng, n):
    return bytes(rng.randrange(256) for _ in range(n))


# ------------------------------------------------------------------ reference helpers (only used to *craft* inputs)
def rfc_sum(data):
    if len(data) % 2:
        data = data + b"\0"
    s = 0
    for i in range(0, len(data), 2):
        s += (data[i] << 8) | data[i + 1]
    while s >> 16:
        s = (s & 0xffff) + (s >> 16)
    return s


# ------------------------------------------------------------------ byte-string generators for sum / crc
def gen_blob(rng, big):
    style = rng.random()
    if style < 0.25:
        n = rng.choice([0, 1, 2, 3, 4, 5, 7, 8, 19, 20, 21, 39, 40, 59, 60, 61])
    elif style < 0.85:
        n = rng.randint(0, 96)
    else:
        n = rng.randint(0, big)
    fill = rng.random()
    if fill < 0.2:
        b = bytes([0xff]) * n                         # every addition carries
    elif fill < 0.3:
        b = bytes(n)
    elif fill < 0.45:
        b = bytes(rng.choice([0xff, 0xff, 0xfe, 0x00, 0x01, 0x80]) for _ in range(n))
    else:
        b = rbytes(rng, n)
    if n >= 4 and rng.random() < 0.15:
        # force the folded sum to exactly 0xffff or exactly 0x0000 + carries
        body = bytearray(b)
        body[0:2] = b"\0\0"
        s = rfc_sum(bytes(body))
        w = (0xffff - s) & 0xffff
        body[0:2] = bytes([w >> 8, w & 0xff])
        b = bytes(body)
    return b


def gen_basic_ops(rng, n, big):
    ops = []
    for _ in range(n):
        r = rng.random()
        if r < 0.5:
            ops.append("sum " + hx(gen_blob(rng, big)))
        elif r < 0.8:
            ops.append("crc " + hx(gen_blob(rng, min(big, 4096))))
        elif r < 0.9:
            ops.append(f"ph4 {hx(addr4(rng))} {hx(addr4(rng))} {rng.choice([0, 8, 20, 65535, rng.randrange(65536)])} "
                       f"{rng.choice([6, 17, 1, 255, rng.randrange(256)])}")
        else:
            ops.append(f"ph6 {hx(addr6(rng))} {hx(addr6(rng))} {rng.choice([0, 8, 20, 65535, rng.randrange(65536)])} "
                       f"{rng.choice([6, 17, 58, 255, rng.randrange(256)])}")
    return ops


# ------------------------------------------------------------------ packet generators
def addr4(rng):
    r = rng.random()
    if r < 0.15:
        return bytes([255, 255, 255, 255])
    if r < 0.3:
        return bytes([rng.choice([10, 192, 255, 1]), rng.choice([0, 255]), rng.choice([0, 255]), rng.randrange(256)])
    return bytes([rng.randint(1, 255)]) + rbytes(rng, 3)


def addr6(rng):
    r = rng.random()
    if r < 0.15:
        return bytes([0xff] * 16)
    if r < 0.3:
        return bytes([0x20, 0x01, 0x0d, 0xb8] + [0] * 11 + [rng.randrange(256)])
    return rbytes(rng, 16)


def mac(rng):
    return rbytes(rng, 6)


def typed(items):
    return ",".join(f"{t}.{d.hex()}" for t, d in items) if items else "-"


def gen_payload(rng, maxlen):
    r = rng.random()
    if r < 0.1:
        n = 0
    elif r < 0.7:
        n = rng.randint(0, min(maxlen, 64))
    elif r < 0.97:
        n = rng.randint(0, min(maxlen, 300))
    else:
        n = rng.randint(0, maxlen)
    f = rng.random()
    if f < 0.15:
        return bytes([0xff]) * n
    if f < 0.25:
        return bytes(n)
    return rbytes(rng, n)


def ip_opts(rng):
    if rng.random() < 0.6:
        return []
    out, size = [], 0
    for _ in range(rng.randint(1, 5)):
        if rng.random() < 0.4:
            t, d = rng.choice([0, 1, 1]), b""
            sz = 1
        else:
            t = rng.choice([7, 68, 130, 131, 136, 137, 148, rng.randint(2, 255)])
            if t in (0x80, 0x81):          # size/write disagreement of libtins (C02's finding), outside this property
                t = 7
            d = rbytes(rng, rng.randint(0, 9))
            sz = 2 + len(d)
        if size + sz > 40:
            break
        size += sz
        out.append((t, d))
    return with_transient(rng, out, [1, 0, 7, 68, 130, 148, 136])


def with_transient(rng, out, kinds):
    """an add / remove history behind the final option list: one or two options of a type the list does not hold are added
    in the middle of it and removed again (remove_option) before the packet is used (seeded/C05e: a cached option size
    that is wrong only after the removal of a single-byte option while other options remain)"""
    if not out or rng.random() > 0.35:
        return out
    out = list(out)
    for _ in range(rng.choice([1, 1, 2])):
        free = [k for k in kinds if all(str(t).lstrip("~") != str(k) for t, _ in out)]
        if not free:
            break
        k = rng.choice(free)
        d = b"" if k in (0, 1) else rbytes(rng, rng.choice([0, 1, 2, 4, 9]))
        out.insert(rng.randint(0, len(out)), (f"~{k}", d))
    return out


def tcp_opts(rng, allow_overflow=False):
    if rng.random() < 0.5:
        return []
    out, size = [], 0
    limit = 60 if allow_overflow else 40
    for _ in range(rng.randint(1, 8 if not allow_overflow else 16)):
        r = rng.random()
        if r < 0.35:
            t, d = rng.choice([0, 1, 1]), b""
            sz = 1
        elif r < 0.45:
            t, d, sz = 4, b"", 2            # SACK permitted: length octet, no data
        else:
            t = rng.choice([2, 3, 5, 8, 8, 19, rng.randint(2, 255)])
            if t == 4:
                t = 5
            d = rbytes(rng, rng.randint(1, 10))
            sz = 2 + len(d)
        if size + sz > limit:
            break
        size += sz
        out.append((t, d))
    return with_transient(rng, out, [1, 0, 4, 2, 3, 8, 19])


def ip6_exts(rng):
    if rng.random() < 0.6:
        return []
    out = []
    for _ in range(rng.randint(1, 3)):
        t = rng.choice([0, 43, 60, 60, 135])
        n = rng.choice([0, 1, 5, 6, 7, 8, 13, 14, 15, 22, 23, rng.randint(0, 40)])
        out.append((t, rbytes(rng, n)))
    return out


def icmp_exts(rng):
    out = []
    for _ in range(rng.randint(1, 3)):
        out.append((rng.randrange(256), rng.randrange(256), rbytes(rng, rng.choice([0, 1, 3, 4, 5, 8, rng.randint(0, 20)]))))
    return ",".join(f"{c}.{t}.{d.hex()}" for c, t, d in out)


class Gen:
    def __init__(self, rng, maxpay, tier):
        self.rng, self.maxpay, self.tier = rng, maxpay, tier

    def raw(self, maxlen=None):
        return ["raw " + hx(gen_payload(self.rng, self.maxpay if maxlen is None else maxlen))]

    def l4(self, fam):
        rng = self.rng
        r = rng.random()
        if r < 0.3:
            o = tcp_opts(rng, allow_overflow=(rng.random() < 0.05))     # > 40 octets of options: must be refused
            t = (f"tcp {rng.choice([0, 80, 65535, rng.randrange(65536)])} {rng.randrange(65536)} {rng.randrange(2**32)} "
                 f"{rng.choice([0, 2**32 - 1, rng.randrange(2**32)])} {rng.randrange(4096)} {rng.randrange(65536)} "
                 f"{rng.randrange(65536)} {typed(o)}")
            return [t] + (self.raw() if rng.random() < 0.85 else [])
        if r < 0.6:
            return [f"udp {rng.randrange(65536)} {rng.choice([53, 0, 65535, rng.randrange(65536)])}"] + \
                (self.raw() if rng.random() < 0.9 else [])
        if r < 0.8:
            return self.icmp() if fam == 4 else self.icmp6()
        if r < 0.84:
            return self.icmp6() if fam == 4 else self.icmp()       # wrong family: no pseudo header is filled in
        if r < 0.88:
            return self.ip(depth=1) if rng.random() < 0.5 else self.ip6(depth=1)
        if r < 0.92:
            icv = rbytes(rng, 4 * rng.randint(0, 5))
            return [f"ah {rng.randrange(2**32)} {rng.randrange(2**32)} {hx(icv)} {rng.randrange(256)}"] + \
                (self.l4(fam) if rng.random() < 0.6 else self.raw())
        if r < 0.95:
            return [f"esp {rng.randrange(2**32)} {rng.randrange(2**32)}"] + self.raw()
        return self.raw()

    def icmp(self):
        rng = self.rng
        kind = rng.random()
        if kind < 0.35:
            t = rng.choice([8, 0, 15, 16, 4, 5, 9, 10, rng.randrange(256)])
            if t in (3, 11, 12):
                t = 8
            ts = f"{rng.randrange(2**32)} {rng.randrange(2**32)} {rng.randrange(2**32)}"
            return [f"icmp {t} {rng.randrange(256)} {rng.randrange(65536)} {rng.randrange(65536)} {ts} 0 -"] + self.raw()
        if kind < 0.5:
            t = rng.choice([13, 14, 17, 18])
            ts = f"{rng.randrange(2**32)} {rng.randrange(2**32)} {rng.randrange(2**32)}"
            return [f"icmp {t} 0 {rng.randrange(65536)} {rng.randrange(65536)} {ts} 0 -"] + \
                (self.raw(32) if rng.random() < 0.3 else [])
        t = rng.choice([3, 11, 12])
        lenflag = 1 if rng.random() < 0.5 else 0
        exts = icmp_exts(rng) if rng.random() < 0.5 else "-"
        head = f"icmp {t} {rng.randrange(16)} 0 0 0 0 0 {lenflag} {exts}"
        # the original datagram: sizes around the RFC 4884 boundaries
        # (1017..1020 octets are the last that fit the 8-bit length field in 32-bit words: KF-C05-10 begins behind them)
        n = rng.choice([0, 1, 3, 4, 7, 8, 99, 100, 101, 107, 108, 109, 110, 127, 128, 129, 130, 131, 132, rng.randint(0, 300),
                        rng.choice([1012, 1016, 1017, 1019, 1020])] + rfc4884_edge())
        if rng.random() < 0.6 and n < 1000:
            inner = [f"ip 0 {rng.randrange(65536)} 0 0 {rng.randrange(256)} 17 {hx(addr4(rng))} {hx(addr4(rng))} {typed(ip_opts(rng))}",
                     f"udp {rng.randrange(65536)} {rng.randrange(65536)}", "raw " + hx(rbytes(rng, max(0, n - 28)))]
        else:
            inner = ["raw " + hx(rbytes(rng, n))]
        return [head] + inner

    def icmp6(self):
        rng = self.rng
        if rng.random() < 0.5:
            t = rng.choice([128, 129, 2, 4, rng.choice([100, 101, 200, 201])])
            return [f"icmp6 {t} {rng.randrange(256)} {rng.randrange(65536)} {rng.randrange(65536)} 0 -"] + self.raw()
        t = rng.choice([1, 3])
        lenflag = 1 if rng.random() < 0.5 else 0
        exts = icmp_exts(rng) if rng.random() < 0.5 else "-"
        n = rng.choice([0, 1, 7, 8, 9, 79, 80, 81, 87, 88, 89, 120, 127, 128, 129, 135, 136, 137, rng.randint(0, 300),
                        rng.choice([2024, 2032, 2033, 2039, 2040])] + rfc4884_edge())
        if rng.random() < 0.6 and n < 2000:
            inner = [f"ip6 0 0 {rng.randrange(256)} 17 {hx(addr6(rng))} {hx(addr6(rng))} -",
                     f"udp {rng.randrange(65536)} {rng.randrange(65536)}", "raw " + hx(rbytes(rng, max(0, n - 48)))]
        else:
            inner = ["raw " + hx(rbytes(rng, n))]
        return [f"icmp6 {t} {rng.randrange(8)} 0 0 {lenflag} {exts}"] + inner

    def ip(self, depth=0):
        rng = self.rng
        fo = rng.choice([0, 0, 0, 0, 1, 185, 8191])
        fl = rng.choice([0, 0, 2, 2, 1, 4, 7])
        head = (f"ip {rng.randrange(256)} {rng.randrange(65536)} {fl} {fo} {rng.randrange(256)} {rng.randrange(256)} "
                f"{hx(addr4(rng))} {hx(addr4(rng))} {typed(ip_opts(rng))}")
        if rng.random() < 0.04:
            return [head]
        return [head] + (self.l4(4) if depth == 0 else self.l4_simple())

    def ip6(self, depth=0):
        rng = self.rng
        head = (f"ip6 {rng.randrange(256)} {rng.choice([0, 2**20 - 1, rng.randrange(2**20)])} {rng.randrange(256)} "
                f"{rng.randrange(256)} {hx(addr6(rng))} {hx(addr6(rng))} {typed(ip6_exts(rng))}")
        if rng.random() < 0.04:
            return [head]
        return [head] + (self.l4(6) if depth == 0 else self.l4_simple())

    def l4_simple(self):
        rng = self.rng
        if rng.random() < 0.5:
            return [f"udp {rng.randrange(65536)} {rng.randrange(65536)}"] + self.raw(64)
        return [f"tcp {rng.randrange(65536)} {rng.randrange(65536)} {rng.randrange(2**32)} {rng.randrange(2**32)} "
                f"{rng.randrange(4096)} {rng.randrange(65536)} 0 {typed(tcp_opts(rng))}"] + self.raw(64)

    def l3(self):
        return self.ip() if self.rng.random() < 0.55 else self.ip6()

    def packet(self):
        rng = self.rng
        r = rng.random()
        if r < 0.72:
            ls = [f"eth {hx(mac(rng))} {hx(mac(rng))} {rng.choice([0, 0x0800, 0x86dd, rng.randrange(65536)])}"]
            for _ in range(rng.choice([0, 0, 0, 1, 1, 2, 3])):
                ls.append(f"dot1q {rng.randrange(8)} {rng.randrange(2)} {rng.randrange(4096)} "
                          f"{rng.choice([0, 0x0800, rng.randrange(65536)])} {rng.choice([0, 0, 1])}")
            q = rng.random()
            if q < 0.7:
                ls += self.l3()
            elif q < 0.78:
                if rng.random() < 0.5:
                    ls.append(f"pppoe 0 {rng.randrange(65536)} {rng.choice([0, 0, 5, rng.randrange(65536)])} -")
                    ls += self.raw(100)
                else:
                    # only tag types libtins' TagTypes enum can represent (others are an invalid enum load: C01/C04)
                    tags = [(rng.choice([0x0101, 0x0102, 0x0103, 0x0104, 0x0105, 0x0201, 0x0202, 0x0203, 0]),
                             rbytes(rng, rng.randint(0, 12))) for _ in range(rng.randint(1, 4))]
                    ls.append(f"pppoe {rng.choice([9, 7, 25, 101, 167])} {rng.randrange(65536)} "
                              f"{rng.choice([0, rng.randrange(65536)])} {typed(tags)}")
            elif q < 0.86:
                nl = rng.randint(1, 3)
                for i in range(nl):
                    # S is derived for the last label; on the others it is the user's (kept 0: a label the user marks as
                    # bottom of stack above another label is the user's statement, not a derived field)
                    bos = rng.randrange(2) if i == nl - 1 else 0
                    ls.append(f"mpls {rng.randrange(2**20)} {rng.randrange(8)} {bos} {rng.randrange(256)}")
                ls += self.l3() if rng.random() < 0.8 else self.raw(80)
            elif q < 0.9:
                ls.append(f"eapol {rng.randrange(65536)} {hx(rbytes(rng, rng.randint(0, 40)))}")
                if rng.random() < 0.3:
                    ls += self.raw(40)          # the EAPOL body length covers what the frame carries behind the key
            elif q < 0.92:
                ls.append(f"pppoe 0 {rng.randrange(65536)} {rng.choice([0, 5, rng.randrange(65536)])} -")   # nothing follows: length 0
            else:
                ls += self.raw(120)
            return ls
        if r < 0.78:
            ls = [f"dot3 {hx(mac(rng))} {hx(mac(rng))}"]
            if rng.random() < 0.6:
                ls.append(f"snap 3 {rng.choice([0, rng.randrange(2**24)])} {rng.choice([0, rng.randrange(65536)])}")
                for _ in range(rng.choice([0, 0, 0, 1, 2])):     # SNAP names a VLAN tag (also a stacked one) by 0x8100
                    ls.append(f"dot1q {rng.randrange(8)} {rng.randrange(2)} {rng.randrange(4096)} {rng.randrange(65536)} 0")
                ls += self.l3() if rng.random() < 0.7 else self.raw(80)
            else:
                ls.append(f"llc {rng.randrange(256)} {rng.randrange(256)}")
                ls += self.raw(80)
            return ls
        if r < 0.83:
            q = rng.random()
            inner = self.l3() if q < 0.8 else ([f"llc {rng.randrange(256)} {rng.randrange(256)}"] + self.raw(40)) if q < 0.9 else self.raw(80)
            return [f"loop {rng.choice([0, 2, 10, 26, rng.randrange(2**32)])}"] + inner
        if r < 0.88:
            head = [f"sll {rng.randrange(5)} {rng.choice([1, 772, rng.randrange(65536)])} {rng.choice([6, 0, 8])} "
                    f"{hx(rbytes(rng, 8))} {rng.choice([0, rng.randrange(65536)])}"]
            for _ in range(rng.choice([0, 0, 0, 1, 2])):
                head.append(f"dot1q {rng.randrange(8)} {rng.randrange(2)} {rng.randrange(4096)} {rng.randrange(65536)} 0")
            return head + (self.l3() if rng.random() < 0.85 else self.raw(80))
        if r < 0.93:
            return [f"radiotap {rng.choice([0, 1, 1])}"] + self.raw(200)
        return self.l3()

    def boundary_frames(self):
        """Ethernet minimum-frame boundary: inner sizes 44..48 octets, with and without 802.1Q (with/without its own padding)."""
        rng, out = self.rng, []
        # up to a few octets beyond the minimum frame size the source currently has (Gen/Limits: EthernetII / Dot1Q trailer_size)
        top = max([52] + [v - 14 + 6 for v in (LIM.get("ethMinFrame"), LIM.get("dot1qMin")) if v is not None and v < 1500])
        for n in range(0, top):
            eth = f"eth {hx(mac(rng))} {hx(mac(rng))} 0"
            out.append([eth, "raw " + hx(rbytes(rng, n))])
            for pad in (0, 1):
                out.append([eth, f"dot1q 1 0 {rng.randrange(4096)} 0 {pad}", "raw " + hx(rbytes(rng, n))])
            if n >= 28:
                out.append([eth, f"ip 0 1 0 0 64 0 {hx(addr4(rng))} {hx(addr4(rng))} -", f"udp 1 2", "raw " + hx(rbytes(rng, n - 28))])
        return out

    def udp_zero(self):
        """UDP datagrams whose computed checksum is 0 (must be sent as 0xffff), over IPv4 and IPv6."""
        rng = self.rng
        n = 2 * rng.randint(1, 20) + rng.choice([0, 1])
        pay = bytearray(rbytes(rng, n))
        sp, dp = rng.randrange(65536), rng.randrange(65536)
        ulen = 8 + n
        hdr = bytes([sp >> 8, sp & 255, dp >> 8, dp & 255, ulen >> 8, ulen & 255, 0, 0])
        if rng.random() < 0.5:
            s, d = addr4(rng), addr4(rng)
            pseudo = s + d + bytes([0, 17, ulen >> 8, ulen & 255])
            l3 = f"ip 0 {rng.randrange(65536)} 0 0 64 0 {hx(s)} {hx(d)} -"
        else:
            s, d = addr6(rng), addr6(rng)
            pseudo = s + d + bytes([0, 0, ulen >> 8, ulen & 255, 0, 0, 0, 17])
            l3 = f"ip6 0 0 64 0 {hx(s)} {hx(d)} -"
        pay[0:2] = b"\0\0"
        ssum = rfc_sum(pseudo + hdr + bytes(pay))
        w = (0xffff - ssum) & 0xffff          # make the one's-complement sum 0xffff, i.e. the checksum 0
        if ssum == 0xffff:
            w = 0
        pay[0:2] = bytes([w >> 8, w & 255])
        return [f"eth {hx(mac(rng))} {hx(mac(rng))} 0", l3, f"udp {sp} {dp}", "raw " + hx(pay)]


def known_finding_reproducers(rng):
    """every listed known finding is exercised on every run (KF-C05-1 ICMP, KF-C05-2 ICMPv6)"""
    eth = f"eth {hx(mac(rng))} {hx(mac(rng))} 0"
    ip4 = f"ip 0 1 0 0 64 0 {hx(addr4(rng))} {hx(addr4(rng))} -"
    ip6 = f"ip6 0 0 64 0 {hx(addr6(rng))} {hx(addr6(rng))} -"
    return [
        [eth, ip4, "icmp 11 0 0 0 0 0 0 1 -", "raw " + hx(rbytes(rng, 5))],                      # KF-C05-1 (known)
        [eth, ip6, "icmp6 3 0 0 0 1 -", "raw " + hx(rbytes(rng, 9))],                              # KF-C05-2 (known)
        [eth, ip4, "icmp 3 0 0 0 0 0 0 0 -", "raw " + hx(rbytes(rng, 1028))],                      # KF-C05-10 (known)
        [eth, ip4, "icmp 11 0 0 0 0 0 0 1 2.1." + rbytes(rng, 4).hex(), "raw " + hx(rbytes(rng, 1100))],   # KF-C05-10, extensions
        [eth, ip6, "icmp6 1 0 0 0 0 -", "raw " + hx(rbytes(rng, 2056))],                           # KF-C05-11 (known)
        [eth, ip6, "icmp6 3 0 0 0 1 1.1." + rbytes(rng, 4).hex(), "raw " + hx(rbytes(rng, 2100))], # KF-C05-11, extensions
        # regression cases of the fixed findings (a reintroduced defect is reported deterministically)
        [eth, f"ip6 0 0 64 0 {hx(addr6(rng))} {hx(addr6(rng))} 60.{rbytes(rng, 7).hex()},0.{rbytes(rng, 15).hex()}",
         "udp 1 2", "raw 00"],                                                                       # KF-C05-3
        [eth, "pppoe 0 7 0 -", "raw 0021" + rbytes(rng, 9).hex()],                                  # KF-C05-4
        [eth, "dot1q 0 0 5 0 0", "pppoe 0 7 0 -", "raw 0021" + rbytes(rng, 40).hex()],              # KF-C05-5
        ["sll 0 1 6 0011223344550000 0", "pppoe 0 7 0 -", "raw 0021" + rbytes(rng, 4).hex()],       # KF-C05-5
        [eth, ip6, "icmp6 3 0 0 0 1 -", "raw " + hx(rbytes(rng, 16))],                             # KF-C05-6
        [eth, ip6, "icmp6 1 0 0 0 1 -", "raw " + hx(rbytes(rng, 16))],                             # KF-C05-7
        [eth, ip6, "icmp6 1 0 0 0 0 1.1." + rbytes(rng, 4).hex(), "raw " + hx(rbytes(rng, 16))],   # KF-C05-7 with extension
        [eth, ip4, f"icmp 13 0 1 2 {rng.randrange(1, 2**32)} {rng.randrange(2**32)} {rng.randrange(2**32)} 0 -"],  # KF-C05-8
        [eth, ip4, "tcp 1 2 3 4 16 5 0 " + ",".join(["8.0102030405060708"] * 4 + ["3.0102"]), "raw aabb"],       # KF-C05-9
    ]


def plain_for_pcap(ls):
    """eth / dot1q* / ip|ip6 ..., eth / pppoe, eth / mpls+, loop / ip|ip6, sll / ip|ip6: stacks with libpcap predicates"""
    if not ls or ls[0].split(" ")[0] not in ("eth", "loop", "sll"):
        return False
    # libpcap has no `vlan` predicate on DLT_LINUX_SLL
    return not (ls[0].startswith("sll") and any(l.startswith("dot1q") for l in ls))


def gen_packet_ops(rng, n, maxpay, tier):
    g = Gen(rng, maxpay, tier)
    ops = []
    cases = []
    if tier == "thorough" or rng.random() < 1.0:
        cases += g.boundary_frames() if tier == "thorough" else rng.sample(g.boundary_frames(), 40)
    for _ in range(max(10, n // 25)):
        cases.append(g.udp_zero())
    for _ in range(n):
        cases.append(g.packet())
    cases += known_finding_reproducers(rng)
    for ls in cases:
        line = " | ".join(ls)
        ops.append("pkt " + line)
        if plain_for_pcap(ls) and rng.random() < 0.6:
            ops.append("pcap " + line)
    return ops


# ------------------------------------------------------------------ parsed packets: take serialisations, damage derived fields
def reser_ops(rng, pkt_ops, impl, limit):
    out = []
    idx = [i for i, (o, r) in enumerate(zip(pkt_ops, impl)) if o.startswith("pkt ") and r.startswith("ok bytes=")]
    rng.shuffle(idx)
    for i in idx[:limit]:
        link = pkt_ops[i].split(" ")[1]
        if link not in ("eth", "ip", "ip6", "loop", "sll", "dot3", "radiotap"):
            continue
        if rfc4884_overflow(pkt_ops[i]):        # KF-C05-10 / -11 are reproduced on the API-built packets
            continue
        w = impl[i].split(" ")
        hexs = w[1][len("bytes="):]
        if hexs == "-":
            continue
        b = bytearray(bytes.fromhex(hexs))
        layers = [x.split(":") for x in w[2][2:].split(";")]
        out.append(f"reser {link} {b.hex()}")
        # damage the checksum fields: the parser does not validate them, serialisation must recompute them
        off = 0
        dmg = bytearray(b)
        for k, h, t in layers:
            h = int(h)
            pos = {"ip": 10, "tcp": 16, "udp": 6, "icmp": 2, "icmp6": 2}.get(k)
            if pos is not None and off + pos + 2 <= len(dmg):
                dmg[off + pos] ^= rng.randrange(1, 256)
                dmg[off + pos + 1] ^= rng.randrange(256)
            off += h
        out.append(f"reser {link} {dmg.hex()}")
        # (bit flips in PPPoE tags make the parser load an out-of-range TagTypes enum value: a C01 matter)
        if rng.random() < 0.5 and len(b) > 0 and not any(k == "pppoe" for k, _, _ in layers):
            # not inside IP / TCP option areas: option kinds whose size and writer disagree in libtins (0x80/0x81 in IP,
            # empty kinds > 1 in TCP) are C02's findings and make the re-serialisation overlap its own payload
            banned, off = set(), 0
            for k, h, t in layers:
                if k in ("ip", "tcp"):
                    banned.update(range(off + 20, off + int(h)))
                    banned.add(off if k == "ip" else off + 12)          # and not the header-length nibble itself
                off += int(h)
            fl = bytearray(b)
            for _ in range(rng.randint(1, 3)):
                pos = rng.randrange(len(fl))
                if pos not in banned:
                    fl[pos] ^= 1 << rng.randrange(8)
            out.append(f"reser {link} {fl.hex()}")
    return out


# ------------------------------------------------------------------ RadioTap: crafted headers, and the FCS by zlib
RT_FIELDS = [(0, 8, 8), (1, 1, 1), (2, 1, 1), (3, 4, 2), (5, 1, 1), (6, 1, 1), (10, 1, 1), (11, 1, 1), (14, 2, 2)]  # bit, size, alignment


def craft_radiotap(rng):
    """a RadioTap header with a random set of fields (TSFT, FLAGS, RATE, CHANNEL, dBm signal / noise, TX power, antenna,
    RX flags — FLAGS after or without the 8-octet TSFT, at different alignments), FCS flag on or off, around an 802.11
    frame, with a frame check sequence that is right, wrong or missing: `reser radiotap` parses and serialises it again"""
    present, body, fcs = 0, bytearray(), rng.random() < 0.6
    chosen = [f for f in RT_FIELDS if rng.random() < 0.45]
    if rng.random() < 0.8 and all(f[0] != 1 for f in chosen):
        chosen.append(RT_FIELDS[1])
    for bit, size, align in sorted(chosen):
        present |= 1 << bit
        while (8 + len(body)) % align:
            body.append(0)
        if bit == 1:
            body.append((0x10 if fcs else 0) | rng.choice([0, 0x02, 0x04]))      # never 0x40 (bad FCS: libtins refuses those)
        else:
            body += rbytes(rng, size)
    has_flags = bool(present & 2)
    hdr = bytes([0, 0]) + (8 + len(body)).to_bytes(2, "little") + present.to_bytes(4, "little") + bytes(body)
    kind = rng.random()
    if kind < 0.35:
        frame = bytes([0xd4, 0]) + rbytes(rng, 2) + rbytes(rng, 6)                                   # ACK
    elif kind < 0.6:
        frame = bytes([0xb4, 0]) + rbytes(rng, 2) + rbytes(rng, 12)                                  # RTS
    else:
        frame = bytes([0x08, rng.choice([0, 1, 2])]) + rbytes(rng, 2) + rbytes(rng, 18) + bytes(2) + \
            bytes([0xaa, 0xaa, 3, 0, 0, 0, 8, 0]) + rbytes(rng, rng.randint(0, 40))              # data + LLC/SNAP
    out = hdr + frame
    if has_flags and fcs:
        good = zlib.crc32(frame).to_bytes(4, "little")
        out += good if rng.random() < 0.5 else rbytes(rng, 4)                                        # a wrong FCS must be recomputed
    return "reser radiotap " + out.hex()


def radiotap_view(b):
    """(it_len, FCS flag) read from a RadioTap header by the radiotap.org rules, written independently of libtins and of
    the Lean dissector: present words chained by bit 31, TSFT aligned to 8, FLAGS right behind it"""
    if len(b) < 8:
        return None
    itlen = int.from_bytes(b[2:4], "little")
    off, w = 4, int.from_bytes(b[4:8], "little")
    first = w
    while w >> 31 & 1 and off + 8 <= len(b):
        off += 4
        w = int.from_bytes(b[off:off + 4], "little")
    off += 4
    if not first >> 1 & 1:
        return itlen, False
    if first & 1:
        off = (off + 7) // 8 * 8 + 8
    return itlen, bool(off < len(b) and b[off] & 0x10)


def radiotap_fcs_check(chk, exe, ops):
    """independent check of the RadioTap derived fields on the implementation's own output: it_len is where the 802.11
    frame starts, and with the FCS flag the last four octets are zlib's CRC-32 of the frame (little-endian), without it
    nothing follows the frame"""
    ops = [o for o in ops if o.startswith("pkt radiotap ") or o.startswith("reser radiotap ")]
    impl, _ = core.run_harness_lines(exe, (), ops, CASE_START)
    n, reported = 0, corr.collections.Counter()
    for o, r in zip(ops, impl):
        m = re.match(r"ok bytes=([0-9a-f]+) L=(\S+)", r)
        if not m:
            continue
        b = bytes.fromhex(m.group(1))
        layers = [x.split(":") for x in m.group(2).split(";")]
        v = radiotap_view(b)
        hdr, trl = int(layers[0][1]), int(layers[0][2])
        inner = sum(int(h) + int(t) for _, h, t in layers[1:])
        bad = None
        if v is None or v[0] != hdr or v[0] > len(b):
            bad = f"radiotap.it_len it_len={v and v[0]} header_size={hdr}"
        elif v[1] != (trl == 4) or len(b) != hdr + inner + trl:
            bad = f"radiotap.fcs-flag flag={v[1]} trailer={trl} total={len(b)}"
        elif v[1]:
            frame = b[hdr:len(b) - 4]
            if int.from_bytes(b[-4:], "little") != zlib.crc32(frame):
                bad = f"radiotap.fcs zlib={zlib.crc32(frame):08x} got={int.from_bytes(b[-4:], 'little'):08x}"
        n += 1
        if bad and reported[bad.split(" ")[0]] < 2:       # two replays per clause are enough
            reported[bad.split(" ")[0]] += 1
            chk.violation("implementation violates the spec oracle [C05]: python/zlib " + bad, [o, "# impl:  " + r],
                          signature={"kind": "spec", "clause": bad.split(" ")[0], "op": o.split(" ")[0], "oracle": "zlib"})
    return n


# ------------------------------------------------------------------ classification / signatures
def stack_of(op):
    w = op.split(" ", 1)
    if len(w) < 2 or w[0] not in ("pkt", "pcap"):
        return ""
    return "/".join(x.strip().split(" ")[0] for x in w[1].split("|"))


def classify(op, impl):
    k = op.split(" ", 1)[0]
    if k in ("pkt", "pcap"):
        st = stack_of(op)
        tag = k + ":" + "/".join(st.split("/")[:3])
        if impl.startswith("throw"):
            tag += ":throw"
        return tag
    if k == "reser":
        return "reser:" + op.split(" ")[1] + (":throw" if impl.startswith("throw") else "")
    if k == "sum":
        n = 0 if op.endswith(" -") else (len(op) - 4) // 2
        return "sum:" + ("odd" if n % 2 else "even") + (":big" if n > 1500 else "")
    return k


def approx_size(layers):
    """size of a stack of simple layers as libtins serialises it (None when a layer is not one of the simple kinds)"""
    total = 0
    for l in layers:
        w = l.split(" ")
        k = w[0]
        if k == "raw":
            total += 0 if w[1] == "-" else len(w[1]) // 2
        elif k == "udp":
            total += 8
        elif k == "ip" and w[9] == "-":
            total += 20
        elif k == "ip6" and w[7] == "-":
            total += 40
        elif k == "tcp" and w[8] == "-":
            total += 20
        else:
            return None
    return total


def rfc4884_overflow(op):
    """does the stack hold an extensible ICMP / ICMPv6 message whose original datagram needs more than 255 length units
    (the minimal input condition of KF-C05-10 / KF-C05-11)"""
    w = op.split(" ", 1)
    if len(w) < 2 or w[0] not in ("pkt", "pcap"):
        return ""
    ls = [x.strip() for x in w[1].split("|")]
    for i, l in enumerate(ls):
        f = l.split(" ")
        if f[0] == "icmp" and f[1] in ("3", "11", "12"):
            n = approx_size(ls[i + 1:])
            if n is not None and ls[i + 1:] and (n + 3) // 4 * 4 >= 1024:
                return "icmp"
        if f[0] == "icmp6" and f[1] in ("1", "3"):
            n = approx_size(ls[i + 1:])
            if n is not None and ls[i + 1:] and (n + 7) // 8 * 8 >= 2048:
                return "icmp6"
    return ""


def sig_of(kind, detail, case):
    op = case[-1] if case else ""
    clause = ""
    if kind == "spec":
        w = detail.split(" ")
        clause = w[1] if len(w) > 1 else ""
    sig = {"kind": kind, "clause": clause, "op": op.split(" ", 1)[0]}
    if clause in ("icmp.rfc4884-length", "icmp6.rfc4884-length"):
        # `length=<words> have=<octets>`: the announced length is the octet count rounded up to the unit and the
        # alignment padding is missing (no extension structure follows)
        unit = 4 if clause.startswith("icmp.") else 8
        m = re.search(r"length=(\d+) have=(\d+)", detail)
        if m:
            ln, have = int(m.group(1)), int(m.group(2))
            sig["rfc4884_unpadded"] = bool(have % unit != 0 and ln * unit == (have + unit - 1) // unit * unit)
    if kind == "diff":
        sig["stack"] = stack_of(op)
    if kind == "spec":
        sig["rfc4884_overflow"] = rfc4884_overflow(op)
        m = re.search(r"(icmp6?)\.rfc4884-length length=(\d+) have=(\d+)", detail)
        if m and not sig["rfc4884_overflow"]:
            # a parsed packet serialised again: the stored length is the padded octet count in units, modulo 256
            unit = 4 if m.group(1) == "icmp" else 8
            units = (int(m.group(3)) + unit - 1) // unit
            if units >= 256 and int(m.group(2)) == units % 256:
                sig["rfc4884_overflow"] = m.group(1)
    return sig


def nontrivial(op, impl):
    return (op.split(" ", 1)[0], hash(op) & 0xffffffff)


def regen_tables():
    sys.path.insert(0, core.VERIF)
    from translator import gen_crc, gen_tags_c05
    gen_crc.main([])
    gen_tags_c05.main([])


def run(chk):
    regen_tables()
    from translator import gen_limits
    gen_limits.main([])          # Gen/Limits.lean: constants and limits read from the current source
    chk.trusted.append("translator/gen_limits.py (constants / limits of the source -> Gen/Limits.lean: compiled probe + "
                       "preprocessed function bodies at named anchors; tied to the model numerals by Props/Limits/C05.lean)")
    LIM.update({k: v for k, v in gen_limits.values().items() if v is not None})
    problems = chk.prove(MODULES, AUDIT, want_leanchecker=(chk.tier == "thorough"))
    problems = gen_limits.name_failures(chk, problems, "C05")   # name the tie theorems that fail
    exe, err = core.build_harness(HARNESS)
    if exe is None:
        chk.violation("implementation does not build: " + err[-1500:], ["build-error"], nofail=True)
        return
    rng = random.Random(chk.seed)
    quick = chk.tier == "quick"
    stats = corr.collections.Counter()
    # 1. checksum helpers, CRC, pseudo headers: implementation vs model vs RFC definitions
    ops = gen_basic_ops(rng, 8000 if quick else 100000, 9000 if quick else 65535)
    if not quick:
        ops += ["sum " + hx(bytes([0xff]) * n) for n in (65534, 65535, 131070, 131071)]
    stats += corr.correspond(chk, AREA, exe, ops, case_start=CASE_START, classify=classify, sig_of=sig_of, max_reports=12,
                             nontrivial=nontrivial)
    # 2. API-built packets: dissector oracle + libpcap predicates (+ model for the modelled stacks)
    pops = gen_packet_ops(rng, 8000 if quick else 120000, 1400 if quick else 4000, chk.tier)
    if not quick:
        pops += gen_packet_ops(rng, 200, 65000, chk.tier)
    modelled = [o for o in pops if o.startswith("pkt ") and is_modelled(o)]
    others = [o for o in pops if not (o.startswith("pkt ") and is_modelled(o))]
    stats += corr.correspond(chk, AREA, exe, modelled, case_start=CASE_START, classify=classify, sig_of=sig_of, max_reports=12,
                             nontrivial=nontrivial)
    stats += corr.correspond(chk, AREA, exe, others, case_start=CASE_START, classify=classify, sig_of=sig_of, max_reports=12,
                             model=False, nontrivial=nontrivial)
    # 3. parsed packets: serialisations (intact, with damaged checksums, with bit flips) parsed and serialised again
    pk = [o for o in pops if o.startswith("pkt ")]
    impl, _ = core.run_harness_lines(exe, (), pk, CASE_START)
    rops = reser_ops(rng, pk, impl, 2500 if quick else 30000)
    rt_rng = random.Random(chk.seed * 7919 + 5)          # private stream: does not shift the other generators
    rops += [craft_radiotap(rt_rng) for _ in range(300 if quick else 6000)]
    stats += corr.correspond(chk, AREA, exe, rops, case_start=CASE_START, classify=classify, sig_of=sig_of, max_reports=12,
                             model=False, nontrivial=nontrivial)
    chk.extra["radiotap_zlib_checked"] = radiotap_fcs_check(chk, exe, pops + rops)
    for p in problems:
        found = stats.get("spec", 0) + stats.get("fault", 0)
        if not found:
            chk.violation("proof obligation no longer checks: " + p[:1500], ["theorem-or-audit-failure", p[:4000]], nofail=True)
    chk.cov["rule"] = ("ops = byte strings for sum_range/do_checksum/crc32/pseudo headers; layer stacks built through the API "
                       "(Ethernet, 802.1Q/QinQ, IPv4+options, IPv6+extension chain, TCP+options, UDP, ICMP/ICMPv6 incl. RFC 4884 "
                       "extensions, PPPoE, MPLS, 802.3/LLC/SNAP, loopback, SLL, AH, ESP, EAPOL, RadioTap) incl. boundary frames "
                       "(44..48 octet payloads), UDP datagrams crafted to checksum 0, original-datagram sizes around 128 and "
                       "around the 8-bit limit of the RFC 4884 length (1017..1020 / 2033..2040 octets); "
                       "re-serialised parsed packets with damaged checksums / bit flips; crafted RadioTap headers (random "
                       "field sets, FCS right / wrong / absent); distinct_nontrivial = distinct ops")
    chk.assumptions += [
        "little-endian host (models follow TINS_IS_LITTLE_ENDIAN); big-endian branches not modelled",
        "size() == total_sz in the checksum tails (a C02 fact; observed by correspondence of the serialised bytes)",
        "packets with no inner PDU / an inner PDU libtins has no tag for keep the user-set tag: outside 'when libtins knows it'",
        "TCP/UDP/ICMPv6 not directly inside IPv4/IPv6 (e.g. behind AH) get no checksum: excluded by the property text",
        "802.3 (Dot3) frames are not padded by libtins; the 60-octet rule is checked for EthernetII only (property anchor)",
        "libpcap predicates only for eth/802.1Q*/IP(v6) stacks with fragment offset 0 and no IPv6 extension headers",
        "SNAP / SLL name a VLAN tag by 0x8100 also when a second tag follows (0x88A8 is derived by EthernetII only); the "
        "EAPOL body length covers the stack carried behind the key; an AH ICV is a whole number of 32-bit words",
        "the RFC 4884 length octet is only switched on (use_length_field) on the extensible message types; elsewhere it is "
        "part of the identifier the user set",
    ]
    chk.trusted += ["correspondence harness harness/c05_wire.cpp + generators in checks/C05.py",
                    "RFC dissector lean/TinsModel/Checksum/Dissect.lean (oracle), libpcap pcap_compile/pcap_offline_filter (oracle), "
                    "python zlib.crc32 + radiotap_view in checks/C05.py (oracle for RadioTap it_len / FCS)",
                    "translator/gen_crc.py (CRC table extraction)",
                    "g++ 12 / ASan+UBSan build of the repo's working tree"]
    chk.extra["modelled_not_proved"] = MODELLED_NOT_PROVED
    corr.finalize_cov(chk)


MODELLED_NOT_PROVED = [
    "stacks outside `delimited` (Checksum/Walk/Defs.lean): a class without a length field of its own (EthernetII, padded "
    "802.1Q, ICMP, ICMPv6, 802.3, RadioTap, TCP under a pseudo header) inside another layer's zero padding, RFC 4884 "
    "extensions without an original datagram or on a message type that is not extensible, PPPoE session packets with tags / "
    "discovery packets with a payload, a top-level MPLS label: the RFC dissector cannot delimit them (not generated either)",
    "the regions of the known findings KF-C05-1/2 (rfc4884Unpadded) and KF-C05-10/11 (rfc4884Overflow): refuted on a witness "
    "each (length_fields_full_fails, length_fields_outside_unpadded_fails)",
    "RadioTap objects other than the default-constructed one in the C05 serialisation model: the wire model covers every "
    "option payload (wire_radiotap_it_len / wire_radiotap_fcs); crafted headers are tied by `reser radiotap` + oracle + zlib",
    "re-serialised parsed packets (`reser`): RFC dissector in non-strict mode + zlib as oracles; the theorems over them are "
    "the wire-model ones (Wire/Derived, packet_*), not length_fields",
    "LLC frames other than LLC(dsap, ssap) in information format (supervisory / unnumbered formats, information fields)",
]
# layer kinds of Serialize.lean (the Lean model answers `unmodelled` for option lists whose size/write libtins computes
# inconsistently — C02's findings — and those cases are then compared against the oracle only)
MODELLED_KINDS = {"eth", "dot1q", "ip", "ip6", "tcp", "udp", "icmp", "icmp6", "raw", "pppoe", "mpls", "dot3", "snap",
                  "loop", "sll", "ah", "esp", "llc", "eapol", "radiotap"}


def is_modelled(op):
    return all(k in MODELLED_KINDS for k in stack_of(op).split("/"))


def replay(path):
    regen_tables()
    core.lake_build(MODULES + ["tinsdriver"])
    exe, err = core.build_harness(HARNESS)
    ops = [l.rstrip("\n") for l in open(path) if not l.startswith("#") and l.strip()]
    bad = None
    for o in ops:
        use_model = not (o.startswith("pcap") or o.startswith("reser")) and (not o.startswith("pkt ") or is_modelled(o))
        impl, mod, spec, faults = corr.evaluate(AREA, exe, [o], CASE_START, model=use_model)
        print(o[:400]); print("  impl :", impl[0][:600])
        if mod:
            print("  model:", mod[0][:600])
        print("  spec :", spec[0])
        bad = bad or corr.first_problem([o], impl, mod, spec)
    if bad:
        print(f"VIOLATION property=C05 replay={path}")
        return 1
    return 0
