"""C10 — DNS messages stay coherent under parsing, editing and name compression."""
import itertools, random, socket, struct
from vlib import core, corr

AREA = "C10"
MODULES = ["TinsModel.Props.C10", "TinsModel.Props.Limits.C10"]   # + the constants / limits tied to the source (translator/gen_limits.py)
AUDIT = ["Audit/C10.lean", "Audit/LimitsC10.lean"]
LEVEL = "proof"
HARNESS = "c10_dns"
HARNESS_FLAGS = ["-fno-access-control"]          # the harness prints records_data_ and the three section offsets
CASE_START = ("new", "parse", "soa")
MANIFEST = dict(
    text="Lean 4 theorems over a code-shaped, fault-explicit executable model of Tins::DNS (constructor index "
         "computation, compose_name, convert_records, the four section getters, encode_domain_name, add_query, "
         "add_record, update_records, update_dname, serialization, and the typed SOA accessor soa_record::init / decode_domain_name / "
         "soa_record::serialize): memory safety of getters and edits on every "
         "object state; refinement of the four sections under any history of insertions, serialize/re-parse and header counts "
         "for fresh objects, uncompressed reference encodings AND every stored message with name compression that the decidable "
         "predicate wfMsg accepts (layout of the four sections, every pointer designates a label boundary of a stored name in no "
         "later section, every name resolves within the caps): pointers_preserved (update_records re-targets exactly the pointers "
         "whose target moves; every question / owner / data name resolves to the same labels and is read as the same text after ANY "
         "insertion), sections_refine_wf, reparse_sections_compressed, and sections_refine_compressed_holds for the Lean reference "
         "compressor (suffix-table invariant, refCompress_wf); compose_name sound and complete for RFC 1035 resolutions "
         "within the caps; pointer loops / out-of-range pointers rejected by every getter (getters_reject_unresolvable). Outside wfMsg two witnesses of silently changed names on "
         "accepted messages (KF-C10-12 forward pointer into a later section, KF-C10-13 pointer into opaque record data). Tied to the "
         "code by differential correspondence on random and exhaustive edit histories over fresh, reference-encoded (with and "
         "without compression), hand-assembled compressed (pointer targets at / next to every section offset and 12 octets off, "
         "pointer chains up to and past the jump cap, 253..259-octet names through pointers, compressed SOA/MX data followed by "
         "records) and hostile messages under ASan/UBSan, and by the Lean spec oracle evaluated on the implementation's own output "
         "(for EVERY accepted message that wfMsg accepts the following insertions must extend what the getters showed).",
    note="Trusted: Lean kernel + standard axioms; hand-written model tied by correspondence (harness/c10_dns.cpp); "
         "inet_pton/inet_ntop are external (the generator supplies inet_pton's result, AAAA text is compared as the "
         "address it parses to); the Python reference encoder and the hand assembler (class Raw) in checks/C10.py; generator "
         "coverage bounds what the tie sees. (The Lean reference compressor refCompress is proved to produce accepted, "
         "well-formed messages that are read back as the content: refCompress_wf; the Python encoder is checked per message by the "
         "oracle's wfMsg.)",
    technique="Lean 4 proof (layout relation + pointer-target invariant + transport of layout / names / views under the "
              "insertion, refinement over edit histories, fault-explicit safety) + model/impl correspondence + spec oracle",
    design="DESIGN.md §6 C10")
MANIFEST["note"] += (" Constants and limits of the C++ source that the model restates (translator/gen_limits.py -> Gen/Limits.lean: "
                     "compiled probe + preprocessed function bodies at named anchors) are tied to the model's numerals by the "
                     "theorems of lean/TinsModel/Props/Limits/C10.lean (audit: Audit/LimitsC10.lean); tools/LIMITS-INVENTORY.md lists "
                     "what is tied and what is not.")

T_A, T_NS, T_CNAME, T_SOA, T_PTR, T_MX, T_TXT, T_AAAA, T_SRV, T_DNAM, T_OPT = 1, 2, 5, 6, 12, 15, 16, 28, 33, 39, 41
NAME_TYPES = (T_NS, T_CNAME, T_PTR, T_DNAM)


def hexs(b):
    return bytes(b).hex() if b else "-"


# ------------------------------------------------------------------------------------------ abstract records

class Rec:
    """abstract resource record: owner labels, type, class, ttl and typed data
       kind: 'a' (4 bytes) | 'aaaa' (16 bytes) | 'name' (labels) | 'mx' (pref, labels) | 'soa' (m, r, tail20) | 'raw'"""

    def __init__(self, owner, rtype, cls, ttl, kind, data):
        self.owner, self.rtype, self.cls, self.ttl, self.kind, self.data = owner, rtype, cls, ttl, kind, data

    def name_sites(self):
        return {"name": [self.data], "mx": [self.data[1]], "soa": [self.data[0], self.data[1]]}.get(self.kind, [])


def text_of(labels):
    return b".".join(labels)


def wire_name(labels):
    return b"".join(bytes([len(l)]) + l for l in labels) + b"\0"


def view_q(q):
    return f"{hexs(text_of(q[0]))}:{q[1]}:{q[2]}"


def view_rec(r):
    """what the section getter must hand out, in the harness's canonical format"""
    pref = 0
    if r.kind == "a":
        d = "s." + hexs(".".join(str(x) for x in r.data).encode())
    elif r.kind == "aaaa":
        d = "6." + hexs(r.data)
    elif r.kind == "name":
        d = "s." + hexs(text_of(r.data))
    elif r.kind == "mx":
        pref = r.data[0]
        d = "s." + hexs(text_of(r.data[1]))
    elif r.kind == "soa":
        d = "s." + hexs(wire_name(r.data[0]) + wire_name(r.data[1]) + r.data[2])
    else:
        d = "s." + hexs(r.data)
    return f"{hexs(text_of(r.owner))}:{r.rtype}:{r.cls}:{r.ttl}:{pref}:{d}"


def add_op(sec, r, rng=None, addr_text=None):
    """the API call inserting abstract record r into section sec ('a' answer, 'u' authority, 'd' additional)"""
    pref, aux = (rng.choice([0, 0, 7, 65535]) if rng else 0), "-"
    if r.kind == "a":
        data = addr_text if addr_text is not None else ".".join(str(x) for x in r.data).encode()
        aux = pton(socket.AF_INET, data)
    elif r.kind == "aaaa":
        data = addr_text if addr_text is not None else socket.inet_ntop(socket.AF_INET6, bytes(r.data)).encode()
        aux = pton(socket.AF_INET6, data)
    elif r.kind == "name":
        data = text_of(r.data)
    elif r.kind == "mx":
        pref, data = r.data[0], text_of(r.data[1])
    elif r.kind == "soa":
        data = wire_name(r.data[0]) + wire_name(r.data[1]) + r.data[2]
    else:
        data = r.data
    return f"add{sec} {hexs(text_of(r.owner))} {r.rtype} {r.cls} {r.ttl} {pref} {hexs(data)} {aux}"


def pton(fam, text):
    """inet_pton as libtins calls it (on the C string), as `4.<hex>` / `6.<hex>` / `x`"""
    t = bytes(text).split(b"\0")[0]
    try:
        a = socket.inet_pton(fam, t.decode("latin-1"))
    except (OSError, ValueError, UnicodeError):
        return "x"
    return ("4." if fam == socket.AF_INET else "6.") + a.hex()


# ------------------------------------------------------------------------------------------ reference encoder

class Encoder:
    """RFC 1035 §4.1 encoder, independent of libtins.  mode: 'none' | 'full' | 'mixed' (per-site coin flip)"""

    def __init__(self, mode, rng):
        self.mode, self.rng = mode, rng
        self.buf = bytearray()
        self.table = {}          # suffix (tuple of labels) -> (message offset, jumps needed to resolve from there)
        self.max_jumps = 0

    def name(self, labels, allow=True):
        use = allow and (self.mode == "full" or (self.mode == "mixed" and self.rng.random() < 0.7))
        pending = []
        jumps = 0
        for i in range(len(labels)):
            suf = tuple(labels[i:])
            if use and suf in self.table:
                off, j = self.table[suf]
                self.buf += struct.pack(">H", 0xC000 | off)
                jumps = j + 1
                break
            off = 12 + len(self.buf)
            if off < 0x4000:
                pending.append((suf, off))
            self.buf += bytes([len(labels[i])]) + labels[i]
        else:
            self.buf.append(0)
        for suf, off in pending:
            self.table.setdefault(suf, (off, jumps))
        self.max_jumps = max(self.max_jumps, jumps)

    def question(self, q):
        self.name(q[0])
        self.buf += struct.pack(">HH", q[1], q[2])

    def record(self, r):
        self.name(r.owner)
        self.buf += struct.pack(">HHI", r.rtype, r.cls, r.ttl)
        lenpos = len(self.buf)
        self.buf += b"\0\0"
        if r.kind in ("a", "aaaa", "raw"):
            self.buf += bytes(r.data)
        elif r.kind == "name":
            self.name(r.data)
        elif r.kind == "mx":
            self.buf += struct.pack(">H", r.data[0])
            self.name(r.data[1])
        elif r.kind == "soa":
            self.name(r.data[0])
            self.name(r.data[1])
            self.buf += r.data[2]
        struct.pack_into(">H", self.buf, lenpos, len(self.buf) - lenpos - 2)


def encode_message(rng, mode, qs, an, au, ad, ident=None):
    e = Encoder(mode, rng)
    for q in qs:
        e.question(q)
    for r in an + au + ad:
        e.record(r)
    hdr = struct.pack(">HHHHHH", rng.randrange(65536) if ident is None else ident,
                      rng.choice([0, 0x8180, 0x8583, 0x0100]), len(qs), len(an), len(au), len(ad))
    return hdr + bytes(e.buf), e.max_jumps


def parse_op(wire, qs, an, au, ad, specified=True):
    if not specified:
        return f"parse {hexs(wire)}"
    def lst(xs):
        return "[" + ",".join(xs) + "]"
    return (f"parse {hexs(wire)} @V Q={lst([view_q(q) for q in qs])} AN={lst([view_rec(r) for r in an])} "
            f"AU={lst([view_rec(r) for r in au])} AD={lst([view_rec(r) for r in ad])}")


# ------------------------------------------------------------------------------------------ generators

LDH = b"abcdefghijklmnopqrstuvwxyz0123456789-"
ANY_OCTET = [c for c in range(1, 256) if c != 46]
WORDS = [b"www", b"example", b"com", b"net", b"org", b"mail", b"ns1", b"ns2", b"a", b"b", b"xn--p1ai", b"_tcp",
         b"in-addr", b"arpa", b"ip6", b"co", b"uk", b"gtld-servers", b"hostmaster", b"x" * 63]


def gen_label(rng):
    r = rng.random()
    if r < 0.6:
        return rng.choice(WORDS)
    if r < 0.85:
        return bytes(rng.choice(LDH) for _ in range(rng.choice([1, 1, 2, 3, 7, 15, 62, 63, rng.randint(1, 63)])))
    # any octet a textual name can express (no '.', no NUL), high-bit bytes included
    return bytes(rng.choice(ANY_OCTET) for _ in range(rng.choice([1, 2, 5, 63])))


def fit_name(labels):
    """trim to at most 255 octets on the wire"""
    out, size = [], 1
    for l in labels:
        if size + 1 + len(l) > 255:
            break
        out.append(l)
        size += 1 + len(l)
    return out


def gen_name(rng, pool=None):
    r = rng.random()
    if pool and r < 0.45:
        base = rng.choice(pool)
        k = rng.randint(0, len(base))
        return fit_name([gen_label(rng) for _ in range(rng.choice([0, 1, 1, 2]))] + list(base[k:]))
    if r < 0.5:
        return []                                                       # the root
    if r < 0.56:                                                        # ip6.arpa: 34 labels
        return [bytes([rng.choice(b"0123456789abcdef")]) for _ in range(32)] + [b"ip6", b"arpa"]
    if r < 0.62:                                                        # many one-octet labels (up to 127)
        return fit_name([bytes([rng.choice(LDH)]) for _ in range(rng.choice([31, 32, 33, 64, 126, 127]))])
    if r < 0.66:                                                        # as long as a name can be
        return fit_name([gen_label(rng) for _ in range(200)] if rng.random() < 0.5 else [b"y" * 63] * 3 + [b"z" * 61])
    return fit_name([gen_label(rng) for _ in range(rng.choice([1, 2, 2, 3, 3, 4, 6]))])


def gen_rec(rng, pool, rtype=None):
    owner = gen_name(rng, pool)
    pool.append(owner)
    t = rtype if rtype is not None else rng.choice([T_A, T_AAAA, T_NS, T_CNAME, T_PTR, T_MX, T_SOA, T_TXT, T_DNAM,
                                                    T_OPT, T_SRV, rng.randrange(65536)])
    cls = rng.choice([1, 1, 1, 3, 255, 0, 65535, 4096])
    ttl = rng.choice([0, 10, 300, 86400, 2**31, 2**32 - 1, rng.randrange(2**32)])
    if t == T_A:
        return Rec(owner, t, cls, ttl, "a", bytes(rng.choice([0, 1, 9, 10, 99, 100, 199, 200, 255]) for _ in range(4)))
    if t == T_AAAA:
        a = bytes(rng.randrange(256) for _ in range(16))
        if rng.random() < 0.5:
            a = bytes(rng.choice([0, 0, 0, 1, 0xff, rng.randrange(256)]) for _ in range(16))
        return Rec(owner, t, cls, ttl, "aaaa", a)
    if t in NAME_TYPES:
        n = gen_name(rng, pool); pool.append(n)
        return Rec(owner, t, cls, ttl, "name", n)
    if t == T_MX:
        n = gen_name(rng, pool); pool.append(n)
        return Rec(owner, t, cls, ttl, "mx", (rng.choice([0, 1, 10, 65535, rng.randrange(65536)]), n))
    if t == T_SOA:
        m = gen_name(rng, pool); pool.append(m)
        rn = gen_name(rng, pool + [m])
        return Rec(owner, t, cls, ttl, "soa", (m, rn, bytes(rng.randrange(256) for _ in range(20))))
    n = rng.choice([0, 1, 2, 4, 11, 16, 40, 255, 256, rng.randint(0, 600)])
    return Rec(owner, t, cls, ttl, "raw", bytes(rng.randrange(256) for _ in range(n)))


def gen_q(rng, pool):
    n = gen_name(rng, pool)
    pool.append(n)
    # DNS::query keeps type/class in plain enums: only 0..63 / 0..255 are values of those types (see KF-C10-1)
    return (n, rng.choice([1, 28, 15, 12, 63, 0, rng.randrange(64)]), rng.choice([1, 1, 3, 255, 0, rng.randrange(256)]))


ILLEGAL_TEXT = [b"a..b", b".", b"..", b".a", b"a.", b"a.b.", b"x" * 64, b"x" * 70 + b".com", b"x" * 192 + b".y",
                b"x" * 200, b"x" * 255, b"x" * 256 + b".z", b"x" * 300, b"a\0b.c", b"\0", b".".join([b"y" * 63] * 5),
                b".".join([b"ab"] * 120), b"x" * 193, b"x" * 64 + b".\xc0\x0c"]
BAD_V4 = [b"1.2.3", b"256.1.1.1", b"01.2.3.4", b"abc", b"", b"1.2.3.4.5", b"1.2.3.4 ", b"1.2.3.4\0x", b"::1", b"1..2.3"]
BAD_V6 = [b"1.2.3.4", b":::", b"12345::", b"", b"g::1", b"1:2:3:4:5:6:7", b"::1\0zz", b"::ffff:1.2.3.4", b"1::2::3"]


def gen_edit(rng, pool, sec=None, legal_only=False):
    """one insertion op (mostly a legal record; sometimes arguments outside the specified fragment)"""
    sec = sec or rng.choice("qaud")
    r = rng.random()
    if sec == "q":
        if r < 0.12 and not legal_only:
            return f"addq {hexs(rng.choice(ILLEGAL_TEXT))} {rng.randrange(64)} 1"
        q = gen_q(rng, pool)
        return f"addq {hexs(text_of(q[0]))} {q[1]} {q[2]}"
    if r < 0.07 and not legal_only:          # illegal owner / data name
        rec = gen_rec(rng, pool)
        op = add_op(sec, rec, rng).split(" ")
        if rec.kind in ("name", "mx") and rng.random() < 0.5:
            op[6] = hexs(rng.choice(ILLEGAL_TEXT))
        else:
            op[1] = hexs(rng.choice(ILLEGAL_TEXT))
        return " ".join(op)
    if r < 0.12 and not legal_only:          # address text that inet_pton rejects / accepts in another spelling
        if rng.random() < 0.5:
            rec = gen_rec(rng, pool, T_A)
            return add_op(sec, rec, rng, addr_text=rng.choice(BAD_V4))
        rec = gen_rec(rng, pool, T_AAAA)
        return add_op(sec, rec, rng, addr_text=rng.choice(BAD_V6))
    if r < 0.15 and not legal_only:          # SOA data that is not two names + 20 octets
        rec = gen_rec(rng, pool, T_SOA)
        op = add_op(sec, rec, rng).split(" ")
        raw = bytes.fromhex(op[6])
        op[6] = hexs(rng.choice([raw[:-1], raw[:5], b"\xc0\x0c" + raw, raw + b"\1", b"", b"\x05ab"]))
        return " ".join(op)
    return add_op(sec, gen_rec(rng, pool), rng)


def gen_sections(rng, pool, maxn):
    nq = rng.choice([0, 1, 1, 1, 2])
    counts = [rng.choice([0, 0, 1, 1, 2, 3, rng.randint(0, maxn)]) for _ in range(3)]
    qs = [gen_q(rng, pool) for _ in range(nq)]
    secs = [[gen_rec(rng, pool) for _ in range(c)] for c in counts]
    return qs, secs[0], secs[1], secs[2]


def gen_case(rng, maxn=4, maxedits=6):
    pool = [[b"example", b"com"], [b"ns1", b"example", b"com"]]
    r = rng.random()
    if r < 0.3:
        ops = ["new"]
    else:
        qs, an, au, ad = gen_sections(rng, pool, maxn)
        mode = rng.choice(["none", "full", "full", "mixed", "mixed"])
        wire, jumps = encode_message(rng, mode, qs, an, au, ad)
        ops = [parse_op(wire, qs, an, au, ad, specified=(jumps <= 31))]
    n = rng.choice([0, 1, 2, 3, rng.randint(0, maxedits)])
    for _ in range(n):
        ops.append(gen_edit(rng, pool))
        if rng.random() < 0.12:
            ops.append("reparse")
    ops.append("reparse")
    if rng.random() < 0.5:
        ops.append("soas")
    if rng.random() < 0.3:
        ops.append(gen_edit(rng, pool, legal_only=True))
        ops.append("ser")
    return ops


def realistic_case(rng):
    """a response as resolvers send it (question + answers + NS authority + glue, SOA for NXDOMAIN), fully compressed,
       then insertions into every section — the situation where pointer offsets have to be rewritten"""
    tld = rng.choice([b"com", b"io", b"de", b"co"])
    dom = [rng.choice([b"example", b"a", b"ab", b"libtins", b"x" * 20]), tld]
    host = [rng.choice([b"www", b"w", b"mail"])] + dom
    qs = [(host, rng.choice([1, 28, 15]), 1)]
    an = [Rec(host, T_CNAME, 1, 60, "name", [b"cdn"] + dom), Rec([b"cdn"] + dom, T_A, 1, 60, "a", bytes([10, 0, 0, 1]))]
    an = an[:rng.randint(0, 2)]
    au = [Rec(dom, T_NS, 1, 3600, "name", [b"ns%d" % i] + dom) for i in range(rng.randint(0, 3))]
    if rng.random() < 0.4:
        au = [Rec(dom, T_SOA, 1, 900, "soa", ([b"ns1"] + dom, [b"hostmaster"] + dom, struct.pack(">IIIII", 1, 2, 3, 4, 5)))]
    if rng.random() < 0.3:
        au.append(Rec([tld], T_NS, 1, 1, "name", [b"a", b"gtld-servers", b"net"]))
    ad = [Rec([b"ns%d" % i] + dom, rng.choice([T_A, T_AAAA]), 1, 3600, "a", bytes([192, 0, 2, i])) for i in range(rng.randint(0, 2))]
    for r in ad:
        if r.rtype == T_AAAA:
            r.kind, r.data = "aaaa", bytes(range(16))
    if rng.random() < 0.3:
        ad.append(Rec([], T_OPT, 4096, 0, "raw", b""))
    if rng.random() < 0.3:
        ad.append(Rec(dom, T_MX, 1, 5, "mx", (10, [b"mail"] + dom)))
    wire, jumps = encode_message(rng, "full", qs, an, au, ad)
    ops = [parse_op(wire, qs, an, au, ad)]
    pool = [dom, host]
    for _ in range(rng.randint(1, 5)):
        ops.append(gen_edit(rng, pool, legal_only=True))
    ops.append("reparse")
    ops.append("soas")
    return ops


def chain_case(rng, depth):
    """record k's owner is one label + a pointer to record k-1's owner: resolving it takes k jumps"""
    an, name = [], []
    for k in range(depth):
        name = [b"l%d" % k] + name
        an.append(Rec(list(name), T_A, 1, k, "a", bytes([1, 2, 3, k % 256])))
    wire, jumps = encode_message(rng, "full", [], an, [], [])
    ops = [parse_op(wire, [], an, [], [], specified=(jumps <= 31))]
    ops.append(add_op("a", an[0]))
    ops.append("reparse")
    return ops


# -- hand-assembled compressed messages: every name is literal labels followed by a terminator or by a pointer to a CHOSEN
#    label boundary (of a question name, an owner name, a name inside record data, a terminator, another pointer), so
#    that pointer targets sit exactly where the theorems of Props.C10 §6 have their case distinctions

LAST_RAW = None


class Raw:
    def __init__(self):
        self.buf = bytearray()
        self.exp = {}                    # message offset of a label boundary -> (expanded labels, jumps needed from there)
        self.secs = {"q": [], "an": [], "au": [], "ad": []}
        self.max_jumps = 0
        self.max_wire = 0

    def off(self):
        return 12 + len(self.buf)

    def name(self, spec):
        """spec = (labels, target message offset or None); returns the expanded labels"""
        labels, target = spec
        tail, j = ((), 0) if target is None else (self.exp[target][0], self.exp[target][1] + 1)
        pos = []
        for l in labels:
            pos.append(self.off())
            self.buf += bytes([len(l)]) + l
        end = self.off()
        self.buf += b"\0" if target is None else struct.pack(">H", 0xC000 | target)
        full = tuple(labels) + tuple(tail)
        for i, p in enumerate(pos):
            self.exp[p] = (full[i:], j)
        self.exp[end] = (tuple(tail), j)
        self.max_jumps = max(self.max_jumps, j)
        self.max_wire = max(self.max_wire, len(wire_name(full)))
        return list(full)

    def question(self, spec, qtype=1, qcls=1):
        n = self.name(spec)
        self.buf += struct.pack(">HH", qtype, qcls)
        self.secs["q"].append((n, qtype, qcls))

    def record(self, sec, owner, rtype, kind, data, cls=1, ttl=7):
        o = self.name(owner)
        self.buf += struct.pack(">HHI", rtype, cls, ttl)
        lenpos = len(self.buf)
        self.buf += b"\0\0"
        if kind in ("a", "aaaa", "raw"):
            self.buf += bytes(data)
            d = bytes(data)
        elif kind == "name":
            d = self.name(data)
        elif kind == "mx":
            self.buf += struct.pack(">H", data[0])
            d = (data[0], self.name(data[1]))
        else:
            m = self.name(data[0])
            r = self.name(data[1])
            self.buf += data[2]
            d = (m, r, data[2])
        struct.pack_into(">H", self.buf, lenpos, len(self.buf) - lenpos - 2)
        self.secs[sec].append(Rec(o, rtype, cls, ttl, kind, d))

    def boundaries(self):
        return sorted(self.exp)

    def ops(self, specified=True, getter=None):
        q, an, au, ad = (self.secs[k] for k in ("q", "an", "au", "ad"))
        wire = struct.pack(">HHHHHH", 0x4242, 0x8180, len(q), len(an), len(au), len(ad)) + bytes(self.buf)
        if getter:
            return [f"parse {hexs(wire)} @E {getter}"]
        return [parse_op(wire, q, an, au, ad, specified=specified)]


def edits_everywhere(rng, pool, n=None):
    """legal insertions into every section (and questions), each followed now and then by a re-parse"""
    ops = []
    order = list("qaud") + [rng.choice("qaud") for _ in range(rng.randint(0, 3) if n is None else n)]
    rng.shuffle(order)
    for s in order:
        ops.append(gen_edit(rng, pool, s, legal_only=True))
        if rng.random() < 0.2:
            ops.append("reparse")
    ops += ["reparse", "soas"]
    return ops


def threshold_case(rng, delta=None):
    """names whose label boundaries sit at / next to every section offset, at the same distances shifted by the 12
       header octets (message offsets vs. offsets into records_data_), probed by a bare pointer from behind every
       insertion point; SOA / MX data with pointers followed by further records"""
    w = Raw()
    L = lambda: bytes(rng.choice(LDH) for _ in range(rng.choice([1, 1, 2, 3, 5])))
    F = lambda: bytes(rng.choice(LDH) for _ in range(rng.choice([1, 2, 10, 11, 12])))   # next boundary 11..13 octets on
    w.question(([L(), L(), b"c"], None))
    q0 = 12
    # answers: the last one ends in a name (its terminator is the last octet in front of authority_idx_)
    w.record("an", ([F()], q0), T_A, "a", bytes([10, 0, 0, 1]))
    if delta is not None:
        # a literal name, then opaque data sized so that a boundary of that name sits `delta` octets in front of the next section
        w.record("an", ([], None), T_NS, "name", ([b"pq", L()], None))
        last = max(w.exp)                      # terminator of that name
        pad = delta - (w.off() - (last - 3)) - 11
        if pad >= 0:
            w.record("an", ([], None), T_TXT, "raw", bytes(pad))
    if rng.random() < 0.7:
        w.record("an", ([L()], q0), T_NS, "name", ([L(), b"yz"], rng.choice([None, q0])))
    # authority: starts with a fully written-out owner; SOA with both names compressed, then more records
    w.record("au", ([F(), b"bc", L()], None), T_NS, "name", ([b"ns"], q0))
    bs = w.boundaries()
    w.record("au", ([], rng.choice(bs)), T_SOA, "soa", (([b"m"], rng.choice(bs)), ([b"h"], rng.choice(bs)), bytes(range(20))))
    w.record("au", ([L()], rng.choice(w.boundaries())), T_NS, "name", ([], rng.choice(w.boundaries())))
    # additional: MX with a compressed exchange, then one probe per label boundary of the message
    w.record("ad", ([F(), L()], None), T_MX, "mx", (rng.choice([0, 10, 65535]), ([b"mx"], rng.choice(w.boundaries()))))
    for i, b in enumerate(w.boundaries()):
        if w.exp[b][1] >= 30:
            continue
        k = i % 4
        if k == 0:
            w.record("ad", ([], b), T_A, "a", bytes([1, 2, 3, i % 256]))
        elif k == 1:
            w.record("ad", ([b"p%d" % i], b), T_CNAME, "name", ([], b))
        elif k == 2:
            w.record("ad", ([], b), T_MX, "mx", (i, ([b"e"], b)))
        else:
            w.record("ad", ([], None), T_PTR, "name", ([b"r"], b))
    # the same bare pointer as owner of two records with an owner of another form in between (seeded/C10d)
    for _ in range(2):
        b = rng.choice([x for x in w.boundaries() if w.exp[x][1] < 30])
        w.record("ad", ([], b), T_A, "a", bytes([7, 7, 7, 7]))
        w.record("ad", ([L()], rng.choice([b, None])), T_A, "a", bytes([8, 8, 8, 8]))
        w.record("ad", ([], b), T_AAAA, "aaaa", bytes(range(16)))
    ok = w.max_jumps <= 31 and w.max_wire <= 255
    global LAST_RAW
    LAST_RAW = w
    return w.ops(specified=ok) + edits_everywhere(rng, [[b"c"], [b"bc", b"c"]])


def pointer_chain_case(rng, depth, where):
    """a chain of `depth` bare pointers (each designates the previous pointer), through owner names ('own') or through
       names inside record data ('data'): resolving the last one takes `depth` jumps (31 is the most compose_name follows)"""
    w = Raw()
    w.question(([b"ab", b"c"], None))
    prev = 12
    for k in range(depth):
        here = w.off()
        sec = "an" if k < depth // 2 else "au"
        if where == "own":
            w.record(sec, ([], prev), T_A, "a", bytes([9, 9, 9, k % 256]))
            prev = here
        else:
            w.record(sec, ([b"o"], 12), T_NS, "name", ([], prev))
            prev = w.off() - 2
    w.record("ad", ([b"z"], prev), T_MX, "mx", (1, ([], prev)))
    if w.max_jumps > 31:                                  # the MX record needs depth + 1 jumps: additional() has to report it
        return w.ops(getter="AD") + edits_everywhere(rng, [[b"ab", b"c"]])
    return w.ops() + edits_everywhere(rng, [[b"ab", b"c"]])


def long_name_case(rng, total, jumps):
    """a name of `total` octets on the wire (253..255 are legal, compose_name also returns 256 and 257, more is an error)
       reached through `jumps` pointers: literal labels + pointer to a suffix that itself ends in a pointer ..."""
    w = Raw()
    w.question(([b"q"], None))
    # suffixes: s_1 = `k` + root, s_i = label + ptr(s_{i-1})
    w.record("an", ([b"k"], None), T_TXT, "raw", b"")
    tgt = w.off() - 13                                   # the label `k` of that owner
    size = 3
    for i in range(jumps - 1):
        here = w.off()
        w.record("an", ([b"j%d" % i], tgt), T_TXT, "raw", b"\1")
        size += 1 + len(b"j%d" % i)
        tgt = here
    rest = total - size
    labels = []
    while rest > 0:
        n = min(63, rest - 1)
        if rest - 1 - n == 1:                            # never leave room for a label without octets
            n -= 1
        labels.append(bytes([rng.choice(LDH)]) * n)
        rest -= 1 + n
    ok = total <= 255
    sec = rng.choice(["an", "au", "ad"])
    w.record(sec, (labels, tgt), T_NS, "name", (labels[:1], tgt))
    w.record("ad", ([], None), T_MX, "mx", (3, (labels, tgt)))
    if total > 257:
        return w.ops(getter={"an": "AN", "au": "AU", "ad": "AD"}[sec])
    return w.ops(specified=ok) + edits_everywhere(rng, [[b"k"]])


def stress_cases(rng, quick):
    out = []
    for d in (None, 11, 12, 13, 23, 24, 25, 0, 1, 2):
        for _ in range(2 if quick else 12):
            out.append(threshold_case(rng, d))
    for depth in (1, 2, 15, 30, 31, 32, 33):
        for where in ("own", "data"):
            out.append(pointer_chain_case(rng, depth, where))
    for total in (64, 252, 253, 254, 255, 256, 257, 258, 259, 300):
        for jumps in (1, 2, 5):
            out.append(long_name_case(rng, total, jumps))
    return out


# -- malformed messages: the affected getter (or the constructor) has to report an error, never touch memory outside

def hdr(nq, nan, nau, nad):
    return struct.pack(">HHHHHH", 0x1234, 0x8180, nq, nan, nau, nad)


def rr(name_wire, rtype, rdata, cls=1, ttl=5):
    return name_wire + struct.pack(">HHIH", rtype, cls, ttl, len(rdata)) + rdata


def malformed_cases(rng):
    q = wire_name([b"a", b"bc"]) + struct.pack(">HH", 1, 1)            # 6 + 4 octets at message offset 12
    out = []

    def case(wire, getter, follow=True):
        ops = [f"parse {hexs(wire)} @E {getter}"]
        if follow:                                                      # edits on the hostile message
            pool = []
            for s in "qaud":
                ops.append(gen_edit(rng, pool, s, legal_only=True))
            ops.append("reparse")
        out.append(ops)

    o = 12 + len(q)                                                     # message offset of the first record
    ptr = lambda off: struct.pack(">H", 0xC000 | off)
    # pointer loops
    case(hdr(1, 1, 0, 0) + q + rr(ptr(o), 1, b"\1\2\3\4"), "AN")                        # points at itself
    case(hdr(1, 1, 0, 0) + q + rr(b"\1x" + ptr(o), 1, b"\1\2\3\4"), "AN")               # label then back to the label
    case(hdr(0, 0, 1, 0) + rr(ptr(12), 1, b"\1\2\3\4"), "AU")
    case(hdr(1, 0, 0, 2) + q + rr(ptr(o + 16), 1, b"\1\2\3\4") + rr(ptr(o), 1, b"\1\2\3\4"), "AD")   # 2-cycle
    case(hdr(1, 0, 0, 0) + ptr(12) + struct.pack(">HH", 1, 1), "Q")
    case(hdr(1, 1, 0, 0) + q + rr(b"\0", T_NS, ptr(o + 11)), "AN")                      # loop inside record data
    case(hdr(1, 0, 1, 0) + q + rr(b"\0", T_SOA, ptr(o + 11) + b"\0" + b"\0" * 20), "AU")
    case(hdr(1, 0, 0, 1) + q + rr(b"\0", T_MX, b"\0\5" + ptr(o + 13)), "AD")
    # out-of-range pointers
    for target in (0, 11, 0x3fff, 0x0c + 600):
        case(hdr(1, 1, 0, 0) + q + rr(ptr(target), 1, b"\1\2\3\4"), "AN")
    case(hdr(1, 1, 0, 0) + q + rr(ptr(o + 16), 1, b"\1\2\3\4"), "AN")                   # first octet after the message
    case(hdr(1, 1, 0, 0) + q + rr(b"\0", T_CNAME, ptr(5)), "AN")
    # reserved label types, directly and behind a pointer
    for bad in (0x40, 0x80, 0xbf):
        case(hdr(1, 1, 0, 0) + q + rr(bytes([bad]) + b"a\0", 1, b"\1\2\3\4"), "AN")
        case(hdr(1, 2, 0, 0) + q + rr(b"\0", 99, bytes([bad]) + b"a" * bad + b"\0") + rr(ptr(o + 11), 1, b"\1\2\3\4"), "AN")
    # labels / names that run past the end of the message
    case(hdr(1, 1, 0, 0) + q + rr(b"\0", T_NS, b"\5ab"), "AN")
    case(hdr(1, 1, 0, 0) + q + rr(b"\0", T_NS, b"\2ab"), "AN")                           # label ends at the very end
    case(hdr(1, 1, 0, 0) + q + rr(b"\0", T_PTR, b""), "AN")                              # no data at the very end
    case(hdr(1, 0, 0, 1) + q + rr(b"\0", T_MX, b"\0\5"), "AD")
    case(hdr(1, 0, 0, 1) + q + rr(b"\0", T_MX, b"\0"), "AD")                             # size - 2 wraps
    case(hdr(1, 0, 1, 0) + q + rr(b"\0", T_SOA, b"\0\0" + b"\0" * 19), "AU")
    case(hdr(1, 0, 1, 0) + q + rr(b"\0", T_SOA, b"\1"), "AU")
    case(hdr(0, 1, 0, 0) + b"\3ab", "AN")
    case(hdr(0, 1, 0, 0) + b"\1a\0" + b"\0\1\0\1\0\0\0\0\0\4\1\2\3", "AN")               # data size past the end
    case(hdr(0, 1, 0, 0) + b"\xc0", "AN")                                                # half a pointer
    # a name longer than 255 octets built from pointers
    long_lbl = b"\x3f" + b"k" * 63
    blob = long_lbl * 4 + b"\0"
    case(hdr(0, 2, 0, 0) + rr(b"\0", 99, blob) + rr(long_lbl + ptr(12 + 11), 1, b"\1\2\3\4"), "AN")
    return out


def hostile_case(rng):
    """a valid compressed message with a few octets damaged, then edits in every section (no expectation except
       memory safety and agreement with the model)"""
    pool = [[b"example", b"com"]]
    qs, an, au, ad = gen_sections(rng, pool, 3)
    wire, _ = encode_message(rng, rng.choice(["full", "mixed"]), qs, an, au, ad)
    w = bytearray(wire)
    for _ in range(rng.choice([1, 1, 2, 3, 6])):
        if len(w) <= 12:
            break
        k = rng.random()
        i = rng.randrange(4 if k < 0.2 else 12, len(w))
        if k < 0.5:
            w[i] = rng.choice([0, 1, 0x3f, 0x40, 0x80, 0xc0, 0xc1, 0xff, w[i] ^ (1 << rng.randrange(8)), rng.randrange(256)])
        elif k < 0.7:
            del w[i:]
        elif k < 0.85:
            w[i:i] = bytes(rng.randrange(256) for _ in range(rng.randint(1, 3)))
        else:
            del w[i:i + rng.randint(1, 3)]
    ops = [f"parse {hexs(w)}"]
    ops.append("soas")
    for s in rng.sample("qaud", 4)[:rng.randint(1, 4)]:
        ops.append(gen_edit(rng, pool, s, legal_only=True))
    ops.append("reparse")
    ops.append("soas")
    return ops


# -- the typed SOA accessor: DNS::soa_record(buffer, size) on its own, and soa_record(resource) on what the getters hand out

def soa_expected(m, r, ints):
    return "ok:" + ":".join([hexs(text_of(m)), hexs(text_of(r))] + [str(x) for x in ints])


def soa_cases(rng, quick):
    """`soa <hex>` cases (one op each): reference encodings of records with legal names (the record must come back
    exactly), and the hostile shapes: no NUL at all, NUL only in the second name, truncated counters, pointers and
    reserved label types in a name, labels past the end, more than 256 octets of text, every prefix, every length 0..40"""
    out = []
    S = lambda b: [f"soa {hexs(b)}"]
    u32s = lambda v: struct.pack(">IIIII", *v)
    edge = [0, 1, 255, 256, 65535, 65536, 2**31 - 1, 2**31, 2**32 - 1]

    def names():
        pool = [[b"example", b"com"]]
        return gen_name(rng, pool), gen_name(rng, pool)

    valid = []
    for i in range(60 if quick else 600):
        m, r = names()
        if i == 0:
            m, r = [], []                                                # the root twice
        elif i == 1:
            m, r = [b"y" * 63] * 3 + [b"z" * 61], [b"a"] * 127           # 255 octets on the wire, both ways
        elif i == 2:
            m, r = [b"ns1", b"example", b"com"], [b"hostmaster", b"example", b"com"]
        ints = [rng.choice(edge + [rng.randrange(2**32)]) for _ in range(5)]
        wire = wire_name(m) + wire_name(r) + u32s(ints)
        valid.append((wire, m, r, ints))
        tail = rng.choice([b"", b"", b"\0", b"\xff" * 3, bytes(rng.randrange(256) for _ in range(rng.randint(1, 9)))])
        out.append([f"soa {hexs(wire + tail)} @V {soa_expected(m, r, ints)}"])
    # every prefix of a few valid records: truncated counters, truncated names, missing terminators
    for wire, m, r, ints in valid[2:(5 if quick else 40)]:
        for i in range(len(wire)):
            out.append(S(wire[:i]))
    # truncated counters behind the shortest names
    for k in range(21):
        out.append(S(b'\0\0' + bytes(range(1, 21))[:k]))
    # no NUL at all
    for ln in range(0, 41):
        out.append(S(bytes([1 + (i * 7) % 255 for i in range(ln)])))
        out.append(S(bytes([0xff]) * ln))
        lbl = (b"\x03abc" * 14)[:ln]
        out.append(S(lbl))
    # NUL only in the second name: the first name has no terminator of its own, so the counters are searched for one
    for _ in range(20 if quick else 300):
        m, r = names()
        body1 = wire_name(m)[:-1] or b"\1a"
        ints = bytes(rng.randrange(1, 256) for _ in range(20))
        out.append(S(body1 + wire_name(r) + ints))
        out.append(S(body1 + wire_name(r)))
        out.append(S(wire_name(m) + (wire_name(r)[:-1] or b'\1a') + ints))     # ... and none in the second
    # pointers / reserved label types / labels past the end / too much text
    z20 = bytes(20)
    for bad in (0x40, 0x7f, 0x80, 0xbf, 0xc0, 0xff):
        out.append(S(bytes([bad, 0x0c, 0]) + b'\0' + z20))
        out.append(S(b'\1a' + bytes([bad]) + b'a' * 70 + b'\0\0' + z20))
        out.append(S(b'\0' + b'\2ab' + bytes([bad, 1, 0]) + z20))
    for ln in (1, 2, 5, 62, 63):
        out.append(S(bytes([ln + 1]) + b'a' * ln + b'\0\0' + z20))          # label one past the end
        out.append(S(bytes([ln]) + b'a' * ln + b'\0\0' + z20))
    for n63 in (3, 4, 5, 6):
        out.append(S(wire_name([b'k' * 63] * n63) + b'\0' + z20))              # 255 / 256 / > 256 octets of text
        out.append(S(b'\0' + wire_name([b'k' * 63] * n63) + z20))
    out.append(S(wire_name([b'k' * 63] * 4 + [b'j']) + b'\0' + z20))
    # every length 0..40 of zeros / ones / random
    for ln in range(0, 41):
        out.append(S(bytes(ln)))
        for _ in range(2 if quick else 20):
            out.append(S(bytes(rng.randrange(256) for _ in range(ln))))
            out.append(S(bytes(rng.choice([0, 1, 2, 3, 0x3f, 0x40, 0xc0, 0x61]) for _ in range(ln))))
    # mutants of valid records
    for wire, m, r, ints in valid[: (30 if quick else 400)]:
        w = bytearray(wire)
        for _ in range(rng.choice([1, 1, 2, 3])):
            i = rng.randrange(len(w))
            w[i] = rng.choice([0, 1, 0x3f, 0x40, 0x80, 0xc0, 0xff, w[i] ^ (1 << rng.randrange(8))])
        out.append(S(w))
    return out


def exhaustive_cases(rng, length, limit):
    """every history of `length` insertions over the four sections x a fixed set of record shapes, on an empty, an
       uncompressed and a compressed initial message"""
    dom = [b"ab", b"c"]
    shapes = [
        lambda i: Rec([b"h%d" % i] + dom, T_A, 1, i, "a", bytes([10, 0, 0, i])),
        lambda i: Rec(dom, T_NS, 1, i, "name", [b"ns"] + dom),
        lambda i: Rec([b"m"] + dom, T_MX, 1, i, "mx", (i, [b"mx%d" % i] + dom)),
        lambda i: Rec(dom, T_SOA, 1, i, "soa", ([b"ns"] + dom, [b"adm"] + dom, bytes(range(20)))),
        lambda i: Rec([], T_TXT, 1, i, "raw", b"\3txt"),
    ]
    inits = []
    base_q = [(dom, 1, 1)]
    base_au = [Rec(dom, T_NS, 1, 9, "name", [b"ns"] + dom), Rec(dom, T_SOA, 1, 9, "soa", ([b"ns"] + dom, [b"adm"] + dom, bytes(20)))]
    base_ad = [Rec([b"ns"] + dom, T_A, 1, 9, "a", bytes([1, 1, 1, 1])), Rec(dom, T_MX, 1, 9, "mx", (1, [b"mx"] + dom))]
    inits.append(["new"])
    for mode in ("none", "full"):
        wire, _ = encode_message(rng, mode, base_q, [], base_au, base_ad, ident=7)
        inits.append([parse_op(wire, base_q, [], base_au, base_ad)])
    out = []
    moves = [(s, k) for s in "qaud" for k in range(len(shapes))]
    moves = [m for m in moves if not (m[0] == "q" and m[1] > 0)]
    for init in inits:
        for hist in itertools.product(moves, repeat=length):
            ops = list(init)
            for i, (s, k) in enumerate(hist):
                if s == "q":
                    ops.append(f"addq {hexs(text_of([b'q%d' % i] + dom))} 1 1")
                else:
                    ops.append(add_op(s, shapes[k](i + 1)))
            ops.append("reparse")
            ops.append("soas")
            out.append(ops)
            if len(out) >= limit:
                return out
    return out


def label_count_cases():
    """names with 1..127 labels through every path: question, owner, record data, fresh and parsed"""
    out = []
    for n in list(range(1, 40)) + [63, 64, 100, 126, 127]:
        name = [b"a"] * n
        rec = Rec(name, T_PTR, 1, 1, "name", name)
        ops = ["new", f"addq {hexs(text_of(name))} 12 1", add_op("a", rec), add_op("u", rec), add_op("a", rec), "reparse"]
        out.append(ops)
        wire, _ = encode_message(random.Random(n), "full", [(name, 12, 1)], [rec], [rec], [])
        out.append([parse_op(wire, [(name, 12, 1)], [rec], [rec], []), add_op("a", rec), "reparse"])
    return out


def corpus_cases():
    import glob, os
    out = []
    for f in sorted(glob.glob(os.path.join(core.VERIF, "corpus", "C10", "*.ops"))):
        ops = [l.rstrip("\n") for l in open(f) if l.strip() and not l.startswith("#")]
        out += corr.split_cases(ops, CASE_START)
    return out


# ------------------------------------------------------------------------------------------ the check

def classify(op, impl):
    w = op.split(" ")
    tag = w[0]
    if w[0] == "parse":
        tag += ":" + (w[2][1:] if len(w) > 2 and w[2].startswith("@") else "hostile")
        if "c0" in w[1][24:]:
            tag += ":ptr"
    elif w[0] == "soa":
        res = impl.split(" ")[-1]
        tag += ":" + ("valid" if len(w) > 2 and w[2] == "@V" else "hostile") + ":" + (res if res.startswith("throw:") else res.split(":")[0])
    elif w[0].startswith("add") and len(w) > 2:
        tag += ":t" + (w[2] if w[2] in ("1", "2", "5", "6", "12", "15", "16", "28", "39", "41") else "other")
    if impl.startswith("throw:"):
        tag += ":" + impl.split(" ")[0]
    elif "!" in impl:
        tag += ":getter-error"
    return tag


def sig_of(kind, detail, case):
    last = case[-1].split(" ")[0] if case else ""
    first = case[0].split(" ")[0] if case else ""
    clause = ""
    if kind == "spec":
        clause = " ".join(detail.split(" ")[1:3])
    elif kind == "fault":
        clause = detail.split(" ")[1] if " " in detail else detail
        if "load_of_value" in clause and "not_a_valid_value_for_type" in clause:
            clause = "enum-load"           # the value and the truncated type name vary
    return {"kind": kind, "clause": clause, "op": last, "init": first}


def build():
    return core.build_harness(HARNESS, san="asan_enum", extra=HARNESS_FLAGS)   # KF-C10-1 is an enum-range load


def run(chk):
    from translator import gen_limits
    gen_limits.main([])          # Gen/Limits.lean: constants and limits read from the current source
    chk.trusted.append("translator/gen_limits.py (constants / limits of the source -> Gen/Limits.lean: compiled probe + "
                       "preprocessed function bodies at named anchors; tied to the model numerals by Props/Limits/C10.lean)")
    problems = chk.prove(MODULES, AUDIT, want_leanchecker=(chk.tier == "thorough"))
    problems = gen_limits.name_failures(chk, problems, "C10")   # name the tie theorems that fail
    exe, err = build()
    if exe is None:
        chk.violation("implementation does not build: " + (err or "")[-1500:], ["build-error"], nofail=True)
        return
    rng = random.Random(chk.seed)
    quick = chk.tier == "quick"
    total = {}

    def go(cases):
        ops = [o for c in cases for o in c]
        st = corr.correspond(chk, AREA, exe, ops, case_start=CASE_START, classify=classify, sig_of=sig_of)
        for k, v in st.items():
            total[k] = total.get(k, 0) + v

    # regression corpus first: the minimised replays of the defects fixed in the repo (known_findings.d/C10.jsonl)
    go(corpus_cases())
    # KF-C10-1 is reproduced on every run: a question whose type / class is not a value of the plain enums
    go([[f"parse {hexs(hdr(1, 0, 0, 0) + wire_name([b'a']) + struct.pack('>HH', 255, 1))}"],
        [f"parse {hexs(hdr(1, 0, 0, 0) + wire_name([b'a']) + struct.pack('>HH', 1, 256))}"],
        ["new", f"addq {hexs(b'a.b')} 65 1"]])
    # directed streams first: malformed names, label counts, pointer chains, realistic responses, small-scope exhaustive
    go(malformed_cases(rng))
    go(soa_cases(rng, quick))
    go(label_count_cases())
    # pointer chains around the documented cap (31 jumps resolved, the 32nd is a loop) and around the cap the source
    # currently has (Gen/Limits: `pointer_counter++ > CAP`), so a changed cap is crossed on either side
    cap = gen_limits.values().get("dnsPointerJumpCap")
    depths = {2, 5, 31, 32, 33, 40} | ({cap, cap + 1, cap + 2, cap + 3} if cap is not None and cap < 2000 else set())
    go([chain_case(rng, d) for d in sorted(depths)])
    go(stress_cases(rng, quick))
    go([realistic_case(rng) for _ in range(300 if quick else 3000)])
    go(exhaustive_cases(rng, 2, 10**9) + (exhaustive_cases(rng, 3, 10**9) if not quick else []))
    # seeded random histories
    n = 1200 if quick else 30000
    batch = 2500
    for start in range(0, n, batch):
        cases = []
        for i in range(start, min(n, start + batch)):
            big = (i % 40 == 0)
            cases.append(gen_case(rng, 12 if big else 4, 20 if big else 6))
            if i % 3 == 0:
                cases.append(hostile_case(rng))
        go(cases)
    if not quick:
        go(exhaustive_cases(rng, 4, 12000))
    for p in problems:
        found = total.get("spec", 0) + total.get("fault", 0)
        if not found:
            chk.violation("proof obligation no longer checks: " + p[:1500], ["theorem-or-audit-failure", p[:4000]], nofail=True)
    chk.cov["rule"] = ("cases = (initial message: fresh | reference-encoded without/with/mixed compression | realistic "
                       "compressed response | hand-assembled compressed (pointer targets at and next to every section offset, 12 "
                       "octets off, pointer chains 1..33, names of 64..300 octets through 1..5 pointers, compressed SOA/MX data "
                       "followed by records, repeated bare-pointer owners) | malformed | damaged, history of add_query/add_answer/add_authority/"
                       "add_additional with records of types A, AAAA, NS, CNAME, PTR, DNAME, MX, SOA, TXT/opaque, "
                       "re-parse; soa_record(buffer) on reference encodings of SOA data, on every prefix, on buffers without NUL / with the "
                       "NUL only in the second name / with truncated counters / pointers / over-long text, every length 0..40; "
                       "soa_record(resource) on every SOA record the getters hand out); every op observes header counts, the three section offsets, records_data_ and the "
                       "four getters; distinct_nontrivial counts distinct (operation, implementation result) pairs")
    chk.assumptions += [
        "inet_pton / inet_ntop are external: the generator passes inet_pton's result to the model; the text of an AAAA "
        "record read back is compared through the address it parses to",
        "legal names: labels of 1..63 octets without '.' and NUL (the textual API cannot express those), at most 255 "
        "octets on the wire, any number of labels",
        "reference-encoded initial messages whose names need more than 31 pointer jumps are outside the specified "
        "fragment (libtins caps the jumps to defend against loops)",
        "records_data_ below 4 GiB (section offsets are uint32_t) and fewer than 65536 records per section",
        "stored messages with name compression: the refinement theorems ask for wfMsg (lean/TinsModel/Dns/Layout.lean: sections "
        "laid out back to back between the stored offsets, record data shaped as its type demands, every pointer designates a "
        "label boundary of a question / owner / NS,CNAME,PTR,DNAME,MX,SOA data name in no later section, every name resolves "
        "within 31 jumps and 255 octets) and for a message below 16 KiB (offsets have 14 bits; a pointer that would exceed them "
        "makes the insertion fail with malformed_packet)",
        "records_data_.shrink_to_fit() is called by the harness before each observation so that ASan sees accesses "
        "past the end of the data",
    ]
    chk.trusted += ["correspondence harness harness/c10_dns.cpp (compiled with -fno-access-control) + generators and "
                    "the RFC 1035 reference encoder in checks/C10.py",
                    "g++ 12 / ASan+UBSan build of the repo's working tree"]
    chk.extra["modelled_not_proved"] = MODELLED_NOT_PROVED
    corr.finalize_cov(chk)


MODELLED_NOT_PROVED = [
    "stored messages that wfMsg rejects: memory safety, insertion_is_shift and pointers_preserved_partial hold for any stored "
    "bytes; names can change silently when a pointer designates a later section (KF-C10-12) or does not designate a label "
    "boundary of a name update_records knows, e.g. points into SRV data (KF-C10-13): names_preserved_all is refuted by a witness",
    "DNS::soa_record setters and the soa_record(resource) path are modelled through soa_record::init only (the data string of "
    "the resource is the buffer); DNS::resource::data(const soa_record&) is serialize() + assign",
    "inet_pton / inet_ntop are parameters of the model",
]


def replay(path):
    exe, err = build()
    if exe is None:
        print(err)
        return 2
    ops = [l.rstrip("\n") for l in open(path) if not l.startswith("#") and l.strip()]
    impl, mod, spec, faults = corr.evaluate(AREA, exe, ops, CASE_START)
    bad = corr.first_problem(ops, impl, mod, spec)
    for o, a, b, c in zip(ops, impl, mod, spec):
        print(o[:300]); print("  impl :", a[:600]); print("  model:", b[:600]); print("  spec :", c)
    if bad:
        print(f"VIOLATION property=C10 replay={path}")
        return 1
    return 0
