"""Structured generators of the Ip6 family (IPv6 with its extension headers).

gen_parse: packets built byte by byte here (independently of libtins) + targeted mutants: extension header chains with
           every length-octet shape, header lengths beyond the bytes present, payload lengths below / above what follows
           (the uint32_t underflow of `actual_payload_length -= ext_size`), zero payload length with trailing bytes,
           jumbograms (hop-by-hop option C2 at every position, wrong option size, truncated), fragments, every value of
           the next-header octet, nested chains (EthernetII / IPv6 / ext / UDP, IPv6 in IPv6).
gen_build: API programs (new / push / set / show) over stacks and values the protocol can express.
"""
import re, sys

EXT = [0, 43, 44, 60, 135]                     # what IPv6::is_extension_header accepts (59 = "no next header" is not a header;
                                               # 51 = AH is a layer of its own, IPSecAH)
DISPATCH = [4, 6, 17, 1, 58, 41, 51, 50]       # pdu_from_flag(Constants::IP::e)
UNKNOWN_PROTO = [59, 253, 254, 255, 2, 47, 89, 132, 3, 61]
LENS = [0, 1, 2, 3, 4, 7, 8, 9, 38, 39, 40, 253, 254, 255]


def hexs(b):
    return bytes(b).hex() if b else "-"


def rb(rng, n):
    return bytes(rng.randrange(256) for _ in range(n))


def be16(v):
    return bytes([(v >> 8) & 255, v & 255])


def be32(v):
    return bytes([(v >> 24) & 255, (v >> 16) & 255, (v >> 8) & 255, v & 255])


def addr(rng):
    return rng.choice([bytes(16), bytes(15) + b"\x01", b"\xff\x02" + bytes(13) + b"\x01", b"\xfe\x80" + bytes(6) + rb(rng, 8),
                       b"\x20\x01\x0d\xb8" + rb(rng, 12), rb(rng, 16)])


# ------------------------------------------------------------------------------------------------ byte-level builders

def fixed(rng, plen, nh, version=6):
    tc = rng.choice([0, 0xff, 0xa5, rng.randrange(256)])
    fl = rng.choice([0, 0xfffff, 0x12345, rng.randrange(1 << 20)])
    w = (version << 28) | (tc << 20) | fl
    return be32(w) + be16(plen & 0xffff) + bytes([nh, rng.choice([0, 1, 64, 255])]) + addr(rng) + addr(rng)


def tlv_options(rng, total, jumbo=None):
    """a well-formed hop-by-hop / destination option area of exactly `total` bytes (Pad1 / PadN / unknown options);
    `jumbo` = value of a Jumbo Payload option placed somewhere"""
    out = bytearray()
    if jumbo is not None and rng.random() < 0.5 and total - len(out) >= 6:
        out += bytes([0xC2, 4]) + be32(jumbo); jumbo = None
    while len(out) < total:
        room = total - len(out)
        if jumbo is not None and room >= 6 and rng.random() < 0.4:
            out += bytes([0xC2, 4]) + be32(jumbo); jumbo = None
            continue
        k = rng.random()
        if room == 1 or k < 0.2:
            out.append(0)                                                  # Pad1
        elif k < 0.5:
            n = rng.randrange(0, min(room - 2, 7) + 1)
            out += bytes([1, n]) + bytes(n)                                # PadN
        else:
            n = rng.randrange(0, min(room - 2, 20) + 1)
            t = rng.choice([5, 0x26, 0x63, 0xc9, 0x1e, rng.randrange(2, 256)])
            if t == 0xC2:
                t = 0xC3
            out += bytes([t, n]) + rb(rng, n)
    if jumbo is not None:                                                  # did not fit: overwrite the front
        out[0:6] = bytes([0xC2, 4]) + be32(jumbo)
    return bytes(out)


def ext_data(rng, typ, units=None, jumbo=None):
    """data of one extension header occupying (units + 1) * 8 bytes on the wire (type and length octets not included)"""
    if units is None:
        units = rng.choice([0, 0, 0, 1, 1, 2, 3, 4, 31])
    n = (units + 1) * 8 - 2
    if typ in (0, 60):
        k = rng.random()
        if k < 0.8 or jumbo is not None:
            return tlv_options(rng, n, jumbo)
        return rb(rng, n)                                                  # garbage options (the parser stores raw bytes)
    if typ == 43:
        return bytes([rng.choice([0, 2, 3, 4, rng.randrange(256)]), rng.randrange(4)]) + rb(rng, n - 2)
    if typ == 44:
        off = rng.choice([0, 0, 1, 185, 8191])
        return be16((off << 3) | rng.choice([0, 1, 6, 7])) + be32(rng.randrange(1 << 32)) + rb(rng, n - 6)
    return rb(rng, n)


def udp_bytes(rng, n=None):
    pl = rb(rng, rng.choice([0, 1, 4, 8, 19]) if n is None else n)
    return be16(rng.randrange(65536)) + be16(rng.choice([53, 4789, 67, 547, rng.randrange(65536)])) + be16(8 + len(pl)) + be16(0) + pl


def payload_for(rng, depth=0):
    """(protocol number, bytes)"""
    k = rng.random()
    if k < 0.4:
        return 17, udp_bytes(rng)
    if k < 0.55:
        return rng.choice(UNKNOWN_PROTO), rb(rng, rng.choice([0, 1, 7, 8, 9, 40]))
    if k < 0.65 and depth < 2:
        return 41, ipv6_bytes(rng, depth + 1)
    if k < 0.72:                                                           # TCP (another family)
        return 6, be16(1234) + be16(80) + be32(1) + be32(2) + bytes([0x50, 0x18]) + be16(512) + be16(0) + be16(0) + rb(rng, 5)
    if k < 0.8:                                                            # ICMPv6 echo (another family)
        return 58, bytes([128, 0, 0, 0]) + be16(7) + be16(1) + rb(rng, 6)
    if k < 0.85:                                                           # IPv4 in IPv6 (another family)
        u = udp_bytes(rng, 3)
        return 4, bytes([0x45, 0]) + be16(20 + len(u)) + be16(7) + be16(0) + bytes([64, 17]) + be16(0) + rb(rng, 8) + u
    if k < 0.9:
        return 50, be32(rng.randrange(1 << 32)) + be32(9) + rb(rng, 12)     # ESP (another family)
    if k < 0.95:                                                           # AH (another family): length in 4-octet units - 2
        icv = rng.choice([0, 4, 12, 16])
        u = udp_bytes(rng, 2)
        return 51, bytes([17, (12 + icv) // 4 - 2, 0, 0]) + be32(rng.randrange(1 << 32)) + be32(1) + rb(rng, icv) + u
    return rng.randrange(256), rb(rng, rng.choice([0, 3, 8, 16]))


def ipv6_bytes(rng, depth=0, chain=None, jumbo=False, plen_mode=None):
    """a structured IPv6 packet; `plen_mode`: None = correct, else a deliberate disagreement"""
    if chain is None:
        chain = [rng.choice(EXT) for _ in range(rng.choice([0, 0, 1, 1, 2, 3, 4]))]
        if jumbo:
            chain = [0] + [c for c in chain if c != 0]
    proto, pl = payload_for(rng, depth)
    body = bytearray()
    exts = []
    for i, t in enumerate(chain):
        nxt = chain[i + 1] if i + 1 < len(chain) else proto
        exts.append((t, nxt))
    total_ext = 0
    blocks = []
    for t, nxt in exts:
        d = ext_data(rng, t)
        blocks.append([t, nxt, d])
        total_ext += len(d) + 2
    real = total_ext + len(pl)
    if jumbo and blocks:
        jv = rng.choice([real, real, real, real + 1, max(0, real - 1), 0, 7, 0xffffffff, 65536 + real])
        n = len(blocks[0][2])
        blocks[0][2] = tlv_options(rng, n, jv)
    for t, nxt, d in blocks:
        body += bytes([nxt, (len(d) + 2) // 8 - 1]) + d
    body += pl
    plen = 0 if jumbo else real
    if plen_mode == "short":
        plen = rng.choice([0, 1, 7, 8, max(0, total_ext - 1), total_ext, max(0, real - 1)])
    elif plen_mode == "long":
        plen = rng.choice([real + 1, real + 8, 0xffff])
    elif plen_mode == "zero":
        plen = 0
    first = chain[0] if chain else proto
    tail = rb(rng, rng.choice([0, 0, 0, 2, 4, 18]))                        # link-layer padding / FCS behind the datagram
    return fixed(rng, plen, first, rng.choice([6, 6, 6, 6, 0, 4, 15])) + bytes(body) + tail


def eth(rng, b):
    return rb(rng, 6) + rb(rng, 6) + be16(0x86dd) + b


def mutate(rng, b):
    b = bytearray(b)
    if not b:
        return bytes(b)
    k = rng.random()
    if k < 0.3:
        return bytes(b[:rng.randrange(len(b) + 1)])
    if k < 0.5:
        i = rng.randrange(len(b)); b[i] ^= 1 << rng.randrange(8)
        return bytes(b)
    if k < 0.65 and len(b) > 41:                                           # the first extension header's length octet
        b[41] = rng.choice([0, 1, 2, 3, 4, 7, 8, 31, 254, 255, (b[41] + 1) & 255, (b[41] - 1) & 255])
        return bytes(b)
    if k < 0.8 and len(b) >= 6:                                            # payload length +-1 / boundary
        v = (b[4] << 8) | b[5]
        v = rng.choice([0, 1, 7, 8, 9, v + 1, v - 1, v + 8, v - 8, 0xffff]) & 0xffff
        b[4], b[5] = v >> 8, v & 255
        return bytes(b)
    if k < 0.9 and len(b) >= 7:                                            # next header of the fixed header
        b[6] = rng.choice(EXT + DISPATCH + UNKNOWN_PROTO)
        return bytes(b)
    return bytes(b) + rb(rng, rng.choice([1, 2, 7, 8, 9]))


def exhaustive_small(rng):
    ops = []
    base = lambda plen, nh: be32(0x60000000) + be16(plen) + bytes([nh, 64]) + bytes(15) + b"\x01" + bytes(15) + b"\x02"
    # every value of the next-header octet in front of nothing / 8 bytes / a 16-byte block that is a valid extension header
    for nh in range(256):
        ops.append("parse IPv6 " + hexs(base(0, nh)))
        ops.append("parse IPv6 " + hexs(base(8, nh) + bytes([59, 0, 1, 4, 0, 0, 0, 0])))
        ops.append("parse IPv6 " + hexs(base(16, nh) + bytes([253, 0, 1, 4, 0, 0, 0, 0]) + b"\x11\x22\x33\x44\x55\x66\x77\x88"))
    # every value of the length octet of one extension header, with exactly / one less / one more than the bytes it announces
    for typ in (0, 43, 60):
        for l in list(range(0, 12)) + [30, 31, 32, 127, 254, 255]:
            size = (l + 1) * 8
            for present in (size, size - 1, size + 1, 8, 2, 1):
                blk = bytes([253, l]) + bytes(max(0, present - 2))
                blk = blk[:present]
                for plen in (present, 0, size):
                    ops.append("parse IPv6 " + hexs(base(plen, typ) + blk))
    # payload length against a fixed chain (8-byte hop-by-hop, 8-byte routing, 8 bytes of unknown protocol): the uint32_t
    # subtraction `actual_payload_length -= ext_size` underflows for every value below 16
    chain = bytes([43, 0, 1, 4, 0, 0, 0, 0]) + bytes([253, 0, 0, 0, 0, 0, 0, 0]) + b"\xa1\xa2\xa3\xa4\xa5\xa6\xa7\xa8"
    for plen in list(range(0, 34)) + [65535]:
        ops.append("parse IPv6 " + hexs(base(plen, 0) + chain))
        ops.append("parse IPv6 " + hexs(base(plen, 0) + chain[:16]))
    # zero payload length with trailing bytes, per final protocol
    for nh in DISPATCH + UNKNOWN_PROTO:
        for n in (1, 8, 20, 40):
            ops.append("parse IPv6 " + hexs(base(0, nh) + bytes(n)))
    # jumbograms: option C2 at each position of a 16 / 8 byte hop-by-hop header, option sizes 0..6, values around the truth
    pl = b"\xb1\xb2\xb3\xb4\xb5\xb6\xb7\xb8"
    for jv in (0, 7, 8, 15, 16, 17, 24, 25, 0xffff, 0x10000, 0xffffffff):
        ops.append("parse IPv6 " + hexs(base(0, 0) + bytes([253, 0, 0xC2, 4]) + be32(jv) + pl))
        ops.append("parse IPv6 " + hexs(base(0, 0) + bytes([253, 1, 1, 2, 0, 0, 0xC2, 4]) + be32(jv) + bytes([1, 2, 0, 0]) + pl))
        ops.append("parse IPv6 " + hexs(base(0, 0) + bytes([253, 1, 0, 0, 0, 0x18, 0, 0xC2, 4]) + be32(jv) + bytes([0, 0, 0]) + pl))
        ops.append("parse IPv6 " + hexs(base(0, 60) + bytes([0, 0, 1, 4, 0, 0, 0, 0]) + bytes([253, 0, 0xC2, 4]) + be32(jv) + pl))
    for osz in range(0, 8):
        ops.append("parse IPv6 " + hexs(base(0, 0) + bytes([253, 1, 0xC2, osz]) + be32(24) + bytes(8) + pl))
    for cut in range(0, 9):                                                # the option area ends inside the jumbo option
        area = (bytes([1, cut]) + bytes(cut) if cut != 1 else b"\x00") if cut else b""
        area = (area + bytes([0xC2, 4]) + be32(16))[:6].ljust(6, b"\x05")
        ops.append("parse IPv6 " + hexs(base(0, 0) + bytes([253, 0]) + area + pl))
    # a fixed header whose payload was not captured, under Ethernet (fixed KF-C03-Ip6-1: it used to be re-serialized with next
    # header 0, and the minimum-frame padding was then read as a hop-by-hop header), for every final protocol
    for nh in DISPATCH + UNKNOWN_PROTO + EXT:
        ops.append("parse EthernetII " + hexs(bytes(12) + be16(0x86dd) + base(14, nh)))
        ops.append("parse IPv6 " + hexs(base(14, nh)))
    # fragment header in front of each dispatching protocol: the payload stays raw
    for nh in DISPATCH + [253]:
        for off_m in (0, 1, 8, 0xfff9):
            ops.append("parse IPv6 " + hexs(base(16, 44) + bytes([nh, 0]) + be16(off_m) + be32(77) + udp_bytes(rng, 0)))
    return ops


def gen_parse(rng, n):
    ops = exhaustive_small(rng)
    target = len(ops) + n
    while len(ops) < target:
        k = rng.random()
        if k < 0.12:
            b = ipv6_bytes(rng, jumbo=True)
        elif k < 0.3:
            b = ipv6_bytes(rng, plen_mode=rng.choice(["short", "long", "zero"]))
        else:
            b = ipv6_bytes(rng)
        cls = "IPv6"
        if rng.random() < 0.2:
            b, cls = eth(rng, b), "EthernetII"
        k = rng.random()
        if k < 0.5:
            ops.append(f"parse {cls} {hexs(b)}")
        elif k < 0.92:
            for _ in range(rng.choice([1, 1, 2])):
                b = mutate(rng, b) if cls == "IPv6" else b[:14] + mutate(rng, b[14:])
            ops.append(f"parse {cls} {hexs(b)}")
        else:                                                              # every prefix (bounded)
            step = max(1, len(b) // 32)
            for i in range(0, len(b) + 1, step):
                ops.append(f"parse {cls} {hexs(b[:i])}")
    return ops


# ------------------------------------------------------------------------------------------------ API programs

def running_property():
    for a in sys.argv[1:]:
        if re.fullmatch(r"C0[1-4]", a):
            return a
    return None


def api_header(rng, typ, aligned_only):
    """data for add_header: hop-by-hop / destination option areas of any length (zero padding = Pad1 options, so every
    length is expressible), other header types only in sizes that need no padding (the padding would become data)"""
    if typ in (0, 60):
        n = rng.choice(LENS + [5, 6, 13, 14, 21, 22, rng.randrange(0, 60)])
        if aligned_only:
            n = rng.choice([6, 14, 22, 30, 254])
        return tlv_options(rng, n)
    units = rng.choice([0, 0, 1, 1, 2, 3, 4, 31])
    return ext_data(rng, typ, units)


def build_one(rng, pid):
    ops = ["new"]
    idx = 0
    if rng.random() < 0.3:
        ops.append(f"push EthernetII {rb(rng, 6).hex()} {rb(rng, 6).hex()}")
        idx = 1
    if rng.random() < 0.5:
        ops.append(f"push IPv6 {addr(rng).hex()} {addr(rng).hex()}")
    else:
        ops.append("push IPv6")
    i = idx
    sets = []
    for _ in range(rng.choice([0, 1, 2, 4])):
        sets.append(rng.choice([
            f"set {i} version {rng.choice([6, 6, 0, 15, rng.randrange(16)])}",
            f"set {i} traffic_class {rng.choice([0, 255, 0x0f, 0xf0, rng.randrange(256)])}",
            f"set {i} flow_label {rng.choice([0, 0xfffff, 0xf0000, 0x0ffff, rng.randrange(1 << 20)])}",
            f"set {i} hop_limit {rng.randrange(256)}",
            f"set {i} payload_length {rng.randrange(65536)}",
            f"set {i} src_addr {addr(rng).hex()}",
            f"set {i} dst_addr {addr(rng).hex()}",
        ]))
    nhdr = rng.choice([0, 0, 1, 1, 2, 3, 5])
    types = [rng.choice(EXT) for _ in range(nhdr)]
    has_frag = 44 in types
    for t in types:
        verb = rng.choice(["add_header", "add_header", "add_header_copy", "add_ext_header", "add_header_ptr"])
        sets.append(f"set {i} {verb} {t} {hexs(api_header(rng, t, False))}")
    # inner stack: only what IPv6 can name and its parser gives back.  Behind a fragment header libtins never parses the
    # payload (known finding KF-C04-Ip6-2 is probed separately), so it is raw there.
    k = rng.random()
    inner = []
    if k < 0.35 and not has_frag:
        inner = [f"push UDP {rng.randrange(65536)} {rng.randrange(65536)}"]
        if rng.random() < 0.8:
            inner.append("push RawPDU " + hexs(rb(rng, rng.choice([0, 1, 2, 8, 33]))))
    elif k < 0.45 and not has_frag:
        inner = ["push IPv6", f"set {i + 1} next_header {rng.choice([59, 253])}", "push RawPDU " + hexs(rb(rng, rng.choice([1, 8, 9])))]
    elif k < 0.85:
        sets.append(f"set {i} next_header {rng.choice([59, 253, 254, 255, 2, 47, 89, 132])}")
        inner = ["push RawPDU " + hexs(rb(rng, rng.choice([0, 1, 7, 8, 9, 40, 41])))]
    else:
        if rng.random() < 0.5:
            sets.append(f"set {i} next_header {rng.randrange(256)}")      # no payload: the tag need not survive
    rng.shuffle(sets)
    # next_header before add_header or after: both orders occur through the shuffle; a `show` in the middle of the history
    cut = rng.randrange(len(sets) + 1) if sets and rng.random() < 0.3 else None
    for j, s in enumerate(sets):
        if cut is not None and j == cut:
            ops.append("show")
        ops.append(s)
    ops += inner
    ops.append("show")
    return ops


def special_programs(rng, pid):
    out = []
    # DESIGN §7 #18 (fixed on main): data sizes 7 modulo 8 (and every residue) around the small-buffer threshold
    for n in [0, 1, 2, 3, 4, 5, 6, 7, 8, 9, 13, 14, 15, 21, 22, 23, 253, 254, 255, 2045, 2046]:
        out += ["new", "push IPv6", "set 0 next_header 253", f"set 0 add_header {rng.choice([0, 60])} {hexs(bytes(n))}",
                "push RawPDU 0a0b0c", "show"]
    # DESIGN §7 #27 (fixed): an API-built jumbogram (payload length 65536 -> length field 0, jumbo option 65536)
    out += ["new", "push IPv6", "set 0 next_header 253", "set 0 add_header 0 c20400010000",
            "push RawPDU " + hexs(bytes([0xab]) * 65528), "show"]
    # known finding KF-C04-Ip6-1: more than 2046 data bytes do not fit the 8-bit Hdr Ext Len (reproduced on every run)
    if pid in ("C04", None):
        out += ["new", "push IPv6", "set 0 next_header 253", "set 0 add_header 60 " + hexs(bytes(2047)), "push RawPDU 0a0b0c", "show"]
    # known finding KF-C04-Ip6-2: the payload behind a fragment header is never parsed, not even of an atomic fragment
    if pid in ("C04", None):
        out += ["new", "push IPv6", "set 0 add_header 44 000000000007", "push UDP 53 54", "push RawPDU 0102", "show"]
    # the authentication header is a layer of its own (fixed: the IPv6 parser used to swallow it as a generic extension
    # header with a wrong size); `push IPSecAH` belongs to the Ip family's harness
    out += ["new", "push IPv6", "push IPSecAH", "push UDP 53 54", "push RawPDU 0102030405060708", "show"]
    out += ["new", "push IPv6", "set 0 add_header 0 010400000000", "push IPSecAH", "push UDP 53 54", "push RawPDU 01", "show"]
    # option_payload_too_large: 65536 bytes are rejected by every constructor; 65535 are stored
    out += ["new", "push IPv6", "set 0 add_header 0 " + hexs(bytes(65536)), "set 0 add_header_ptr 0 " + hexs(bytes(65536)),
            "set 0 add_header_len 0 8 " + hexs(bytes(65536)), "show"]
    if pid == "C02":
        # size accounting only (such objects have no faithful wire form, C04's read-back clause does not apply):
        # spoofed length fields, unaligned non-option headers, the largest option PDUOption can hold
        out += ["new", "push IPv6", "set 0 add_header 43 " + hexs(bytes(65535)), "push RawPDU 0a", "show"]
        for _ in range(6):
            out += ["new", "push IPv6", f"set 0 add_header_len {rng.choice(EXT)} {rng.choice([0, 6, 7, 8, 14, 255, 2047, 65535])} "
                    + hexs(rb(rng, rng.choice(LENS))), f"set 0 add_header 43 {hexs(rb(rng, rng.choice(LENS)))}",
                    "push RawPDU " + hexs(rb(rng, 3)), "show"]
    return out


def gen_build(rng, n):
    pid = running_property()
    ops = special_programs(rng, pid)
    while len(ops) < n:
        ops += build_one(rng, pid)
    return ops


# ------------------------------------------------------------------------------------------------ known-finding signatures

def refine_sig(sig, case, detail):
    if sig.get("class") != "api":
        return sig
    hdrs = []
    for l in case:
        w = l.split(" ")
        if w[0] == "new":
            hdrs = []
        elif w[0] == "set" and len(w) == 5 and w[2].startswith("add_") and w[2] != "add_header_len":
            try:
                hdrs.append((int(w[3]), 0 if w[4] == "-" else len(w[4]) // 2))
            except ValueError:
                pass
    text = "\n".join(case)
    if "push IPv6" not in text:
        return sig
    if any(n > 2046 for _, n in hdrs) and sig.get("clause") in ("view-preserved", "reparse-accepts", "reserialize-fixpoint"):
        return dict(sig, when="ipv6-ext-header-over-2046-bytes")
    if any(t == 44 for t, _ in hdrs) and sig.get("clause") == "view-preserved" and re.search(r"push (UDP|IPv6 *$|IPv6\n)", text, re.M):
        return dict(sig, when="ipv6-payload-behind-fragment-header-not-parsed")
    return sig
