"""C08 — IPv4 fragment reassembly reconstructs the original datagram.

Theorems: lean/TinsModel/Props/C08.lean (inside the hypothesis: refinement of a datagram-aware reference; arbitrary
sessions: model_refines_policy, process_all_cases, never_from_incomplete_all, fragmented_cases, no_fault,
interleave_independent_all, live_streams_*, late_duplicate_leaks) and Props/C08Wire.lean (end to end with the wire
families' model of pdu_from_flag).  Oracles (lean/Driver/C08.lean, run on the implementation's output): the
datagram-aware reference, the policy reference (every call of every history), history-level safety clauses."""
import itertools, json, os, random, struct
from vlib import core, corr

AREA = "C08"
MODULES = ["TinsModel.Props.C08", "TinsModel.Props.C08Wire", "TinsModel.Props.Limits.C08"]   # + the constants / limits tied to the source (translator/gen_limits.py)
AUDIT = ["Audit/C08.lean", "Audit/C08Wire.lean", "Audit/LimitsC08.lean"]
LEVEL = "proof"
HARNESS = "c08_reasm"
HARNESS_FLAGS = ["-fno-access-control"]          # the harness prints IPv4Reassembler::streams_.size()
CASE_START = ("case",)
MANIFEST = dict(
    text="Lean 4 theorems about a code-shaped executable model of IPv4Stream/IPv4Reassembler::process. (1) Inside the "
         "property's hypothesis (any partitions at multiples of 8, any arrival order, duplicates, interleaving of datagrams "
         "with different RFC 791 keys, unfragmented and non-IP packets, remove_stream/clear_streams) the model refines a "
         "reference reassembler that knows which datagram every fragment belongs to. (2) For ARBITRARY sessions "
         "(overlapping fragments, several lengths at one offset, conflicting last fragments, offsets + lengths beyond "
         "65535, any packets whatsoever) the model refines a set-based policy reference (model_refines_policy); every call "
         "goes one of five ways (process_all_cases); REASSEMBLED only from an exact cover of [0,total) by arrived fragments "
         "of that key ending in a fragment without more-fragments, header + total <= 65535 "
         "(never_from_incomplete_all, reassembled_bytes); the only exception is the upper parser's malformed_packet on "
         "an exact cover; the corrupt path erases the stream and leaves the first header without payload; no fault; "
         "independence of keys for arbitrary packets; at most one open stream per distinct key, and inside the hypothesis "
         "exactly the datagrams with a non-empty incomplete episode (live_streams_exact), with the late-duplicate leak "
         "stated and proved (late_duplicate_leaks). (3) End to end with the wire families (Props/C08Wire.lean): the parser "
         "parameter instantiated by the proved model of Internals::pdu_from_flag (generated next-protocol table + "
         "Wire.parseChain): it never faults and throws only malformed_packet, the IP constructor of an unfragmented "
         "datagram dispatches with the same function, hence the reassembled packet carries the original datagram's "
         "header fields and, above IP, the very layers parsing the original datagram yields (reassembly_end_to_end). "
         "Tied to the code by differential correspondence under ASan/UBSan on wire packets built by an independent RFC "
         "791 encoder, and by three Lean oracles run on the implementation's own output: the datagram-aware reference "
         "(inside the hypothesis), the policy reference (every call of every history) and history-level safety clauses "
         "(exact cover by arrived fragments, stream count from the implementation's own reports).",
    note="Trusted: Lean kernel + standard axioms; hand-written model tied by correspondence (harness/c08_reasm.cpp); "
         "the upper-layer parser the driver runs is the wire families' model of pdu_from_flag (tied by the C01-C04 checks); "
         "payloads generated for the correspondence are UDP, option-less TCP and class-less protocols; generator coverage "
         "bounds what the tie sees.",
    technique="Lean 4 proof (refinement of a datagram-aware reference inside the hypothesis and of a policy reference for "
              "arbitrary sessions; invariants over all histories; composition with the wire parser model) + model/impl "
              "correspondence + spec oracles on the implementation's output",
    design="DESIGN.md §6 C08")
MANIFEST["note"] += (" Constants and limits of the C++ source that the model restates (translator/gen_limits.py -> Gen/Limits.lean: "
                     "compiled probe + preprocessed function bodies at named anchors) are tied to the model's numerals by the "
                     "theorems of lean/TinsModel/Props/Limits/C08.lean (audit: Audit/LimitsC08.lean); tools/LIMITS-INVENTORY.md lists "
                     "what is tied and what is not.")

A, B, C = 0x0A000001, 0x0A000002, 0xC0A80164
RAW_PROTOS = [253, 254, 99, 47, 0, 255]


def hexs(b):
    return b.hex() if b else "-"


def csum16(data):
    if len(data) % 2:
        data += b"\0"
    s = sum(struct.unpack("!%dH" % (len(data) // 2), data))
    while s >> 16:
        s = (s & 0xffff) + (s >> 16)
    return (~s) & 0xffff


def upper_payload(rng, proto, src, dst, n):
    """n bytes of IP payload that libtins re-serialises byte-identically (RFC 768 / RFC 793 encoders written here)."""
    body = bytes(rng.randrange(256) for _ in range(n))
    if proto == 17 and n >= 8:
        hdr = struct.pack("!HHHH", rng.randrange(65536), rng.randrange(65536), n, 0)
        pseudo = struct.pack("!IIBBH", src, dst, 0, 17, n)
        c = csum16(pseudo + hdr + body[8:]) or 0xffff
        return hdr[:6] + struct.pack("!H", c) + body[8:]
    if proto == 6 and n >= 20:
        hdr = struct.pack("!HHIIBBHHH", rng.randrange(65536), rng.randrange(65536), rng.randrange(2**32),
                          rng.randrange(2**32), 5 << 4, rng.randrange(64), rng.randrange(65536), 0, 0)
        pseudo = struct.pack("!IIBBH", src, dst, 0, 6, n)
        c = csum16(pseudo + hdr + body[20:])
        return hdr[:16] + struct.pack("!H", c) + hdr[18:] + body[20:]
    return body


def partition(rng, n, max_pieces):
    """piece lengths: cuts at multiples of 8 strictly inside (0, n)"""
    slots = list(range(8, n, 8))
    k = min(len(slots), rng.randint(1, max(1, max_pieces - 1)))
    cuts = sorted(rng.sample(slots, k)) if slots else []
    pts = [0] + cuts + [n]
    return [b - a for a, b in zip(pts, pts[1:])]


class Dg:
    def __init__(self, tag, ident, src, dst, proto, tos, df, nopt, payload, lens):
        self.tag, self.id, self.src, self.dst, self.proto = tag, ident, src, dst, proto
        self.tos, self.df, self.nopt, self.payload, self.lens = tos, df, nopt, payload, lens
        offs = [0]
        for l in lens:
            offs.append(offs[-1] + l)
        self.pieces = list(zip(offs, lens))

    def op(self):
        return (f"dgram {self.tag} {self.id} {self.src} {self.dst} {self.proto} {self.tos} {int(self.df)} {self.nopt} "
                f"{hexs(self.payload)} {','.join(map(str, self.lens))}")

    def frag(self, piece, ttl, eth, mf=None):
        o, l = piece
        if mf is None:
            mf = o + l < len(self.payload)
        return f"frag {self.tag} {o} {l} {int(mf)} {ttl} {int(eth)}"


def new_dgram(rng, tag, used_keys, max_len, max_pieces, proto=None, key=None):
    while True:
        if key is None:
            ident = rng.choice([7, 7, 7, 8, 0, 65535, rng.randrange(65536)])
            src, dst = rng.choice([(A, B), (B, A), (A, C), (C, A), (A, A), (rng.randrange(2**32), rng.randrange(2**32))])
            pr = proto if proto is not None else rng.choice([17, 17, 6] + RAW_PROTOS)
        else:
            ident, src, dst, pr = key
        if (ident, src, dst, pr) not in used_keys or key is not None:
            break
    used_keys.add((ident, src, dst, pr))
    n = rng.choice([9, 16, 17, 24, 25, 40, 64, rng.randint(9, max(9, max_len)), rng.randint(9, max(9, max_len))])
    n = max(9, min(n, max_len, 65515))
    if pr == 6:
        n = max(n, 20)
    payload = upper_payload(rng, pr, src, dst, n)
    lens = partition(rng, n, max_pieces)
    return Dg(tag, ident, src, dst, pr, rng.choice([0, 0, 0x10, 0xff]), rng.random() < 0.3,
              rng.choice([0, 0, 0, 1, 2]), payload, lens)


def gen_valid_case(rng, max_len=200, max_pieces=6, max_dg=4):
    """inside the property's hypothesis: k concurrent datagrams with pairwise different keys (often differing in one
    component only: id, direction, protocol), arbitrary interleaving, duplicates (also after completion), unfragmented
    and non-IP packets in between, occasional remove_stream / clear_streams"""
    ops = ["case"]
    used = set()
    k = rng.randint(1, max_dg)
    dgs = [new_dgram(rng, f"d{i}", used, max_len, max_pieces) for i in range(k)]
    if k >= 2 and rng.random() < 0.5:
        # neighbours of d0's key: same id + reversed direction / other protocol / other id
        base = dgs[0]
        for i, key in enumerate([(base.id, base.dst, base.src, base.proto), (base.id, base.src, base.dst, 254 if base.proto != 254 else 253),
                                 ((base.id + 1) % 65536, base.src, base.dst, base.proto)][:k - 1]):
            if key not in used:
                dgs[i + 1] = new_dgram(rng, f"d{i+1}", used, max_len, max_pieces, key=key)
    events = []
    for d in dgs:
        ops.append(d.op())
        ev = [(d, p) for p in d.pieces]
        rng.shuffle(ev)
        for _ in range(rng.choice([0, 0, 1, 2, 3])):
            ev.insert(rng.randint(0, len(ev)), (d, rng.choice(d.pieces)))     # duplicates, anywhere (also late)
        if rng.random() < 0.15:
            ev = ev[:rng.randint(0, len(ev))]                                  # datagram that never completes
        if rng.random() < 0.1:
            ev = ev + ev                                                       # the whole datagram twice
        events.append(ev)
    # random interleaving that keeps each datagram's own order
    order = [i for i, ev in enumerate(events) for _ in ev]
    rng.shuffle(order)
    pos = [0] * len(events)
    for i in order:
        d, p = events[i][pos[i]]
        pos[i] += 1
        ops.append(d.frag(p, rng.choice([64, 32, 1, 255, rng.randrange(256)]), rng.random() < 0.5))
        r = rng.random()
        if r < 0.06:
            ops.append(f"whole {rng.choice(dgs).tag} {rng.randrange(256)} {rng.randint(0, 1)}")
        elif r < 0.09:
            ops.append("nonip")
        elif r < 0.11:
            x = rng.choice(dgs)
            ops.append(f"remove {x.id} {x.src} {x.dst}" if rng.random() < 0.7 else f"remove {x.id} {x.dst} {x.src}")
        elif r < 0.12:
            ops.append("clear")
    return ops


def gen_malformed_upper_case(rng):
    """a fragmented datagram whose reassembled payload libtins cannot parse as its protocol (TCP shorter than 20 bytes);
    duplicates afterwards must start a fresh reassembly"""
    ops = ["case"]
    used = set()
    d = new_dgram(rng, "d0", used, 64, 3, proto=253)
    d.proto = 6
    d.payload = bytes(rng.randrange(256) for _ in range(16))
    d.lens = [8, 8]
    d.pieces = [(0, 8), (8, 8)]
    ops.append(d.op())
    ev = list(d.pieces) + [rng.choice(d.pieces) for _ in range(rng.randint(1, 3))]
    if rng.random() < 0.5:
        rng.shuffle(ev)
    for p in ev:
        ops.append(d.frag(p, 64, rng.random() < 0.5))
    return ops


def gen_reuse_case(rng):
    """extension (known finding KF-C08-1): a key is re-used by a new datagram after the old one was completed and a late
    duplicate of the old one arrived in between"""
    ops = ["case"]
    used = set()
    d = new_dgram(rng, "d0", used, 64, 4, proto=rng.choice(RAW_PROTOS))
    ops.append(d.op())
    for p in d.pieces:
        ops.append(d.frag(p, 64, False))
    late = rng.choice(d.pieces)
    ops.append(d.frag(late, 64, False))
    e = new_dgram(rng, "d1", used, 64, 4, key=(d.id, d.src, d.dst, d.proto))
    ops.append(e.op())
    ev = list(e.pieces)
    rng.shuffle(ev)
    for p in ev:
        ops.append(e.frag(p, 64, False))
    return ops


def gen_hostile_case(rng, max_len=120):
    """outside the hypothesis (oracle says `unspecified`): overlapping re-cuts, wrong MF bits, holes, lying lengths,
    datagrams sharing a key.  Model/implementation correspondence only (the `corrupt` path of process())."""
    ops = ["case"]
    used = set()
    # class-less protocols only: a partial UDP/TCP payload is not canonical and its re-serialisation is C03's business
    dgs = [new_dgram(rng, f"d{i}", used, max_len, 5, proto=rng.choice(RAW_PROTOS)) for i in range(rng.randint(1, 3))]
    if len(dgs) >= 2 and rng.random() < 0.5:
        dgs[1] = new_dgram(rng, "d1", used, max_len, 5, key=(dgs[0].id, dgs[0].src, dgs[0].dst, dgs[0].proto))
    for d in dgs:
        ops.append(d.op())
    for _ in range(rng.randint(2, 14)):
        d = rng.choice(dgs)
        n = len(d.payload)
        style = rng.random()
        if style < 0.35:
            o, l = rng.choice(d.pieces)
            mf = None
        elif style < 0.7:
            o = 8 * rng.randint(0, n // 8)
            l = rng.choice([0, 1, 8, 16, rng.randint(0, max(0, n - o)), n - o])
            mf = rng.random() < 0.6
        else:
            o = 8 * rng.randint(0, n // 8 + 2)
            l = rng.randint(0, n + 8)
            mf = rng.random() < 0.5
        ops.append(d.frag((o, l), rng.randrange(256), rng.random() < 0.5, mf))
        if rng.random() < 0.05:
            ops.append(f"whole {d.tag} 64 0")
    return ops


def gen_hole_masked_case(rng):
    """hostile: one piece of the partition is missing and an overlapping fragment of the same length hides the hole in
    the byte count -> is_complete() holds, the contiguity re-check of allocate_pdu must refuse (`corrupt` path)"""
    while True:
        used = set()
        d = new_dgram(rng, "d0", used, 160, 6, proto=rng.choice(RAW_PROTOS))
        if len(d.pieces) < 3:
            continue
        i = rng.randrange(1, len(d.pieces) - 1)
        hosts = [k for k, (o, l) in enumerate(d.pieces) if k != i and l >= 16]
        if hosts:
            break
    ko, kl = d.pieces[rng.choice(hosts)]
    fake = (ko + 8 * rng.randint(1, kl // 8 - 1), d.pieces[i][1])
    frs = [(p, None) for k, p in enumerate(d.pieces) if k != i] + [(fake, True)]
    rng.shuffle(frs)
    ops = ["case", d.op()] + [d.frag(p, rng.randrange(256), rng.random() < 0.5, mf) for p, mf in frs]
    ops.append(d.frag(d.pieces[i], 64, False))          # the missing piece, too late: starts a new stream
    return ops


def _two_contents(rng, n, proto=253, nopt=0, df=False):
    """two datagrams with the SAME reassembly key and different payloads: fragments cut from both conflict in content"""
    p0 = bytes(rng.randrange(256) for _ in range(n))
    p1 = bytes((b + 1 + rng.randrange(255)) % 256 for b in p0)            # differs in every byte
    d0 = Dg("d0", 7, A, B, proto, 0, df, nopt, p0, [n])
    d1 = Dg("d1", 7, A, B, proto, 0, df, nopt, p1, [n])
    return d0, d1


def pair_overlap_cases(rng):
    """every pair of fragments [0, 8a) and [8(a-k), n) that overlap by 8k bytes (n = 64 and 61), both arrival orders,
    same and conflicting content, with and without a third fragment that would make the byte count equal the total"""
    out = []
    for n in (64, 61):
        for a in range(1, 8):
            for k in range(1, a + 1):
                for order in (0, 1):
                    for conflict in (False, True):
                        d0, d1 = _two_contents(rng, n)
                        f1 = d0.frag((0, 8 * a), 10, False, True)
                        f2 = (d1 if conflict else d0).frag((8 * (a - k), n - 8 * (a - k)), 11, True, False)
                        seq = [f1, f2] if order == 0 else [f2, f1]
                        # a duplicate offset with another length, then the fragments that would have been right
                        seq.append(d0.frag((0, 8 * (a - k)), 12, False, True) if a > k else d0.frag((0, n), 12, False, False))
                        out.append(["case", d0.op(), d1.op()] + seq)
    return out


def grid_cases(units, length, rng, limit=None, sample=None):
    """small-scope exhaustive over hostile histories: every sequence of `length` fragments whose bounds lie on an
    8-byte grid of `units` units, each with either more-fragments value and cut from either of two datagrams that share
    the key but not the content (overlaps, same offset / different lengths, several last fragments, a last fragment
    that ends before data already held, holes masked by overlaps)"""
    n = 8 * units - 3
    ivs = [(s, e) for s in range(units) for e in range(s + 1, units + 1)]
    opts = [(s, e, mf, src) for (s, e) in ivs for mf in (True, False) for src in (0, 1)]
    d0, d1 = _two_contents(rng, n)
    head = ["case", d0.op(), d1.op()]

    def mk(seq):
        ops = list(head)
        for i, (s, e, mf, src) in enumerate(seq):
            ops.append((d0, d1)[src].frag((8 * s, min(8 * e, n) - 8 * s), 20 + i, False, mf))
        return ops
    if sample is not None:
        return [mk([rng.choice(opts) for _ in range(rng.randint(2, length))]) for _ in range(sample)]
    out = []
    for seq in itertools.product(opts, repeat=length):
        out.append(mk(seq))
        if limit and len(out) >= limit:
            break
    return out


def gen_conflicting_last_case(rng):
    """two (or three) different last fragments, in any order, with the fragments below them; the datagram the
    implementation may produce must still be an exact cover ending in a fragment without more-fragments"""
    units = rng.randint(3, 7)
    n = 8 * units
    d0, d1 = _two_contents(rng, n, proto=rng.choice(RAW_PROTOS))
    ends = sorted(rng.sample(range(1, units + 1), rng.randint(2, min(3, units))))
    frs = []
    prev = 0
    for e in ends:
        s = rng.randint(prev, e - 1) if rng.random() < 0.5 else prev
        frs.append((rng.choice([d0, d0, d1]), (8 * s, 8 * (e - s)), False))           # a "last" fragment ending at 8e
        if s > 0 and rng.random() < 0.8:
            frs.append((d0, (0, 8 * s), True))
        prev = e
    if rng.random() < 0.5:
        frs.append((d0, (0, 8), True))
    rng.shuffle(frs)
    return ["case", d0.op(), d1.op()] + [d.frag(p, rng.randrange(256), rng.random() < 0.5, mf) for d, p, mf in frs]


def gen_same_offset_case(rng):
    """fragments of different lengths (and contents) at one offset; later the fragments that complete either reading"""
    units = rng.randint(2, 6)
    n = 8 * units - rng.choice([0, 0, 5])
    d0, d1 = _two_contents(rng, n, proto=rng.choice(RAW_PROTOS))
    s = rng.randrange(units)
    e1, e2 = rng.sample(range(s + 1, units + 2), 2) if units - s >= 1 else (units, units + 1)
    e1, e2 = min(e1, units), min(e2, units)
    cut = lambda a, b: (8 * a, min(8 * b, n) - 8 * a)
    frs = [(d0, cut(s, e1), 8 * e1 < n), (rng.choice([d0, d1]), cut(s, max(e2, s + 1)), 8 * e2 < n)]
    rest = [(d0, cut(0, s), True)] if s > 0 else []
    for e in {e1, e2}:
        if e < units:
            rest.append((d0, cut(e, units), False))
    rng.shuffle(rest)
    if rng.random() < 0.5:
        frs.reverse()
    seq = frs + rest if rng.random() < 0.6 else rest + frs
    return ["case", d0.op(), d1.op()] + [d.frag(p, rng.randrange(256), False, mf) for d, p, mf in seq if p[1] > 0]


def oversize_cases(rng):
    """offset + length beyond what an IPv4 datagram can hold: header + total on both sides of 65535 (with and without
    options), the last fragment at the highest offset 65528, and far beyond"""
    out = []
    for nopt, total in [(0, 65515), (0, 65516), (1, 65511), (1, 65512), (0, 65528 + 40), (0, 65535), (2, 65600)]:
        payload = bytes(rng.randrange(256) for _ in range(total))
        cuts = [0, 8 * rng.randint(1, 4000), 8 * rng.randint(4001, 8000), 65504 if total > 65504 else 8 * 8100, total]
        cuts = sorted(set(c for c in cuts if c <= total))
        lens = [b - a for a, b in zip(cuts, cuts[1:])]
        d = Dg("d0", 9, A, B, 253, 0, False, nopt, payload, lens)
        ev = list(d.pieces)
        rng.shuffle(ev)
        out.append(["case", d.op()] + [d.frag(p, 64, False) for p in ev] + [d.frag(ev[0], 64, False)])
    return out


def kf_witness_case():
    """the Lean refutation witness `Tins.Props.C08.kfEvs` (key_reuse_refines_fails), replayed on the real code"""
    old = Dg("d0", 7, 1, 2, 253, 0, False, 0, bytes(range(16)), [8, 8])
    new = Dg("d1", 7, 1, 2, 253, 0, False, 0, bytes(i + 100 for i in range(16)), [8, 8])
    return ["case", old.op(), old.frag((0, 8), 64, False), old.frag((8, 8), 64, False), old.frag((8, 8), 64, False),
            new.op(), new.frag((0, 8), 64, False), new.frag((8, 8), 64, False)]


def regression_cases():
    """one deterministic case per fixed defect (KF-C08-2..6)"""
    p = bytes(range(1, 17))
    q = bytes(range(101, 117))
    out = []
    for k2 in [(7, B, A, 253), (7, A, B, 254)]:                      # opposite direction / other protocol, same id
        d = Dg("d0", 7, A, B, 253, 0, False, 0, p, [8, 8])
        e = Dg("d1", k2[0], k2[1], k2[2], k2[3], 0, False, 0, q, [8, 8])
        out.append(["case", d.op(), e.op(), d.frag((0, 8), 64, False), e.frag((8, 8), 64, False),
                    e.frag((0, 8), 64, False), d.frag((8, 8), 64, False)])
    d = Dg("d0", 7, A, B, 253, 0, True, 1, p, [8, 8])                # DF set on the fragments
    out.append(["case", d.op(), d.frag((8, 8), 64, True), d.frag((0, 8), 63, True)])
    d = Dg("d0", 7, A, B, 6, 0, False, 0, p, [8, 8])                 # 16 bytes of "TCP": allocate_pdu throws
    out.append(["case", d.op(), d.frag((0, 8), 64, False), d.frag((8, 8), 64, False), d.frag((8, 8), 64, False),
                d.frag((0, 8), 64, False)])
    # KF-C08-6: header + total = 65536 (a last fragment of 4 bytes at offset 65512): dropped as corrupt, not reassembled
    big = bytes((i * 7 + 3) % 256 for i in range(65516))
    d = Dg("d0", 9, A, B, 253, 0, False, 0, big, [32768, 32744, 4])
    out.append(["case", d.op(), d.frag((0, 32768), 64, False), d.frag((65512, 4), 64, False), d.frag((32768, 32744), 64, False),
                d.frag((65512, 4), 64, False)])
    return out


def hole_masked_case():
    """the byte count equals the total although there is a hole (overlap masks it): allocate_pdu's contiguity re-check"""
    p = bytes(range(1, 33))
    d = Dg("d0", 7, A, B, 253, 0, False, 0, p, [16, 8, 8])
    return ["case", d.op(), d.frag((0, 16), 9, False), d.frag((8, 8), 9, False, True), d.frag((24, 8), 9, False),
            d.frag((16, 8), 9, False)]


def exhaustive_cases(limit, rng, big=False):
    """every partition of a 32/40-byte payload into <= 4 pieces (thorough: also 56 bytes into 5 and 6 pieces) x every
    arrival order x one duplicate at every position (or none), interleaved with a second datagram that differs in one
    key component (direction / protocol / identification)"""
    out = []
    plan = [(32, (1, 2, 3), (0, 1, 2)), (40, (1, 2, 3), (0, 1, 2))] + ([(56, (4, 5), None)] if big else [])
    for n, ks, variants in plan:
        slots = list(range(8, n, 8))
        for k in ks:
            for ci, cuts in enumerate(itertools.combinations(slots, k)):
                pts = [0] + list(cuts) + [n]
                lens = [b - a for a, b in zip(pts, pts[1:])]
                for variant in (variants if variants is not None else ((k + ci) % 3,)):
                    payload = bytes((7 * i + n + k) % 256 for i in range(n))
                    d = Dg("d0", 7, A, B, 253, 0, variant == 1, variant, payload, lens)
                    key2 = [(7, B, A, 253), (7, A, B, 254), (8, A, B, 253)][variant]
                    e = Dg("d1", key2[0], key2[1], key2[2], key2[3], 0, False, 0, bytes(reversed(payload)), lens)
                    for perm in itertools.permutations(d.pieces):
                        for dup_at in range(len(perm) + 2):
                            seq = list(perm)
                            if dup_at <= len(perm):
                                seq.insert(dup_at, perm[(dup_at * 7 + variant) % len(perm)])
                            ops = ["case", d.op(), e.op()]
                            eperm = list(e.pieces)
                            rng.shuffle(eperm)
                            for i, p in enumerate(seq):
                                ops.append(d.frag(p, 10 + i, False))
                                if i < len(eperm):
                                    ops.append(e.frag(eperm[i], 100 + i, True))
                            for p in eperm[len(seq):]:
                                ops.append(e.frag(p, 99, True))
                            out.append(ops)
                            if len(out) >= limit:
                                return out
    return out


def classify(op, impl):
    w = op.split(" ")
    tag = w[0]
    if tag in ("frag", "whole", "nonip"):
        st = impl.split(" ", 1)[0]
        tag += ":" + st.replace("st=", "")
        if tag.startswith("frag") and "same=0" in impl and "st=F" in impl:
            tag += ":corrupt-path"
    return tag


def sig_of(kind, detail, case):
    sig = {"kind": kind}
    if kind == "spec":
        w = detail.split(" ")
        sig["clause"] = w[1] if len(w) > 1 else ""
        sig["ctx"] = "key-reuse" if "ctx=key-reuse" in detail else "plain"
    return sig


def build():
    return core.build_harness(HARNESS, extra=HARNESS_FLAGS)


def run(chk):
    from translator import gen_limits
    gen_limits.main([])          # Gen/Limits.lean: constants and limits read from the current source
    chk.trusted.append("translator/gen_limits.py (constants / limits of the source -> Gen/Limits.lean: compiled probe + "
                       "preprocessed function bodies at named anchors; tied to the model numerals by Props/Limits/C08.lean)")
    problems = chk.prove(MODULES, AUDIT, want_leanchecker=(chk.tier == "thorough"))
    problems = gen_limits.name_failures(chk, problems, "C08")   # name the tie theorems that fail
    exe, err = build()
    if exe is None:
        chk.violation("implementation does not build: " + err[-1500:], ["build-error"], nofail=True)
        return
    rng = random.Random(chk.seed)
    quick = chk.tier == "quick"
    kw = dict(case_start=CASE_START, classify=classify, sig_of=sig_of)
    total = {}

    def go(cases):
        ops = [l for c in cases for l in c]
        st = corr.correspond(chk, AREA, exe, ops, **kw)
        for k, v in st.items():
            total[k] = total.get(k, 0) + v

    # 1. known-finding reproducer + fixed-defect regressions (always first)
    go([kf_witness_case()] + [gen_reuse_case(rng) for _ in range(4)])
    go(regression_cases() + [hole_masked_case()] + [gen_malformed_upper_case(rng) for _ in range(6 if quick else 60)])
    # 2. small-scope exhaustive
    ex = exhaustive_cases(2500 if quick else 10**9, rng, big=not quick)
    for i in range(0, len(ex), 20000):
        go(ex[i:i + 20000])
    chk.extra["exhaustive_cases"] = len(ex)
    # 3. random histories inside the hypothesis
    n_valid = 4000 if quick else 100000
    for i in range(0, n_valid, 20000):
        go([gen_valid_case(rng) for _ in range(min(20000, n_valid - i))])
    go([gen_valid_case(rng, max_len=3000, max_pieces=40, max_dg=3) for _ in range(40 if quick else 600)])
    go([gen_valid_case(rng, max_len=65515, max_pieces=60, max_dg=2) for _ in range(3 if quick else 60)])
    # 4. hostile histories (model/implementation correspondence + the safety oracle for arbitrary histories)
    go(pair_overlap_cases(rng))
    go(oversize_cases(rng)[:(3 if quick else 7)])
    go(grid_cases(4, 2, rng))                                                       # exhaustive: 40^2 sequences
    if quick:
        go(grid_cases(5, 5, rng, sample=3000))
    else:
        gc = grid_cases(4, 3, rng)                                                  # exhaustive: 40^3 sequences
        for i in range(0, len(gc), 20000):
            go(gc[i:i + 20000])
        go(grid_cases(6, 6, rng, sample=60000))
    go([gen_conflicting_last_case(rng) for _ in range(400 if quick else 8000)])
    go([gen_same_offset_case(rng) for _ in range(400 if quick else 8000)])
    go([gen_hole_masked_case(rng) for _ in range(300 if quick else 5000)])
    n_host = 3000 if quick else 80000
    for i in range(0, n_host, 20000):
        go([gen_hostile_case(rng) for _ in range(min(20000, n_host - i))])
    for p in problems:
        if not (total.get("spec", 0) + total.get("fault", 0)):
            chk.violation("proof obligation no longer checks: " + p[:1500], ["theorem-or-audit-failure", p[:4000]], nofail=True)
    chk.cov["rule"] = ("cases = (datagram table, history of fragment / whole / non-IP / remove / clear events); "
                       "distinct_nontrivial counts distinct (operation, implementation result) pairs")
    chk.assumptions += [
        "UDP and option-less TCP payloads produced by the generator are canonical (length and checksum fields correct), so "
        "that libtins' re-serialisation of the parsed upper layer equals the original bytes (round-trip itself is C03)",
        "payload equality is compared through length + FNV-1a 64",
        "std::map order is not observable through IPv4Reassembler's interface; streams_ is modelled as an association list",
        "IP options are modelled as an opaque count that is copied with the header (NOOP options on the wire)",
        "key re-use is only specified after the earlier datagram was completed (no timers in the API)",
        "outside the property's hypothesis (overlapping / conflicting fragments) the expected behaviour is the documented "
        "policy of the class (first fragment at an offset wins, RFC 791 TDL from the most recent last fragment, exact cover "
        "or drop): TinsModel/Reassembly/Policy.lean; the property itself only demands the safety clauses",
        "no user-registered PDU allocator for IP protocols (Internals::allocate<IP> is not consulted by allocate_pdu anyway)",
    ]
    chk.trusted += ["correspondence harness harness/c08_reasm.cpp (own RFC 791 encoder) + generators in checks/C08.py",
                    "g++ 12 / ASan+UBSan build of the repo working tree; harness built with -fno-access-control to read streams_.size()"]
    chk.extra["modelled_not_proved"] = [
        "the bytes the reassembled upper layer re-serialises to are compared by correspondence for UDP / option-less TCP / "
        "class-less protocols only (the theorems speak about the layers pdu_from_flag builds, Props/C08Wire.lean; "
        "re-serialisation of parsed layers is C03)",
        "IP options are an opaque word count in the reassembly model (copied with the first header); their contents in the "
        "reassembled packet are compared by correspondence (NOOP options)",
    ]
    corr.finalize_cov(chk)


def replay(path):
    exe, err = build()
    ops = [l.rstrip("\n") for l in open(path) if not l.startswith("#") and l.strip()]
    impl, mod, spec, faults = corr.evaluate(AREA, exe, ops, CASE_START)
    bad = corr.first_problem(ops, impl, mod, spec)
    for o, a, b, c in zip(ops, impl, mod, spec):
        print(o[:200]); print("  impl :", a[:300]); print("  model:", b[:300]); print("  spec :", c[:300])
    if bad:
        print(f"VIOLATION property=C08 replay={path}")
        return 1
    return 0
