"""Structured generators of the Ip family (IP with options, IPSecAH, IPSecESP).

gen_parse: packets built byte by byte here (independently of libtins) + targeted mutants (option lengths, END / NOP
           placements, header length and total length +-1, every value of the option type / protocol / next-header octets,
           fragments, nested chains EthernetII/IP/UDP, IP/IP, IP/AH/UDP, IP/ESP).
gen_build: API programs (new / push / set / show): option add / remove histories crossing the 8-byte small-buffer threshold of
           PDUOption, typed option setters, scalar setters, stacks the protocols can express.
refine_sig: narrows the signature of a minimised failing case (`when`), used by known_findings.d/wire_ip.jsonl.

Representability (what the builders keep to, and why):
 * a top-level IP always has a source address: IP::prepare_for_serialize() replaces 0.0.0.0 by the address of the host's
   outgoing interface (environment; known finding KF-C03-Ip-4 / KF-C04-Ip-2, reproduced by a few dedicated lines);
 * at most 40 bytes of options (the header length is a 4 bit word count; known finding KF-C02-Ip-3 beyond);
 * options the wire format can express: types 0/1 without data, data of at most 253 bytes, advertised length = data
   length, END only as the last option (known finding KF-C04-Ip-1 for the rest) and only inside the padding (KF-C04-Ip-4);
 * `protocol` / `next_header` are set by hand only to values libtins does not dispatch on, and only in front of a RawPDU;
 * fragments (MF set or offset != 0) carry a RawPDU: a fragment's payload is never parsed;
 * AH ICVs of a multiple of 4 bytes (known finding KF-C04-Ip-3 for the rest).
"""

IP_RECOGNISED = [1, 4, 6, 17, 41, 50, 51, 58]
LENS = [0, 1, 2, 3, 4, 7, 8, 9, 12, 19, 20, 21, 28, 40, 41, 60]


def hexs(b):
    return bytes(b).hex() if b else "-"


def rb(rng, n):
    return bytes(rng.randrange(256) for _ in range(n))


def be16(v):
    return bytes([(v >> 8) & 255, v & 255])


def be32(v):
    return bytes([(v >> 24) & 255, (v >> 16) & 255, (v >> 8) & 255, v & 255])


def addr(rng):
    """a non-zero IPv4 address"""
    return rng.choice([bytes([192, 168, 0, 1]), bytes([10, 0, 0, rng.randrange(1, 255)]), b"\xff\xff\xff\xff",
                       bytes([224, 0, 0, 251]), bytes([rng.randrange(1, 256)]) + rb(rng, 3)])


def unrec_proto(rng):
    while True:
        v = rng.choice([0, 2, 3, 47, 89, 132, 253, 254, 255, rng.randrange(256)])
        if v not in IP_RECOGNISED:
            return v


def raw_payload(rng):
    return rb(rng, rng.choice(LENS + [rng.randint(0, 80)]))


# ------------------------------------------------------------------------------------------------ byte-level builders

def opt(t, data=b"", length=None):
    if t in (0, 1) and length is None and not data:
        return bytes([t])
    return bytes([t, (2 + len(data) if length is None else length) & 255]) + data


def route_opt(rng, t):
    n = rng.choice([0, 1, 1, 2, 3, 9])
    return opt(t, bytes([rng.choice([4, 8, 4 + 4 * n, rng.randrange(256)])]) + rb(rng, 4 * n))


def one_option(rng):
    k = rng.random()
    if k < 0.2:
        return opt(1)
    if k < 0.3:
        return opt(130, rb(rng, 9))
    if k < 0.38:
        return opt(136, rb(rng, 2))
    if k < 0.5:
        return route_opt(rng, rng.choice([131, 137, 7]))
    if k < 0.56:
        return opt(68, bytes([5, rng.randrange(256)]) + rb(rng, rng.choice([0, 4, 8])))
    if k < 0.62:
        return opt(148, rb(rng, 2))                                        # router alert
    t = rng.choice([2, 3, 9, 0x20, 0x21, 0x41, 0x80, 0x81, 0x82, 0x9f, 0xfe, 0xff, rng.randrange(2, 256)])
    return opt(t, rb(rng, rng.choice([0, 1, 2, 3, 4, 6, 7, 8, 9, 10, 14, 36, 37, 38])))


def option_list(rng, budget=40):
    """a well-formed option area of at most `budget` bytes, padded to a multiple of four"""
    out = b""
    for _ in range(rng.choice([0, 1, 1, 2, 2, 3, 5, 8])):
        o = one_option(rng)
        if len(out) + len(o) > budget:
            break
        out += o
    pad = (-len(out)) % 4
    k = rng.random()
    if pad:
        if k < 0.5:
            out += bytes(pad)                                               # END + zero padding (what libtins writes)
        elif k < 0.75:
            out += bytes([1]) * pad                                         # NOP padding
        else:
            out += bytes([0]) + rb(rng, pad - 1)                            # END, then garbage padding
    elif k < 0.15 and len(out) + 4 <= budget:
        out += rng.choice([bytes(4), bytes([1, 1, 1, 0]), bytes([0]) + rb(rng, 3)])
    return out


def udp_bytes(rng, pl=None):
    pl = rb(rng, rng.choice([0, 1, 4, 18])) if pl is None else pl
    return be16(rng.randrange(65536)) + be16(rng.choice([53, 9, rng.randrange(65536)])) + be16(8 + len(pl)) + be16(0) + pl


def esp_bytes(rng):
    return be32(rng.randrange(1 << 32)) + be32(rng.randrange(1 << 32)) + raw_payload(rng)


def ah_bytes(rng, depth=0):
    icv = rb(rng, 4 * rng.choice([0, 1, 1, 3, 3, 4, 8]))
    k = rng.random()
    if k < 0.3:
        nh, pl = 17, udp_bytes(rng)
    elif k < 0.4:
        nh, pl = 50, esp_bytes(rng)
    elif k < 0.5 and depth < 2:
        nh, pl = 4, ip_bytes(rng, depth + 1)
    elif k < 0.6:
        nh, pl = rng.choice(IP_RECOGNISED), raw_payload(rng)             # a recognised tag in front of garbage
    else:
        nh, pl = unrec_proto(rng), raw_payload(rng)
    ln = len(icv) // 4 + 1
    if rng.random() < 0.12:
        ln = rng.choice([0, 1, ln + 1, ln - 1 if ln else 0, 255, rng.randrange(256)])
    return bytes([nh, ln & 255]) + rng.choice([bytes(2), rb(rng, 2)]) + be32(rng.randrange(1 << 32)) + be32(rng.randrange(1 << 32)) + icv + pl


def ip_payload(rng, depth=0):
    """(protocol, payload bytes)"""
    k = rng.random()
    if depth > 2:
        k = 0.95
    if k < 0.25:
        return 17, udp_bytes(rng)
    if k < 0.33:
        return 4, ip_bytes(rng, depth + 1)
    if k < 0.43:
        return 51, ah_bytes(rng, depth + 1)
    if k < 0.5:
        return 50, esp_bytes(rng)
    if k < 0.55:
        return rng.choice([1, 6, 41, 58]), raw_payload(rng)               # classes of other families
    if k < 0.62:
        return rng.choice(IP_RECOGNISED), raw_payload(rng)
    if k < 0.68:
        return unrec_proto(rng), b""
    return unrec_proto(rng), raw_payload(rng)


def ip_header(rng, opts, proto, plen, tot=None, ihl=None, frag=None, src=None, version=4):
    hl = 20 + len(opts)
    ihl = hl // 4 if ihl is None else ihl
    tot = hl + plen if tot is None else tot
    if frag is None:
        frag = rng.choice([0, 0, 0, 0x4000, 0x8000, 0xc000])
    return (bytes([(version << 4) | (ihl & 15), rng.choice([0, 0x10, rng.randrange(256)])]) + be16(tot & 0xffff) +
            be16(rng.randrange(65536)) + be16(frag) + bytes([rng.choice([64, 128, 1, 255, rng.randrange(256)]), proto]) +
            be16(rng.choice([0, rng.randrange(65536)])) + (addr(rng) if src is None else src) + rng.choice([addr(rng), bytes(4)]) + opts)


def ip_bytes(rng, depth=0, opts=None):
    opts = (option_list(rng) if rng.random() < 0.6 else b"") if opts is None else opts
    proto, pl = ip_payload(rng, depth)
    k = rng.random()
    tot = None
    if k < 0.06:
        tot = 0                                                             # TCP segmentation offload
    elif k < 0.12:
        tot = 20 + len(opts) + len(pl) + rng.choice([1, 2, 100, 40000])     # announces more than captured
    elif k < 0.2 and pl:
        tot = 20 + len(opts) + rng.randrange(len(pl))                       # announces less (link-layer padding follows)
    elif k < 0.24:
        tot = rng.choice([1, 19, 20, 20 + len(opts) - 1, 20 + len(opts)])    # smaller than / equal to the header
    frag = None
    if rng.random() < 0.12:
        frag = rng.choice([0x2000, 0x2001, 0x0001, 0x1fff, 0x3fff, 0x6000, 0xffff])
    return ip_header(rng, opts, proto, len(pl), tot=tot, frag=frag) + pl


def eth_ip(rng):
    b = ip_bytes(rng)
    return rb(rng, 6) + rb(rng, 6) + be16(0x0800) + b + bytes(rng.choice([0, 0, 0, 6, 18]))


BUILDERS = {"IP": ip_bytes, "IPSecAH": ah_bytes, "IPSecESP": esp_bytes, "EthernetII": eth_ip}


def mutate(rng, b):
    b = bytearray(b)
    if not b:
        return bytes(b)
    k = rng.random()
    if k < 0.3:
        return bytes(b[:rng.randrange(len(b) + 1)])
    if k < 0.5:
        i = rng.randrange(len(b)); b[i] ^= 1 << rng.randrange(8)
        return bytes(b)
    if k < 0.62:
        b[0] = (b[0] & 0xf0) | rng.choice([0, 4, 5, 6, 7, 14, 15, ((b[0] & 15) + 1) & 15, ((b[0] & 15) - 1) & 15])   # header length
        return bytes(b)
    if k < 0.72 and len(b) >= 4:
        v = (b[2] << 8) | b[3]
        v = rng.choice([0, 1, 19, 20, v + 1, v - 1, 0xffff, len(b), len(b) - 1, len(b) + 1]) & 0xffff                # total length
        b[2], b[3] = v >> 8, v & 255
        return bytes(b)
    if k < 0.9:
        i = rng.randrange(min(len(b), 64)); b[i] = rng.choice([0, 1, 2, 3, 4, 7, 8, 9, 0x20, 0x44, 0x7f, 0x80, 0x81, 0x83, 0xfd, 0xfe, 0xff])
        return bytes(b)
    return bytes(b) + rb(rng, rng.choice([1, 2, 4, 18]))


SRC = bytes([10, 1, 2, 3])
DST = bytes([10, 9, 8, 7])


def fixed_ip(opts, proto=253, pl=b"\x99\xaa", ihl=None, tot=None, frag=0):
    hl = 20 + len(opts)
    ihl = hl // 4 if ihl is None else ihl
    tot = hl + len(pl) if tot is None else tot
    return bytes([0x40 | (ihl & 15), 0]) + be16(tot & 0xffff) + be16(1) + be16(frag) + bytes([64, proto]) + be16(0) + SRC + DST + opts + pl


def exhaustive_small():
    """every value of the one-byte type / tag fields, the boundary option lengths and the END / NOP placements"""
    ops = []
    add = lambda b, cls="IP": ops.append(f"parse {cls} " + hexs(b))
    for t in range(256):                                    # every option type octet: alone, with a length octet, with data
        add(fixed_ip(bytes([t, 1, 1, 1])))
        add(fixed_ip(bytes([t, 2, 1, 1])))
        add(fixed_ip(bytes([t, 4, 0xab, 0xcd])))
        add(fixed_ip(bytes([1, 1, 1, t])))                  # the type octet is the last byte of the header
        add(fixed_ip(bytes([1, 1, 1, t]), pl=b""))
    for ln in (0, 1, 2, 3, 4, 5, 6, 7, 8, 9, 10, 11, 12, 38, 39, 40, 41, 42, 253, 254, 255):   # option length octet vs room
        for room in (4, 8, 12, 40):
            body = (bytes([0x83, ln]) + bytes(range(1, 60)))[:room]
            add(fixed_ip(body))
            add(fixed_ip(bytes([1]) + body[:room - 1]))
    for n_nop in range(0, 5):                               # END / NOP placements in an 8-byte option area
        for tail in (b"", bytes([0]), bytes([0, 0]), bytes([0, 1]), bytes([0, 0x83, 3, 4]), bytes([0, 0xff, 0xff])):
            area = (bytes([1]) * n_nop + tail + bytes(8))[:8]
            add(fixed_ip(area))
            area2 = (bytes([1]) * n_nop + tail + bytes([0xee]) * 8)[:8]
            add(fixed_ip(area2))
    for t in (0x02, 0x44, 0x82, 0x83, 0x20, 0x80, 0xff):    # a 60-byte header whose last byte is a multi-byte option type:
        for first in (0, 1, 2, 3, 0xff):                    # the length octet would come from the payload (KF-C02-Ip-4)
            add(fixed_ip(bytes([1]) * 39 + bytes([t]), pl=bytes([first, 0xaa, 0xbb, 0xcc])))
            add(fixed_ip(bytes([1]) * 39 + bytes([t]), pl=b""))
    for ihl in range(16):                                   # header length field against a 28-byte buffer with options
        add(fixed_ip(bytes([1, 1, 1, 1, 0x88, 4, 0, 7]), ihl=ihl, pl=b""))
        add(fixed_ip(bytes([1, 1, 1, 1, 0x88, 4, 0, 7]), ihl=ihl))
        add(fixed_ip(b"", ihl=ihl, pl=bytes(44)))
    # the option layouts real traffic carries (router alert, record route, timestamp, LSRR, security, stream id) under every
    # header length from 5 up to the one the layout needs, the buffer ending at the declared header end / with everything
    # present: a declared header that ends inside a recognisable layout (cf. seeded/C01d for TCP)
    layouts = [bytes([0x94, 4, 0, 0]), bytes([7, 7, 4, 10, 0, 0, 1, 1]), bytes([7, 11, 8, 10, 0, 0, 1, 10, 0, 0, 2, 0]),
               bytes([0x44, 12, 5, 0, 0, 0, 0, 1, 0, 0, 0, 2]), bytes([0x83, 7, 4, 192, 0, 2, 1, 1]),
               bytes([0x82, 11, 0, 0, 0, 0, 0, 0, 0, 0, 0, 1]), bytes([0x88, 4, 0, 7]), bytes([1, 1, 0x94, 4, 0, 0, 1, 1])]
    for L in layouts:
        need = (20 + len(L)) // 4
        for ihl in range(5, need + 1):
            b = fixed_ip(L, ihl=ihl, pl=b"")
            add(b[:4 * ihl])
            add(b)
            add(fixed_ip(L, ihl=ihl, pl=bytes(range(1, 10))))
            if ihl < need:
                add(b[:4 * ihl + 2])
    for tot in (0, 1, 19, 20, 21, 22, 23, 24, 25, 26, 27, 28, 29, 65535):   # total length field around header / packet end
        add(fixed_ip(bytes([1, 1, 1, 0]), tot=tot, pl=b"\x01\x02\x03\x04"))
        add(fixed_ip(bytes([1, 1, 1, 0]), tot=tot, proto=17, pl=udp_fixed()))
    for p in range(256):                                    # every protocol value in front of nothing / garbage / UDP-shaped bytes
        add(fixed_ip(b"", proto=p, pl=b""))
        add(fixed_ip(b"", proto=p, pl=b"\x01"))
        add(fixed_ip(b"", proto=p, pl=udp_fixed()))
    for frag in (0x2000, 0x0001, 0x1fff, 0x2001, 0x4000, 0x8000, 0xa000, 0xe000, 0xffff):
        add(fixed_ip(b"", proto=17, pl=udp_fixed(), frag=frag))
        add(fixed_ip(bytes([1, 1, 1, 1]), proto=253, pl=b"\x01\x02", frag=frag))
    for nh in range(256):                                   # AH: every next-header value, every length value
        add(bytes([nh, 1, 0, 0]) + be32(7) + be32(9), "IPSecAH")
        add(bytes([nh, 2, 0, 0]) + be32(7) + be32(9) + b"\x01\x02\x03\x04" + udp_fixed(), "IPSecAH")
    for ln in range(256):
        add(bytes([253, ln, 0xab, 0xcd]) + be32(7) + be32(9) + bytes(range(24)), "IPSecAH")
    for cut in range(0, 20):
        add((bytes([17, 2, 0, 0]) + be32(7) + be32(9) + b"\x01\x02\x03\x04" + udp_fixed())[:cut], "IPSecAH")
        add((be32(1) + be32(2) + b"\x01\x02\x03")[:cut], "IPSecESP")
    return ops


def udp_fixed():
    return be16(1000) + be16(53) + be16(10) + be16(0) + b"\x61\x62"


def known_finding_parse_ops():
    """actively reproduced known finding KF-C03-Ip-4: a top-level IP with source 0.0.0.0"""
    return ["parse IP " + hexs(bytes([0x45, 0]) + be16(22) + be16(1) + be16(0) + bytes([64, 253]) + be16(0) + bytes(4) + DST + b"\x01\x02")]


def gen_parse(rng, n):
    base = exhaustive_small() + known_finding_parse_ops()
    ops = list(base)
    names = ["IP"] * 6 + ["IPSecAH"] * 2 + ["IPSecESP", "EthernetII", "EthernetII"]
    while len(ops) < n + len(base):
        c = rng.choice(names)
        b = BUILDERS[c](rng)
        k = rng.random()
        if k < 0.45:
            ops.append(f"parse {c} {hexs(b)}")
        elif k < 0.9:
            for _ in range(rng.choice([1, 1, 2])):
                b = mutate(rng, b)
            if c == "IP" and b[12:16] == bytes(4):
                continue                                    # keep the environment out of the random stream
            ops.append(f"parse {c} {hexs(b)}")
        else:                                               # every prefix of a structured packet (bounded)
            step = max(1, len(b) // 32)
            for i in range(0, len(b) + 1, step):
                ops.append(f"parse {c} {hexs(b[:i])}")
    return ops


# ------------------------------------------------------------------------------------------------ API programs

class Prog:
    def __init__(self, rng):
        self.rng = rng
        self.ops = ["new"]
        self.layers = []

    def push(self, cls, *args):
        self.ops.append(" ".join(["push", cls] + [str(a) for a in args]))
        self.layers.append(cls)
        return len(self.layers) - 1

    def set(self, idx, *op):
        self.ops.append(" ".join(["set", str(idx)] + [str(a) for a in op]))
        if self.rng.random() < 0.12:
            self.ops.append("show")

    def done(self):
        self.ops.append("show")
        return self.ops


DATA_LENS = [0, 1, 2, 3, 4, 6, 7, 8, 9, 10, 11, 14, 20, 30, 36, 37, 38]


def api_option(rng, room):
    """one representable option-adding call that needs at most `room` bytes; returns (op words, bytes used, type or None)"""
    k = rng.random()
    if k < 0.15 and room >= 1:
        return ["noop"], 1, 1
    if k < 0.27 and room >= 11:
        return ["security", rng.randrange(65536), rng.randrange(65536), rng.randrange(65536), rng.randrange(1 << 24)], 11, 130
    if k < 0.37 and room >= 4:
        return ["stream_identifier", rng.choice([0, 1, 0x91fa, 65535, rng.randrange(65536)])], 4, 136
    if k < 0.55 and room >= 3:
        name, t = rng.choice([("lsrr", 131), ("ssrr", 137), ("record_route", 7)])
        nmax = min(9, (room - 3) // 4)
        nr = rng.choice([0, 1, 2, nmax, rng.randint(0, nmax)])
        return [name, rng.choice([4, 8, 45, 255, rng.randrange(256)]), hexs(rb(rng, 4 * nr))], 3 + 4 * nr, t
    if room >= 2:
        t = rng.choice([2, 7, 68, 130, 131, 136, 148, 0x20, 0x21, 0x80, 0x81, 0xfe, 0xff, rng.randrange(2, 256)])
        ln = min(rng.choice(DATA_LENS), room - 2)
        return ["add_option", t, hexs(rb(rng, ln))], 2 + ln, t
    return ["noop"], 1, 1


def ip_option_program(rng, p, i):
    """option add / remove history on layer i, keeping the list within 40 bytes"""
    present = p.__dict__.setdefault("present", {}).setdefault(i, [])     # (type, size) in order, kept across calls
    if present and present[-1][0] == 0:
        return                                              # END is the last option
    used = lambda: sum(s for _, s in present)
    for _ in range(rng.choice([0, 0, 1, 1, 2, 3, 4, 6, 9])):
        if present and rng.random() < 0.25:
            t = rng.choice(present)[0] if rng.random() < 0.85 else rng.randrange(2, 256)
            p.set(i, "remove_option", t)
            for j, (pt, _) in enumerate(present):
                if pt == t:
                    del present[j]
                    break
            continue
        op, size, t = api_option(rng, 40 - used())
        if used() + size > 40:
            continue
        p.set(i, *op)
        present.append((t, size))
    if rng.random() < 0.2 and used() % 4 != 0:
        # END only as the last option, and only where it is part of the padding: after an aligned option list eol() adds a
        # whole word of END + padding that a parser cannot tell from padding (known finding KF-C04-Ip-4)
        p.set(i, "eol")
        present.append((0, 1))


def ip_setters(rng, p, i, top, payload_raw, has_payload):
    for _ in range(rng.randint(0, 4)):
        k = rng.randrange(8)
        if k == 0:
            p.set(i, "tos", rng.randrange(256))
        elif k == 1:
            p.set(i, "id", rng.choice([0, 1, 65535, rng.randrange(65536)]))
        elif k == 2:
            p.set(i, "ttl", rng.randrange(256))
        elif k == 3:
            p.set(i, "dst_addr", rng.choice([addr(rng), bytes(4)]).hex())
        elif k == 4:
            p.set(i, "src_addr", (addr(rng) if top else rng.choice([addr(rng), bytes(4)])).hex())
        elif k == 5:
            p.set(i, "version", rng.choice([4, 4, 0, 6, 15]))
        elif k == 6 and payload_raw:
            p.set(i, "flags", rng.randrange(8))
            if rng.random() < 0.5:
                p.set(i, "fragment_offset", rng.choice([0, 1, 185, 8191, rng.randrange(8192)]))
        elif k == 6:
            p.set(i, "flags", rng.choice([0, 2, 4, 6]))    # DF / reserved only: the packet is not a fragment
        elif k == 7 and payload_raw and has_payload:
            p.set(i, "protocol", unrec_proto(rng))


def build_program(rng):
    p = Prog(rng)
    kind = rng.random()
    if kind < 0.1:
        # AH / ESP as the outermost layer
        first = rng.choice(["IPSecAH", "IPSecESP"])
        p.push(first)
        payload = rng.choice(["raw", "raw", "udp", "none"]) if first == "IPSecAH" else rng.choice(["raw", "none"])
    else:
        top = True
        if rng.random() < 0.35:
            p.push("EthernetII", rb(rng, 6).hex(), rb(rng, 6).hex())
            top = False
        if top or rng.random() < 0.7:
            p.push("IP", addr(rng).hex(), addr(rng).hex())
        else:
            p.push("IP")                                    # source 0.0.0.0 below a link layer: no environment involved
        payload = rng.choice(["raw", "raw", "udp", "udp", "none", "ah", "esp", "ipip"])
    if payload == "ah":
        p.push("IPSecAH")
        payload = rng.choice(["raw", "udp", "none", "esp"])
    if payload == "ipip":
        p.push("IP", addr(rng).hex(), rng.choice([addr(rng), bytes(4)]).hex())
        payload = rng.choice(["raw", "udp", "none"])
    if payload == "udp":
        p.push("UDP", rng.randrange(65536), rng.randrange(65536))
        if rng.random() < 0.8:
            p.push("RawPDU", hexs(rb(rng, rng.choice([0, 1, 2, 7, 18, 33]))))
    elif payload == "esp":
        p.push("IPSecESP")
        if rng.random() < 0.8:
            p.push("RawPDU", hexs(raw_payload(rng)))
    elif payload == "raw":
        p.push("RawPDU", hexs(raw_payload(rng) or b"\x99"))
    # edits
    for idx, cls in enumerate(list(p.layers)):
        below = p.layers[idx + 1] if idx + 1 < len(p.layers) else None
        if cls == "IP":
            is_top = (idx == 0)
            ip_option_program(rng, p, idx)
            ip_setters(rng, p, idx, is_top, below in (None, "RawPDU"), below == "RawPDU")
            if rng.random() < 0.3:
                ip_option_program(rng, p, idx)
        elif cls == "IPSecAH":
            for _ in range(rng.randint(0, 3)):
                k = rng.randrange(5)
                if k == 0:
                    p.set(idx, "spi", rng.choice([0, 1, 0xffffffff, rng.randrange(1 << 32)]))
                elif k == 1:
                    p.set(idx, "seq_number", rng.choice([0, 1, 0xffffffff, rng.randrange(1 << 32)]))
                elif k == 2:
                    p.set(idx, "icv", hexs(rb(rng, 4 * rng.choice([0, 1, 2, 3, 4, 5, 8, 16]))))
                elif k == 3:
                    p.set(idx, "length", rng.randrange(256))                 # derived: overwritten on serialization
                elif below == "RawPDU":
                    p.set(idx, "next_header", unrec_proto(rng))
        elif cls == "IPSecESP":
            for _ in range(rng.randint(0, 2)):
                p.set(idx, rng.choice(["spi", "seq_number"]), rng.choice([0, 1, 0xffffffff, rng.randrange(1 << 32)]))
        elif cls == "UDP":
            if rng.random() < 0.3:
                p.set(idx, rng.choice(["sport", "dport"]), rng.randrange(65536))
    return p.done()


def boundary_programs():
    """option data lengths around the small-buffer threshold and the 40-byte limit, one option per packet and stacked"""
    out = []
    for ln in (0, 1, 2, 3, 4, 6, 7, 8, 9, 10, 16, 37, 38):
        for t in (7, 130, 0x21, 0x80, 0xff):
            out += ["new", f"push IP {DST.hex()} {SRC.hex()}", f"set 0 add_option {t} {hexs(bytes(range(1, ln + 1)))}",
                    "push RawPDU 0102", "show", f"set 0 remove_option {t}", "show"]
    for n in (1, 2, 3, 4, 5, 38, 39, 40):                  # n NOPs: every padding amount, up to the limit
        out += ["new", f"push IP {DST.hex()} {SRC.hex()}"] + ["set 0 noop"] * n + ["push RawPDU 0102", "show"]
    for n in range(0, 10):                                  # route options with 0..9 addresses (9 fills the header)
        out += ["new", f"push IP {DST.hex()} {SRC.hex()}", f"set 0 record_route {4 + 4 * n} {hexs(bytes(range(4 * n)))}", "show",
                "push RawPDU 0102", "show"]
    # add, remove, add again (first match is removed), across the small-buffer threshold
    out += ["new", f"push IP {DST.hex()} {SRC.hex()}", "set 0 add_option 130 0102030405060708", "set 0 add_option 130 010203040506070809",
            "set 0 add_option 131 04", "show", "set 0 remove_option 130", "show", "set 0 add_option 130 aa", "show",
            "set 0 remove_option 130", "set 0 remove_option 130", "set 0 remove_option 130", "push RawPDU 01", "show"]
    return out


def known_finding_programs():
    """actively reproduced known findings (one minimal program each)"""
    nozero = f"push IP {DST.hex()} {SRC.hex()}"
    return [
        # KF-C04-Ip-2: top-level IP with source 0.0.0.0
        "new", "push IP", "push RawPDU 0102", "show",
        # KF-C02-Ip-3: more than 40 bytes of options
        "new", nozero, "set 0 add_option 130 " + "aa" * 38, "set 0 noop", "push RawPDU 0102", "show",
        # … far more: 1004 / 1024 bytes of options used to wrap the header length to 0 / 5 (fixed, KF-C02-Ip-2)
        "new", nozero] + ["set 0 add_option 130 " + "bb" * 249] * 4 + ["push RawPDU 0102", "show",
        "new", nozero] + ["set 0 add_option 130 " + "bb" * 254] * 4 + ["push RawPDU 0102", "show",
        # KF-C04-Ip-1: options the wire format cannot express
        "new", nozero, "set 0 add_option 1 aabb", "push RawPDU 0102", "show",
        "new", nozero, "set 0 add_option_len 130 7 aabb", "push RawPDU 0102", "show",
        "new", nozero, "set 0 eol", "set 0 noop", "push RawPDU 0102", "show",
        # KF-C04-Ip-4: END added to an aligned option list
        "new", nozero, "set 0 eol", "push RawPDU 0102", "show",
        # KF-C04-Ip-3: AH ICV that is not a multiple of 4 bytes
        "new", "push IPSecAH", "set 0 icv aabbcc", "push RawPDU 0102", "show",
    ]


def gen_build(rng, n):
    ops = boundary_programs() + known_finding_programs()
    target = len(ops) + n
    while len(ops) < target:
        ops += build_program(rng)
    return ops


# ------------------------------------------------------------------------------------------------ signatures

def _simulate(case):
    """what the minimised API program built: per layer class, IP option list and source, AH icv length"""
    layers = []
    for l in case:
        w = l.split(" ")
        if w[0] == "new":
            layers = []
        elif w[0] == "push":
            if w[1] == "IP":
                layers.append({"cls": "IP", "src": w[3] if len(w) >= 4 else "00000000", "opts": []})
            elif w[1] == "IPSecAH":
                layers.append({"cls": "IPSecAH", "icv": 4})
            else:
                layers.append({"cls": w[1]})
        elif w[0] == "set" and len(w) >= 3:
            try:
                L = layers[int(w[1])]
            except (ValueError, IndexError):
                continue
            op = w[2:]
            hexlen = lambda h: 0 if h == "-" else len(h) // 2
            if L["cls"] == "IP":
                o = L["opts"]
                if op[0] == "src_addr":
                    L["src"] = op[1]
                elif op[0] == "add_option":
                    t, ln = int(op[1]) & 255, hexlen(op[2]); o.append((t, ln, ln))
                elif op[0] == "add_option_len":
                    o.append((int(op[1]) & 255, int(op[2]) & 65535, hexlen(op[3])))
                elif op[0] == "remove_option":
                    for j, x in enumerate(o):
                        if x[0] == (int(op[1]) & 255):
                            del o[j]
                            break
                elif op[0] == "eol":
                    o.append((0, 0, 0))
                elif op[0] == "noop":
                    o.append((1, 0, 0))
                elif op[0] == "security":
                    o.append((130, 9, 9))
                elif op[0] == "stream_identifier":
                    o.append((136, 2, 2))
                elif op[0] in ("lsrr", "ssrr", "record_route"):
                    ln = 1 + hexlen(op[2]); o.append(({"lsrr": 131, "ssrr": 137, "record_route": 7}[op[0]], ln, ln))
            elif L["cls"] == "IPSecAH" and op[0] == "icv":
                L["icv"] = hexlen(op[1])
    return layers


def refine_sig(sig, case, detail):
    sig = dict(sig)
    last = case[-1].split(" ")
    if last[0] == "parse":
        if last[1] == "IP" and len(last) > 2 and last[2] != "-":
            try:
                b = bytes.fromhex(last[2])
            except ValueError:
                return sig
            if len(b) >= 20 and b[12:16] == bytes(4):
                sig["when"] = "ip-toplevel-src-0"
        return sig
    layers = _simulate(case)
    for idx, L in enumerate(layers):
        if L["cls"] == "IP":
            size = sum(1 if t <= 1 else 2 + dl for t, _, dl in L["opts"])
            bad = any((t <= 1 and dl > 0) or (t > 1 and (lf != dl or dl > 253)) for t, lf, dl in L["opts"]) or \
                any(t == 0 for t, _, _ in L["opts"][:-1])
            if sig.get("clause") == "serialize-total" and (size + 3) // 4 * 4 > 40:
                sig["when"] = "ip-options-over-40"          # serialize() refuses: the header length, whatever the options
                return sig
            if bad:
                sig["when"] = "ip-add-option-unrepresentable"
                return sig
            if L["opts"] and L["opts"][-1][0] == 0 and (size - 1) % 4 == 0 and (size + 3) // 4 * 4 <= 40:
                sig["when"] = "ip-eol-on-aligned-options"
                return sig
            if (size + 3) // 4 * 4 > 40:
                sig["when"] = "ip-options-over-40"
                return sig
            if idx == 0 and L["src"] == "00000000":
                sig["when"] = "ip-toplevel-src-0"
                return sig
        elif L["cls"] == "IPSecAH":
            if L["icv"] % 4 != 0 or L["icv"] > 1016:
                sig["when"] = "ah-icv-not-multiple-of-4"
                return sig
    return sig
