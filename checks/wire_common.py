"""Shared by C01–C04: the wire line protocol (harness/wire_main.cpp, lean/Driver/Wire.lean), generators, runner."""
import json, os, random
from vlib import core, corr

ENTRY_CLASSES = [
    "EthernetII", "Dot3", "LLC", "SNAP", "Dot1Q", "MPLS", "PPPoE", "SLL", "Loopback", "PPI", "PKTAP",
    "IP", "IPv6", "IPSecAH", "IPSecESP", "TCP", "UDP", "ICMP", "ICMPv6",
    "BootP", "DHCP", "DHCPv6", "DNS", "RTP", "VXLAN", "ARP", "STP", "RC4EAPOL", "RSNEAPOL", "EAPOL*",
    "RadioTap", "RawPDU", "Dot11*", "Dot11", "Dot11Ack", "Dot11AssocRequest", "Dot11AssocResponse",
    "Dot11Authentication", "Dot11Beacon", "Dot11BlockAck", "Dot11BlockAckRequest", "Dot11CFEnd", "Dot11Data",
    "Dot11Control", "Dot11Deauthentication", "Dot11Disassoc", "Dot11EndCFAck", "Dot11ProbeRequest",
    "Dot11ProbeResponse", "Dot11PSPoll", "Dot11ReAssocRequest", "Dot11ReAssocResponse", "Dot11RTS", "Dot11QoSData",
]
# link-layer entry points a capture can deliver
LINK_CLASSES = ["EthernetII", "Dot3", "RadioTap", "Dot11*", "SLL", "Loopback", "PPI", "IP", "IPv6"]


def seeds():
    p = os.path.join(core.VERIF, "corpus", "wire_seeds.json")
    return json.load(open(p)) if os.path.exists(p) else {}


def hexs(b):
    return b.hex() if b else "-"


def mutate(rng, b):
    b = bytearray(b)
    k = rng.random()
    if not b:
        return bytes(rng.randrange(256) for _ in range(rng.randint(0, 8)))
    if k < 0.25:      # truncate
        return bytes(b[:rng.randint(0, len(b))])
    if k < 0.5:       # bit flips
        for _ in range(rng.randint(1, 4)):
            i = rng.randrange(len(b)); b[i] ^= 1 << rng.randrange(8)
        return bytes(b)
    if k < 0.7:       # boundary byte values (length-like fields anywhere)
        i = rng.randrange(len(b)); b[i] = rng.choice([0, 1, 2, 3, 4, 7, 8, 15, 16, 0x7f, 0x80, 0xfe, 0xff])
        return bytes(b)
    if k < 0.8:       # extend
        return bytes(b) + bytes(rng.randrange(256) for _ in range(rng.randint(1, 24)))
    if k < 0.9:       # splice two positions
        i = rng.randrange(len(b)); j = rng.randrange(len(b)); b[i], b[j] = b[j], b[i]
        return bytes(b)
    i = rng.randrange(len(b))  # delete a byte
    del b[i]
    return bytes(b)


def gen_parse_ops(rng, n, classes=None, max_random_len=96):
    """mostly-valid stream (seed packets and mutants of them) + a malformed stream (short / random buffers)"""
    sd = seeds()
    classes = classes or ENTRY_CLASSES
    ops = []
    for _ in range(n):
        c = rng.choice(classes)
        r = rng.random()
        pool = sd.get(c) or []
        if pool and r < 0.75:
            b = bytes.fromhex(rng.choice(pool))
            for _ in range(rng.choice([0, 0, 1, 1, 2, 3])):
                b = mutate(rng, b)
        elif r < 0.9:
            ln = rng.choice([0, 1, 2, 3, 4, 7, 8, 12, 14, 16, 20, 24, 28, 40, rng.randint(0, max_random_len)])
            fill = rng.choice(["zero", "ones", "rand"])
            b = bytes(ln) if fill == "zero" else (b"\xff" * ln if fill == "ones" else bytes(rng.randrange(256) for _ in range(ln)))
        else:
            other = sd.get(rng.choice(list(sd.keys()))) if sd else None
            b = bytes.fromhex(rng.choice(other)) if other else b""
        ops.append(f"parse {c} {hexs(b)}")
    return ops


def every_length_ops(classes=None, upto=48):
    ops = []
    for c in classes or ENTRY_CLASSES:
        for ln in range(upto + 1):
            ops.append(f"parse {c} {hexs(bytes(ln))}")
            if ln:
                ops.append(f"parse {c} {hexs(bytes([0xff]) * ln)}")
    return ops


def strip_extra(line):
    return line.split(" || ")[0]


def run_wire(chk, area, ops, case_start=("parse", "new"), oracle=True, sig_of=None, classify=None):
    """impl vs model (common part, lines the model answers `unmodelled…` are skipped) vs spec oracle (full line)."""
    exe, err = core.build_harness("wire_main")
    if exe is None:
        chk.violation("implementation/harness does not build: " + (err or "")[-1500:], ["build-error"], nofail=True)
        return None
    return corr.correspond(chk, area, exe, ops, case_start=case_start, oracle=oracle, sig_of=sig_of,
                           classify=classify or default_classify, impl_view=strip_extra,
                           skip_model=lambda m: m.startswith("unmodelled"))


def default_classify(op, impl):
    w = op.split(" ")
    tag = w[0] + (":" + w[1] if w[0] == "parse" else "")
    out = impl.split(" ", 1)[0]
    return f"{tag}:{out}"


def textish(rng, n):
    """bytes for a textual option (host name, SSID, service name …): random bytes hardly ever END in a zero octet or consist
    of zeros only, which is exactly where a getter that treats the data as a C string differs (seeded/C04c)"""
    b = bytearray(rng.randrange(256) for _ in range(n))
    k = rng.random()
    if n and k < 0.25:
        for i in range(1, min(n, rng.choice([1, 1, 2, 3])) + 1):
            b[-i] = 0                                       # trailing zero octets
    elif n and k < 0.33:
        b = bytearray(n)                                    # all zeros (hidden SSID)
    elif n and k < 0.40:
        b[0] = 0                                            # leading zero
    elif n > 2 and k < 0.47:
        b[rng.randrange(1, n - 1)] = 0                      # embedded zero
    elif k < 0.60:
        b = bytearray(rng.choice(b"abcdefghijklmnopqrstuvwxyz0123456789-._") for _ in range(n))
    return bytes(b)
