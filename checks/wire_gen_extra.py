"""Cross-family boundary programs for the wire checks (coordinator's file): option / tag data lengths at the limits of
the length field that carries them, in add → show → remove → add histories.  These are the points where a cached size
kept in a narrower integer than the data it counts goes wrong (the property texts name 254, 255, 256 and 65535)."""
import random


def _data(rng, n):
    b = bytes([rng.randrange(256)]) * n if n > 4096 else bytes(rng.randrange(256) for _ in range(n))
    return b.hex() if b else "-"


def gen_build(rng, n):
    ops = []
    # DHCPv6: 16-bit option length
    for ln in [65531, 65532, 65533, 65534, 65535]:
        code = rng.choice([1, 3, 16, 200, 65535])
        ops += ["new", "push DHCPv6", f"set 0 msg_type {rng.choice([1, 3, 7])}",
                f"set 0 add_option {code} {_data(rng, ln)}", "show"]
        if ln in (65532, 65535):
            ops += [f"set 0 remove_option {code}", "show", f"set 0 add_option {code} {_data(rng, rng.choice([0, 3, 9]))}",
                    f"set 0 add_option {(code + 1) % 65536} {_data(rng, ln)}", "show"]
    # DHCP: 8-bit option length (256 and above is known finding KF-WApp-6, probed by the App generator itself)
    for ln in [253, 254, 255]:
        ops += ["new", "push DHCP", f"set 0 add_option {rng.choice([12, 60, 43, 224])} {_data(rng, ln)}", "show",
                "set 0 add_option 61 " + _data(rng, 9), "show"]
    return ops


def gen_parse(rng, n):
    return []
