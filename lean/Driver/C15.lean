import TinsModel.Fields.Model
import Driver.Util
/- line-protocol driver for property C15 (header field accessors):
     init <Class> <image hex> <mask hex>     set <field> <decimal | x<hex bytes>>
   model mode prints  r=<..> get=<all getters> hdr=<image> ser=<image & ~mask>  exactly like harness/c15_fields.cpp;
   spec mode reads `<op> ||| <implementation line>` and judges it with the oracle of Fields/Model.lean. -/
namespace Driver.C15
open Driver Tins.Fields

def beNat (bs : List UInt8) : Nat := bs.foldl (fun a b => a * 256 + b.toNat) 0
def leNat (bs : List UInt8) : Nat := bs.foldr (fun b a => a * 256 + b.toNat) 0
def natBE (n : Nat) (X : Nat) : List UInt8 := (List.range n).map (fun i => UInt8.ofNat ((X >>> (8 * (n - 1 - i))) % 256))
def natLE (n : Nat) (X : Nat) : List UInt8 := (List.range n).map (fun i => UInt8.ofNat ((X >>> (8 * i)) % 256))

def ofBytes (o : Order) (bs : List UInt8) : Nat := match o with | .be => beNat bs | .le => leNat bs
def toBytes (o : Order) (n X : Nat) : List UInt8 := match o with | .be => natBE n X | .le => natLE n X
def hexOf (o : Order) (n X : Nat) : String := if n == 0 then "" else toHex (toBytes o n X)

def showVal (k : Cls) (r : Row) (v : Nat) : String :=
  match r.kind with
  | .num => toString v
  | .bytes => "x" ++ hexOf k.order (r.valWidth / 8) v

def parseVal (k : Cls) (s : String) : Option Nat :=
  if s.startsWith "x" then (parseHex (s.drop 1).toString).map (ofBytes k.order) else s.toNat?

structure MState where
  cls : Option Cls := none
  X : Nat := 0
  mask : Nat := 0

def showState (k : Cls) (res : String) (X mask : Nat) : String :=
  let gs := (rowsOf k.name).map (fun r => match (accOf k r.fld) with
    | some a => showVal k r (a.get X)
    | none => "?")
  s!"r={res} get={joinWith "," gs} hdr={hexOf k.order k.len X} ser={hexOf k.order k.len (serOf X mask)}"

def step (st : MState) (line : String) : MState × String :=
  match words line with
  | ["init", c, img, msk] =>
    match classOf c, parseHex img, parseHex msk with
    | some k, some ib, some mb =>
      if ib.length != k.len || mb.length != k.len then ({ st with cls := none }, "bad-op") else
      let X := ofBytes k.order ib
      let m := ofBytes k.order mb
      ({ cls := some k, X := X, mask := m }, showState k "init" X m)
    | _, _, _ => ({ st with cls := none }, "bad-op")
  | ["set", f, vs] =>
    match st.cls with
    | none => (st, "bad-op")
    | some k =>
      match rowOf k.name f, parseVal k vs with
      | some r, some v =>
        if r.access != .rw then (st, "bad-op") else
        match setStep k f v st.X with
        | .ok X' => ({ st with X := X' }, showState k "ok" X' st.mask)
        | .valueTooLarge => (st, showState k "value_too_large" st.X st.mask)
        | .domain => (st, showState k "domain" st.X st.mask)
        | .unmodelled => (st, "unmodelled")
      | _, _ => (st, "bad-op")
  | _ => (st, "bad-op")

def initModel : MState := {}

/-! spec mode -/
structure OState where
  cls : Option Cls := none
  mask : Nat := 0
  vals : List (Row × Nat) := []
  ser : Nat := 0
  ok : Bool := false

def kv (ws : List String) (key : String) : Option String :=
  ws.findSome? (fun w => if w.startsWith (key ++ "=") then some ((w.drop (key.length + 1)).toString) else none)

/-- parse the implementation's answer: result, getter values (per row of the class), serialisation -/
def parseOut (k : Cls) (out : String) : Option (String × List (Row × Nat) × Nat) := do
  let ws := words out
  let res ← kv ws "r"
  let gs ← kv ws "get"
  let ser ← kv ws "ser"
  let rs := rowsOf k.name
  let items := gs.splitOn ","
  if items.length != rs.length then none
  let vals ← (rs.zip items).mapM (fun (r, s) => (parseVal k s).map (fun v => (r, v)))
  let sb ← parseHex ser
  if sb.length != k.len then none
  pure (res, vals, ofBytes k.order sb)

def specStep (st : OState) (line : String) : OState × String :=
  match line.splitOn " ||| " with
  | [op, out] =>
    match words op with
    | ["init", c, _, msk] =>
      match classOf c, parseHex msk with
      | some k, some mb =>
        let m := ofBytes k.order mb
        if m != k.derivedMask then ({ st with ok := false }, "violates mask-is-not-the-specified-derived-set") else
        match parseOut k out with
        | some (_, vals, ser) =>
          let st' : OState := { cls := some k, mask := m, vals := vals, ser := ser, ok := true }
          match wireGetterCheck k m ser vals with
          | some s => (st', s)
          | none => (st', "ok")
        | none => ({ st with ok := false }, if out.startsWith "FAULT" || out == "SKIP" then "unspecified" else "violates unparsable-output")
      | _, _ => ({ st with ok := false }, "unspecified")
    | ["set", f, vs] =>
      match st.cls, st.ok with
      | some k, true =>
        match rowOf k.name f, parseVal k vs with
        | some r, some v =>
          match parseOut k out with
          | some (res, vals, ser) =>
            if res == "domain" then (st, "unspecified") else
            let verdict := oracleSet k r v res st.mask st.vals vals st.ser ser
            ({ st with vals := vals, ser := ser }, verdict)
          | none => ({ st with ok := false }, if out.startsWith "FAULT" || out == "SKIP" then "unspecified" else "violates unparsable-output")
        | _, _ => (st, "unspecified")
      | _, _ => (st, "unspecified")
    | _ => (st, "unspecified")
  | _ => (st, "bad-line")

def initSpec : OState := {}

end Driver.C15
