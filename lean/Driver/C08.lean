import TinsModel.Reassembly.Spec
import TinsModel.Reassembly.WireUpper
import TinsModel.Reassembly.Policy
import Driver.Util
/- line-protocol driver for IPv4 reassembly (C08): model mode and spec (oracle) mode.
   The oracle is three references side by side, each fed the implementation's own output: (1) `specStep0`, the
   datagram-aware reference of Reassembly/Spec.lean, decides the cases inside the property's hypothesis (`unspecified`
   outside); (2) history-level safety clauses (`safetyPkt`: REASSEMBLED only from an exact cover of arrived fragments of
   that key, shape of the corrupt path, stream count from the implementation's own reports) and (3) the policy reference
   of Reassembly/Policy.lean (`polProcess`: expected line of every call of every history).
   ops:  case | dgram <tag> <id> <src> <dst> <proto> <tos> <df> <nopt> <hex> <lens,…> | frag <tag> <off> <len> <mf> <ttl> <eth>
         | whole <tag> <ttl> <eth> | nonip | remove <id> <src> <dst> | clear -/
namespace Driver.C08
open Tins Tins.Reasm Driver

/-- the upper-layer parser the driver runs the model and the reference with: libtins' own `pdu_from_flag`, as modelled
    by the wire families (TinsModel/Reassembly/WireUpper.lean; Props/C08Wire.lean) -/
def upper : UpperParse := E2E.wireUpper

def kindName : Inner → String
  | .none => "NONE"
  | .raw _ => "RAW"
  | .upper 17 _ => "UDP"
  | .upper 6 _ => "TCP"
  | .upper _ _ => "OTHER"

def dumpPkt (p : Pkt) : String :=
  if !p.hasIP then "noip" else
  let h := p.hdr
  let b := p.inner.bytes
  s!"{h.id}.{h.src}.{h.dst}.{h.proto}.{h.tos}.{h.ttl}.{h.flags}.{h.off}.{4 * h.nopt}/{kindName p.inner}/{b.length}/{fnv b}"

def outName : Out → String
  | .notFragmented => "N"
  | .fragmented => "F"
  | .reassembled => "R"
  | .throwMalformed => "throw:malformed_packet"

def showRes (before : Pkt) (out : Out) (after : Pkt) (streams : Nat) : String :=
  s!"st={outName out} pkt={dumpPkt after} same={if after == before then 1 else 0} streams={streams}"

def unmodelledProto (p : Nat) : Bool := p == 1 || p == 4 || p == 41 || p == 50 || p == 51 || p == 58

def parseLens (s : String) : Option (List Nat) := (s.splitOn ",").mapM (·.toNat?)

def parseDgram (ws : List String) : Option (String × DG) :=
  match ws with
  | [tag, id, src, dst, proto, tos, df, nopt, hex, lens] => do
    let id ← id.toNat?; let src ← src.toNat?; let dst ← dst.toNat?; let proto ← proto.toNat?
    let tos ← tos.toNat?; let nopt ← nopt.toNat?; let payload ← parseHex hex; let lens ← parseLens lens
    if nopt > 10 then none else
    some (tag, { hdr := { tos := tos, id := id, flags := if df == "1" then 2 else 0, off := 0, ttl := 0,
                          proto := proto, src := src, dst := dst, nopt := nopt },
                 payload := payload, lens := lens })
  | _ => none

def findTag (tbl : List (String × DG)) (tag : String) : Option DG := (tbl.find? (·.1 == tag)).map (·.2)

/-- the packet of a `frag` op as the IP parser hands it over; `none` = the harness rejects the op,
    `some (…, none)` = the IP parser throws (an unfragmented packet whose upper layer is malformed) -/
def fragOp (tbl : List (String × DG)) (ws : List String) : Option (DG × Nat × Nat × Bool × Nat × Option Pkt) :=
  match ws with
  | [tag, off, len, mf, ttl, _eth] => do
    let d ← findTag tbl tag
    let off ← off.toNat?; let len ← len.toNat?; let ttl ← ttl.toNat?
    if off % 8 != 0 || off > 65528 || len > 65535 then none else
    let p := mkFragPkt d off len (mf == "1") ttl
    -- the fragment itself must fit the 16-bit total length of its own header
    if hdrSize p.hdr + (slice d.payload off len).length > 65535 then none else
    if mf == "1" || off != 0 || p.inner.isNone then some (d, off, len, mf == "1", ttl, some p) else
    -- offset 0 without more-fragments: not a fragment, the parser decodes the upper layer
    match upper d.hdr.proto p.inner.bytes with
    | some inner => some (d, off, len, false, ttl, some { p with inner := inner })
    | none => some (d, off, len, false, ttl, none)
  | _ => none

/-- the packet of a `whole` op: `none` = bad op, `some none` = the IP parser throws -/
def wholeOp (tbl : List (String × DG)) (ws : List String) : Option (Option Pkt) :=
  match ws with
  | [tag, ttl, _eth] => do
    let d ← findTag tbl tag
    let ttl ← ttl.toNat?
    if hdrSize d.hdr + d.payload.length > 65535 then none else
    if d.payload.isEmpty then some (some { hasIP := true, hdr := { d.hdr with ttl := ttl }, inner := .none }) else
    match upper d.hdr.proto d.payload with
    | none => some none
    | some inner => some (some { hasIP := true, hdr := { d.hdr with ttl := ttl }, inner := inner })
  | _ => none

def nonipPkt : Pkt := { hasIP := false, hdr := {}, inner := .none }

structure MState where
  tbl : List (String × DG) := []
  r : Streams := []

def step (st : MState) (line : String) : MState × String :=
  let doPkt (p : Pkt) : MState × String :=
    let (r', p', out) := process upper st.r p
    ({ st with r := r' }, showRes p out p' r'.length)
  match words line with
  | ["case"] => ({}, "case")
  | "dgram" :: ws => match parseDgram ws with
    | some (tag, d) =>
      if unmodelledProto d.hdr.proto then (st, "unmodelled-proto") else
      ({ st with tbl := (tag, d) :: st.tbl.filter (·.1 != tag) }, "dgram")
    | none => (st, "bad-op")
  | "frag" :: ws => match fragOp st.tbl ws with
    | some (_, _, _, _, _, some p) => doPkt p
    | some (_, _, _, _, _, none) => (st, s!"parse-throw malformed_packet streams={st.r.length}")
    | none => (st, "bad-op")
  | "whole" :: ws => match wholeOp st.tbl ws with
    | some (some p) => doPkt p
    | some none => (st, s!"parse-throw malformed_packet streams={st.r.length}")
    | none => (st, "bad-op")
  | ["nonip"] => doPkt nonipPkt
  | ["clear"] => ({ st with r := clearStreams st.r }, "clear streams=0")
  | ["remove", id, src, dst] => match id.toNat?, src.toNat?, dst.toNat? with
    | some id, some src, some dst =>
      let r' := removeStream st.r id src dst
      ({ st with r := r' }, s!"remove streams={r'.length}")
    | _, _, _ => (st, "bad-op")
  | _ => (st, "bad-op")

def initModel : MState := {}

/-! oracle -/

structure OState where
  tbl : List (String × DG) := []
  /-- tags of datagrams that have been completed at least once -/
  completed : List String := []
  /-- a datagram of this case was retired because a later datagram re-uses its key after its completion, and a late
      duplicate of the retired one is still waiting in the reference state -/
  reuse : Bool := false
  σ : RefState := []
  unspecified : Bool := false

def kv (ws : List String) (key : String) : Option String :=
  ws.findSome? (fun w => if w.startsWith (key ++ "=") then some ((w.drop (key.length + 1)).toString) else none)

/-- compare the implementation's line with the reference observation, clause by clause -/
def judge (st : OState) (before : Pkt) (o : Obs) (impl : String) : String :=
  let ctx := if st.reuse then " ctx=key-reuse" else ""
  let iw := words impl
  match o.res with
  | some (out, after) =>
    let exp := showRes before out after o.streams
    if impl == exp then "ok" else
    let ew := words exp
    let hd (s : Option String) := (s.map (fun x => (x.splitOn "/").headD "")).getD "?"
    let clause :=
      if kv iw "st" != kv ew "st" then "status"
      else if hd (kv iw "pkt") != hd (kv ew "pkt") then "header"
      else if kv iw "pkt" != kv ew "pkt" then "payload"
      else if kv iw "same" != kv ew "same" then "untouched"
      else if kv iw "streams" != kv ew "streams" then "streams"
      else "format"
    s!"violates {clause}{ctx} expected: {exp}"
  | none =>
    if kv iw "streams" == some (toString o.streams) then "ok"
    else s!"violates streams{ctx} expected: streams={o.streams}"


/-! ### safety oracle for ARBITRARY histories (the clauses of `never_from_incomplete_all`, `fragmented_cases`,
    `throws_only_parser_exception`, `reachable_table` decided on the implementation's own output) -/

/-- a fragment packet that arrived in this case -/
structure LogFrag where
  key : Key
  off : Nat
  payload : Bytes
  mf : Bool
  hdr : Hdr

structure SState where
  /-- the datagram table as the harness keeps it (a tag is replaced by a later `dgram` with the same tag only) -/
  tbl : List (String × DG) := []
  log : List LogFrag := []
  /-- the policy reference for arbitrary sessions (TinsModel/Reassembly/Policy.lean; `model_refines_policy`) -/
  pol : PState := []
  /-- keys the implementation has an open stream for, according to its own reports -/
  live : List Key := []

def fnvFrom (h : UInt64) (bs : List UInt8) : UInt64 := bs.foldl (fun h b => (h ^^^ b.toUInt64) * 1099511628211) h

def hdrDump (h : Hdr) : String := s!"{h.id}.{h.src}.{h.dst}.{h.proto}.{h.tos}.{h.ttl}.{h.flags}.{h.off}.{4 * h.nopt}"

/-- chains of arrived fragments of one key, each starting where the previous one ends:
    states = (end offset, FNV state of the concatenation, last fragment had more-fragments clear) -/
def chase (cands : List LogFrag) : Nat → List (Nat × UInt64 × Bool) → List (Nat × UInt64 × Bool) → List (Nat × UInt64 × Bool)
  | 0, _, acc => acc
  | fuel + 1, frontier, acc =>
    let next := (frontier.flatMap (fun (e, h, _) =>
      (cands.filter (fun c => c.off == e && !c.payload.isEmpty)).map
        (fun c => (e + c.payload.length, fnvFrom h c.payload, !c.mf)))).eraseDups
    if next.isEmpty then acc else chase cands fuel next (acc ++ next)

/-- is there a set of arrived fragments of key `k` that covers `[0, len)` exactly, starts with a fragment whose header
    (offset and more-fragments cleared) is `hdrStr`, ends with a fragment without more-fragments, fits an IPv4
    datagram, and whose concatenation has FNV `want` (`none` = any content) -/
def exactCoverExists (log : List LogFrag) (k : Key) (hdrStr : Option String) (len : Nat) (want : Option UInt64) : Bool :=
  let cands := log.filter (fun c => c.key == k)
  (cands.filter (fun c => c.off == 0)).any (fun f0 =>
    let hres : Hdr := { f0.hdr with off := 0, flags := clearMF f0.hdr.flags }
    (match hdrStr with | some s => hdrDump hres == s | none => true) && hdrSize hres + len ≤ 65535 &&
    (let start := (f0.payload.length, fnvFrom 14695981039346656037 f0.payload, !f0.mf)
     (start :: chase cands (cands.length + 1) [start] []).any (fun (e, h, lastClear) =>
        e == len && lastClear && (match want with | some w => h == w | none => true))))

def pktField (iw : List String) (i : Nat) : String := (((kv iw "pkt").getD "").splitOn "/").getD i ""

/-- the safety clauses on one `process` call: `pkt` = the packet handed in, `impl` = what the implementation reports -/
def safetyPkt (ss : SState) (pkt : Pkt) (impl : String) : SState × Option String :=
  let iw := words impl
  let st := (kv iw "st").getD "?"
  let same := (kv iw "same").getD "?"
  let isF := pkt.hasIP && !pkt.inner.isNone && isFragmented pkt.hdr
  let k := makeKey pkt.hdr
  let log' := if isF then ⟨k, extractOffset pkt.hdr, pkt.inner.bytes, pkt.hdr.flags % 2 != 0, pkt.hdr⟩ :: ss.log else ss.log
  let del (l : List Key) := l.filter (· != k)
  let (live', verdict) : List Key × Option String :=
    if st == "N" then
      (ss.live, if isF then some "not-fragmented-on-a-fragment" else if same != "1" then some "untouched" else none)
    else if !isF then (ss.live, some s!"fragment-status-on-a-non-fragment st={st}")
    else if st == "F" then
      if same == "1" then (k :: del ss.live, none)
      else
        -- the `corrupt` path: first header of an arrived offset-0 fragment of this key, no payload, stream erased
        let okShape := pktField iw 1 == "NONE" && pktField iw 2 == "0" &&
          (log'.any (fun c => c.key == k && c.off == 0 && hdrDump c.hdr == pktField iw 0))
        (del ss.live, if okShape then none else some "corrupt-path-shape")
    else if st == "R" then
      let len := (pktField iw 2).toNat?.getD 0
      let want := ((pktField iw 3).toNat?).map (fun n => UInt64.ofNat n)
      let expKind := if (Wire.Tags.classOfIpProto pkt.hdr.proto).isSome then none else some "RAW"
      let v :=
        if same != "0" then some "reassembled-untouched"
        else if !exactCoverExists log' k (some (pktField iw 0)) len want then
          some "reassembled-without-exact-cover"
        else match expKind with
          | some kd => if pktField iw 1 == kd then none else some "reassembled-kind"
          | none => none
      (del ss.live, v)
    else if st == "throw:malformed_packet" then
      let v :=
        if same != "1" then some "throw-untouched"
        else if (Wire.Tags.classOfIpProto pkt.hdr.proto).isNone then some "throw-without-parser"
        else none
      (del ss.live, v)
    else (del ss.live, some s!"status-or-exception {st}")
  let (pol', pp, pout) := polProcess upper ss.pol pkt
  let ss' : SState := { ss with log := log', live := live', pol := pol' }
  match verdict with
  | some v => (ss', some v)
  | none =>
    if kv iw "streams" != some (toString live'.length) then (ss', some s!"streams-live expected: streams={live'.length}")
    else if unmodelledProto pkt.hdr.proto then (ss', none)
    else
      -- the policy reference decides status, packet and stream count of every call
      let exp := showRes pkt pout pp pol'.length
      if impl == exp then (ss', none) else
      let ew := words exp
      let hd (s : Option String) := (s.map (fun x => (x.splitOn "/").headD "")).getD "?"
      let clause :=
        if kv iw "st" != kv ew "st" then "status"
        else if hd (kv iw "pkt") != hd (kv ew "pkt") then "header"
        else if kv iw "pkt" != kv ew "pkt" then "payload"
        else if kv iw "same" != kv ew "same" then "untouched"
        else if kv iw "streams" != kv ew "streams" then "streams"
        else "format"
      (ss', some s!"policy-{clause} expected: {exp}")

def safetyTable (ss : SState) (live' : List Key) (pol' : PState) (impl : String) : SState × Option String :=
  let ss' := { ss with live := live', pol := pol' }
  if kv (words impl) "streams" != some (toString live'.length) then (ss', some s!"streams-live expected: streams={live'.length}")
  else if live'.length != pol'.length then (ss', some s!"policy-streams expected: streams={pol'.length}")
  else (ss', none)

def specStep0 (st : OState) (line : String) : OState × String :=
  match line.splitOn " ||| " with
  | [op, impl0] =>
    let impl := impl0.trimAscii.toString
    match words op with
    | ["case"] => ({}, "ok")
    | "dgram" :: ws => match parseDgram ws with
      | some (tag, d) =>
        if unmodelledProto d.hdr.proto then ({ st with unspecified := true }, "unspecified") else
        -- datagrams of the table that share the new one's reassembly key (or its tag)
        let clash := st.tbl.filter (fun e => e.1 == tag || makeKey e.2.hdr == makeKey d.hdr)
        let fresh := clash.all (fun e => st.completed.contains e.1)
        let tbl' := (tag, d) :: st.tbl.filter (fun e => !(e.1 == tag || makeKey e.2.hdr == makeKey d.hdr))
        let st' := { st with tbl := tbl', completed := st.completed.filter (· != tag),
                             reuse := st.reuse || clash.any (fun e => (alLookup st.σ e.2).isSome),
                             unspecified := st.unspecified || !fresh }
        (st', if st'.unspecified then "unspecified" else "ok")
      | none => ({ st with unspecified := true }, "unspecified")
    | "frag" :: ws =>
      if st.unspecified then (st, "unspecified") else
      match fragOp st.tbl ws, ws with
      | some (d, off, len, mf, ttl, some pkt), tag :: _ =>
        if decide d.wf && d.pieces.contains (off, len) && mf == decide (off + len < d.payload.length) then
          let (σ', o) := refStep upper st.σ (.frag d (off, len) ttl)
          let done := match o.res with
            | some (.reassembled, _) => true
            | some (.throwMalformed, _) => true
            | _ => false
          ({ st with σ := σ', completed := if done then tag :: st.completed else st.completed }, judge st pkt o impl)
        else ({ st with unspecified := true }, "unspecified")
      | _, _ => ({ st with unspecified := true }, "unspecified")
    | "whole" :: ws =>
      if st.unspecified then (st, "unspecified") else
      match wholeOp st.tbl ws with
      | some (some pkt) =>
        if notFrag pkt then
          let (σ', o) := refStep upper st.σ (.other pkt)
          ({ st with σ := σ' }, judge st pkt o impl)
        else ({ st with unspecified := true }, "unspecified")
      | some none => (st, "unspecified")
      | none => ({ st with unspecified := true }, "unspecified")
    | ["nonip"] =>
      if st.unspecified then (st, "unspecified") else
      let (σ', o) := refStep upper st.σ (.other nonipPkt)
      ({ st with σ := σ' }, judge st nonipPkt o impl)
    | ["clear"] =>
      if st.unspecified then (st, "unspecified") else
      let (σ', o) := refStep upper st.σ .clear
      ({ st with σ := σ' }, judge st nonipPkt o impl)
    | ["remove", id, src, dst] =>
      if st.unspecified then (st, "unspecified") else
      match id.toNat?, src.toNat?, dst.toNat? with
      | some id, some src, some dst =>
        let (σ', o) := refStep upper st.σ (.remove id src dst)
        ({ st with σ := σ' }, judge st nonipPkt o impl)
      | _, _, _ => ({ st with unspecified := true }, "unspecified")
    | _ => ({ st with unspecified := true }, "unspecified")
  | _ => (st, "bad-line")

structure OState2 where
  ref : OState := {}
  safe : SState := {}

/-- the reference oracle (inside the property's hypothesis) and the safety oracle (every history) side by side:
    a violation of either is a violation; otherwise the reference's verdict -/
def specStep (st : OState2) (line : String) : OState2 × String :=
  let (ref', v) := specStep0 st.ref line
  match line.splitOn " ||| " with
  | [op, impl0] =>
    let impl := impl0.trimAscii.toString
    let tbl := st.safe.tbl
    let (safe', sv) : SState × Option String :=
      if impl.startsWith "parse-throw" || impl == "bad-op" || impl == "unmodelled-proto" then (st.safe, none) else
      match words op with
      | ["case"] => ({}, none)
      | "dgram" :: ws => match parseDgram ws with
        | some (tag, d) => ({ st.safe with tbl := (tag, d) :: tbl.filter (·.1 != tag) }, none)
        | none => (st.safe, none)
      | "frag" :: ws => match fragOp tbl ws with
        | some (_, _, _, _, _, some pkt) => safetyPkt st.safe pkt impl
        | _ => (st.safe, none)
      | "whole" :: ws => match wholeOp tbl ws with
        | some (some pkt) => safetyPkt st.safe pkt impl
        | _ => (st.safe, none)
      | ["nonip"] => safetyPkt st.safe nonipPkt impl
      | ["clear"] => safetyTable st.safe [] (polClear st.safe.pol) impl
      | ["remove", id, src, dst] => match id.toNat?, src.toNat?, dst.toNat? with
        | some id, some src, some dst =>
          safetyTable st.safe (st.safe.live.filter (fun k => !(k.id == id && k.src == src && k.dst == dst)))
            (polRemove st.safe.pol id src dst) impl
        | _, _, _ => (st.safe, none)
      | _ => (st.safe, none)
    let st' : OState2 := { ref := ref', safe := safe' }
    if v.startsWith "violates" then (st', v) else
    match sv with
    | some c => (st', s!"violates {c}{if st.ref.reuse then " ctx=key-reuse" else ""}")
    | none => (st', v)
  | _ => ({ st with ref := ref' }, v)

def initSpec : OState2 := {}

end Driver.C08
