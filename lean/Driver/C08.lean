import TinsModel.Reassembly.Spec
import Driver.Util
/- line-protocol driver for IPv4 reassembly (C08): model mode and spec (oracle) mode.
   ops:  case | dgram <tag> <id> <src> <dst> <proto> <tos> <df> <nopt> <hex> <lens,…> | frag <tag> <off> <len> <mf> <ttl> <eth>
         | whole <tag> <ttl> <eth> | nonip | remove <id> <src> <dst> | clear -/
namespace Driver.C08
open Tins Tins.Reasm Driver

def kindName : Inner → String
  | .none => "NONE"
  | .raw _ => "RAW"
  | .upper 17 _ => "UDP"
  | .upper 6 _ => "TCP"
  | .upper _ _ => "OTHER"

def dumpPkt (p : Pkt) : String :=
  if !p.hasIP then "noip" else
  let h := p.hdr
  let b := p.inner.bytes
  s!"{h.id}.{h.src}.{h.dst}.{h.proto}.{h.tos}.{h.ttl}.{h.flags}.{h.off}.{4 * h.nopt}/{kindName p.inner}/{b.length}/{fnv b}"

def outName : Out → String
  | .notFragmented => "N"
  | .fragmented => "F"
  | .reassembled => "R"
  | .throwMalformed => "throw:malformed_packet"

def showRes (before : Pkt) (out : Out) (after : Pkt) (streams : Nat) : String :=
  s!"st={outName out} pkt={dumpPkt after} same={if after == before then 1 else 0} streams={streams}"

def unmodelledProto (p : Nat) : Bool := p == 1 || p == 4 || p == 41 || p == 50 || p == 51 || p == 58

def parseLens (s : String) : Option (List Nat) := (s.splitOn ",").mapM (·.toNat?)

def parseDgram (ws : List String) : Option (String × DG) :=
  match ws with
  | [tag, id, src, dst, proto, tos, df, nopt, hex, lens] => do
    let id ← id.toNat?; let src ← src.toNat?; let dst ← dst.toNat?; let proto ← proto.toNat?
    let tos ← tos.toNat?; let nopt ← nopt.toNat?; let payload ← parseHex hex; let lens ← parseLens lens
    if nopt > 10 then none else
    some (tag, { hdr := { tos := tos, id := id, flags := if df == "1" then 2 else 0, off := 0, ttl := 0,
                          proto := proto, src := src, dst := dst, nopt := nopt },
                 payload := payload, lens := lens })
  | _ => none

def findTag (tbl : List (String × DG)) (tag : String) : Option DG := (tbl.find? (·.1 == tag)).map (·.2)

/-- the packet of a `frag` op as the IP parser hands it over; `none` = the harness rejects the op,
    `some (…, none)` = the IP parser throws (an unfragmented packet whose upper layer is malformed) -/
def fragOp (tbl : List (String × DG)) (ws : List String) : Option (DG × Nat × Nat × Bool × Nat × Option Pkt) :=
  match ws with
  | [tag, off, len, mf, ttl, _eth] => do
    let d ← findTag tbl tag
    let off ← off.toNat?; let len ← len.toNat?; let ttl ← ttl.toNat?
    if off % 8 != 0 || off > 65528 || len > 65535 then none else
    let p := mkFragPkt d off len (mf == "1") ttl
    -- the fragment itself must fit the 16-bit total length of its own header
    if hdrSize p.hdr + (slice d.payload off len).length > 65535 then none else
    if mf == "1" || off != 0 || p.inner.isNone then some (d, off, len, mf == "1", ttl, some p) else
    -- offset 0 without more-fragments: not a fragment, the parser decodes the upper layer
    match upperParseConcrete d.hdr.proto p.inner.bytes with
    | some inner => some (d, off, len, false, ttl, some { p with inner := inner })
    | none => some (d, off, len, false, ttl, none)
  | _ => none

/-- the packet of a `whole` op: `none` = bad op, `some none` = the IP parser throws -/
def wholeOp (tbl : List (String × DG)) (ws : List String) : Option (Option Pkt) :=
  match ws with
  | [tag, ttl, _eth] => do
    let d ← findTag tbl tag
    let ttl ← ttl.toNat?
    if hdrSize d.hdr + d.payload.length > 65535 then none else
    if d.payload.isEmpty then some (some { hasIP := true, hdr := { d.hdr with ttl := ttl }, inner := .none }) else
    match upperParseConcrete d.hdr.proto d.payload with
    | none => some none
    | some inner => some (some { hasIP := true, hdr := { d.hdr with ttl := ttl }, inner := inner })
  | _ => none

def nonipPkt : Pkt := { hasIP := false, hdr := {}, inner := .none }

structure MState where
  tbl : List (String × DG) := []
  r : Streams := []

def step (st : MState) (line : String) : MState × String :=
  let doPkt (p : Pkt) : MState × String :=
    let (r', p', out) := process upperParseConcrete st.r p
    ({ st with r := r' }, showRes p out p' r'.length)
  match words line with
  | ["case"] => ({}, "case")
  | "dgram" :: ws => match parseDgram ws with
    | some (tag, d) =>
      if unmodelledProto d.hdr.proto then (st, "unmodelled-proto") else
      ({ st with tbl := (tag, d) :: st.tbl.filter (·.1 != tag) }, "dgram")
    | none => (st, "bad-op")
  | "frag" :: ws => match fragOp st.tbl ws with
    | some (_, _, _, _, _, some p) => doPkt p
    | some (_, _, _, _, _, none) => (st, s!"parse-throw malformed_packet streams={st.r.length}")
    | none => (st, "bad-op")
  | "whole" :: ws => match wholeOp st.tbl ws with
    | some (some p) => doPkt p
    | some none => (st, s!"parse-throw malformed_packet streams={st.r.length}")
    | none => (st, "bad-op")
  | ["nonip"] => doPkt nonipPkt
  | ["clear"] => ({ st with r := clearStreams st.r }, "clear streams=0")
  | ["remove", id, src, dst] => match id.toNat?, src.toNat?, dst.toNat? with
    | some id, some src, some dst =>
      let r' := removeStream st.r id src dst
      ({ st with r := r' }, s!"remove streams={r'.length}")
    | _, _, _ => (st, "bad-op")
  | _ => (st, "bad-op")

def initModel : MState := {}

/-! oracle -/

structure OState where
  tbl : List (String × DG) := []
  /-- tags of datagrams that have been completed at least once -/
  completed : List String := []
  /-- a datagram of this case was retired because a later datagram re-uses its key after its completion, and a late
      duplicate of the retired one is still waiting in the reference state -/
  reuse : Bool := false
  σ : RefState := []
  unspecified : Bool := false

def kv (ws : List String) (key : String) : Option String :=
  ws.findSome? (fun w => if w.startsWith (key ++ "=") then some ((w.drop (key.length + 1)).toString) else none)

/-- compare the implementation's line with the reference observation, clause by clause -/
def judge (st : OState) (before : Pkt) (o : Obs) (impl : String) : String :=
  let ctx := if st.reuse then " ctx=key-reuse" else ""
  let iw := words impl
  match o.res with
  | some (out, after) =>
    let exp := showRes before out after o.streams
    if impl == exp then "ok" else
    let ew := words exp
    let hd (s : Option String) := (s.map (fun x => (x.splitOn "/").headD "")).getD "?"
    let clause :=
      if kv iw "st" != kv ew "st" then "status"
      else if hd (kv iw "pkt") != hd (kv ew "pkt") then "header"
      else if kv iw "pkt" != kv ew "pkt" then "payload"
      else if kv iw "same" != kv ew "same" then "untouched"
      else if kv iw "streams" != kv ew "streams" then "streams"
      else "format"
    s!"violates {clause}{ctx} expected: {exp}"
  | none =>
    if kv iw "streams" == some (toString o.streams) then "ok"
    else s!"violates streams{ctx} expected: streams={o.streams}"

def specStep (st : OState) (line : String) : OState × String :=
  match line.splitOn " ||| " with
  | [op, impl0] =>
    let impl := impl0.trimAscii.toString
    match words op with
    | ["case"] => ({}, "ok")
    | "dgram" :: ws => match parseDgram ws with
      | some (tag, d) =>
        if unmodelledProto d.hdr.proto then ({ st with unspecified := true }, "unspecified") else
        -- datagrams of the table that share the new one's reassembly key (or its tag)
        let clash := st.tbl.filter (fun e => e.1 == tag || makeKey e.2.hdr == makeKey d.hdr)
        let fresh := clash.all (fun e => st.completed.contains e.1)
        let tbl' := (tag, d) :: st.tbl.filter (fun e => !(e.1 == tag || makeKey e.2.hdr == makeKey d.hdr))
        let st' := { st with tbl := tbl', completed := st.completed.filter (· != tag),
                             reuse := st.reuse || clash.any (fun e => (alLookup st.σ e.2).isSome),
                             unspecified := st.unspecified || !fresh }
        (st', if st'.unspecified then "unspecified" else "ok")
      | none => ({ st with unspecified := true }, "unspecified")
    | "frag" :: ws =>
      if st.unspecified then (st, "unspecified") else
      match fragOp st.tbl ws, ws with
      | some (d, off, len, mf, ttl, some pkt), tag :: _ =>
        if decide d.wf && d.pieces.contains (off, len) && mf == decide (off + len < d.payload.length) then
          let (σ', o) := refStep upperParseConcrete st.σ (.frag d (off, len) ttl)
          let done := match o.res with
            | some (.reassembled, _) => true
            | some (.throwMalformed, _) => true
            | _ => false
          ({ st with σ := σ', completed := if done then tag :: st.completed else st.completed }, judge st pkt o impl)
        else ({ st with unspecified := true }, "unspecified")
      | _, _ => ({ st with unspecified := true }, "unspecified")
    | "whole" :: ws =>
      if st.unspecified then (st, "unspecified") else
      match wholeOp st.tbl ws with
      | some (some pkt) =>
        if notFrag pkt then
          let (σ', o) := refStep upperParseConcrete st.σ (.other pkt)
          ({ st with σ := σ' }, judge st pkt o impl)
        else ({ st with unspecified := true }, "unspecified")
      | some none => (st, "unspecified")
      | none => ({ st with unspecified := true }, "unspecified")
    | ["nonip"] =>
      if st.unspecified then (st, "unspecified") else
      let (σ', o) := refStep upperParseConcrete st.σ (.other nonipPkt)
      ({ st with σ := σ' }, judge st nonipPkt o impl)
    | ["clear"] =>
      if st.unspecified then (st, "unspecified") else
      let (σ', o) := refStep upperParseConcrete st.σ .clear
      ({ st with σ := σ' }, judge st nonipPkt o impl)
    | ["remove", id, src, dst] =>
      if st.unspecified then (st, "unspecified") else
      match id.toNat?, src.toNat?, dst.toNat? with
      | some id, some src, some dst =>
        let (σ', o) := refStep upperParseConcrete st.σ (.remove id src dst)
        ({ st with σ := σ' }, judge st nonipPkt o impl)
      | _, _, _ => ({ st with unspecified := true }, "unspecified")
    | _ => ({ st with unspecified := true }, "unspecified")
  | _ => (st, "bad-line")

def initSpec : OState := {}

end Driver.C08
