import Driver.Util
/- line-protocol driver for property C08 (stub until the area is built) -/
namespace Driver.C08
open Driver

def step (st : Unit) (_line : String) : Unit × String := (st, "unimplemented")
def specStep (st : Unit) (_line : String) : Unit × String := (st, "unimplemented")
def initModel : Unit := ()
def initSpec : Unit := ()

end Driver.C08
