import TinsModel.Threads.Spec
import TinsModel.Threads.Policy
import TinsModel.Threads.Crc
import Driver.Util
/- line-protocol driver for property C18 (threads over private objects).

   ops (see harness/c18_threads.cpp):
     case <id>
     w <tid> crc <iters> <hex>
     w <tid> <kind> <iters> <seed> alone=<digest>      digest of the workload run alone in its own process
     reg <eth|ip> <id>                                  user allocator registered before the threads start
     go <yseed> <reps>
   model mode: the registered workloads become threads of the abstract machine over the libtins cells (each thread
   loads the statics it may read and its own cell, stores its result to its own cell); `go` runs the machine under
   a pseudo-random schedule derived from <yseed> and prints every thread's result, the run-alone results and the
   number of conflicting pairs met on the way.  For `crc` workloads the result is computed by the code-shaped `crc32` over the generated
   table.
   spec mode: `<op> ||| <implementation output>` is judged by `goVerdict` / the bitwise CRC-32. -/
namespace Driver.C18
open Driver Tins.Threads

structure MState where
  alone : List String := []      -- result of each registered workload when run alone, in registration order

def kvOf (ws : List String) (key : String) : Option String :=
  ws.findSome? (fun w => if w.startsWith (key ++ "=") then some ((w.drop (key.length + 1)).toString) else none)

/-- decimal or 0x-prefixed hexadecimal literal -/
def parseNumLit (s : String) : Option Nat :=
  if s.startsWith "0x" then
    (s.drop 2).toString.toList.foldl (fun acc c => acc.bind (fun a =>
      if c.isDigit then some (a * 16 + (c.toNat - '0'.toNat))
      else if 'a' ≤ c ∧ c ≤ 'f' then some (a * 16 + 10 + (c.toNat - 'a'.toNat)) else none)) (some 0)
  else s.toNat?

/-- thread `i` of the machine: one action that loads every static and its own cell and stores the index of its
    result; local state = (pc, result index) -/
def workThread (nstatics : Nat) (i : Nat) : Thread Cell (Nat × Nat) where
  next s := match s.1 with
    | 0 => some { rd := (List.range nstatics).map Cell.static ++ [Cell.priv i 0], wr := [Cell.priv i 0],
                  k := fun _ => ((1, i + 1), [i + 1]) }
    | _ => none

/-- splitmix-like schedule of `2 * n` steps over `n` threads (every thread gets at least its one step at the end) -/
def schedule (seed n : Nat) : List Nat :=
  if n = 0 then [] else
  let rec go (k : Nat) (x : Nat) (acc : List Nat) : List Nat :=
    match k with
    | 0 => acc
    | k + 1 =>
      let x' := (x * 6364136223846793005 + 1442695040888963407) % 18446744073709551616
      go k x' ((x' / 4294967296) % n :: acc)
  go (2 * n) (seed + 1) [] ++ List.range n

def runModel (alone : List String) (yseed : Nat) : List String × Nat :=
  let n := alone.length
  let T := workThread Tins.Gen.StaticVars.all.length
  let c0 : Cfg Cell (Nat × Nat) := { loc := fun _ => (0, 0), mem := fun _ => 0 }
  let sched := schedule yseed n
  -- execute the schedule, counting configurations in which two different threads conflict
  let (c, races) := sched.foldl (fun (acc : Cfg Cell (Nat × Nat) × Nat) i =>
      let conflicts := (List.range n).foldl (fun r a => (List.range n).foldl (fun r b =>
        if a < b && conflictAt T acc.1 a b then r + 1 else r) r) 0
      (step T acc.1 i, acc.2 + conflicts)) (c0, 0)
  ((List.range n).map (fun i => match (c.loc i).2 with
      | 0 => "NOT-RUN"
      | r + 1 => alone[r]?.getD "?"), races)

def step (st : MState) (line : String) : MState × String :=
  match words line with
  | "case" :: _ => ({ alone := [] }, "case")
  | "reg" :: fam :: id :: _ =>
    -- registration before the threads exist: a write to the registry cells ordered before every thread's first action
    -- (thread creation); the model threads only load the statics, so the machine's verdict does not change
    match parseNumLit id with
    | some n => (st, s!"reg {fam} {n}")
    | none => (st, "bad-op")
  | "w" :: tid :: "crc" :: _iters :: h :: _ =>
    match parseHex h with
    | some d => let dg := toString (crc32 d).toNat
                ({ st with alone := st.alone ++ [dg] }, s!"w {tid} reg")
    | none => (st, "bad-op")
  | "w" :: tid :: _kind :: _iters :: _seed :: rest =>
    match kvOf rest "alone" with
    | some dg => ({ st with alone := st.alone ++ [dg] }, s!"w {tid} reg")
    | none => (st, "bad-op")
  | "go" :: ys :: _reps :: _ =>
    match ys.toNat? with
    | some y =>
      let (res, races) := runModel st.alone y
      let seq := if st.alone.isEmpty then "-" else joinWith "," st.alone
      (st, s!"go conc={if res.isEmpty then "-" else joinWith "," res} seq={seq} races={races}")
    | none => (st, "bad-op")
  | _ => (st, "bad-op")

/-- spec mode: each input line is `<op> ||| <implementation output>` -/
def specStep (st : MState) (line : String) : MState × String :=
  match line.splitOn " ||| " with
  | [op, out] =>
    let ow := words out
    match words op with
    | "case" :: _ => ({ alone := [] }, "ok")
    | "reg" :: fam :: id :: _ =>
      -- the statement excludes registering WHILE threads run, not before: a registration after the first workload of
      -- the case would be outside the property's hypothesis
      if !st.alone.isEmpty then (st, "unspecified")
      else match parseNumLit id with
        | some n => (st, if out.trimAscii.toString == s!"reg {fam} {n}" then "ok" else "violates unparsable-output")
        | none => (st, "unspecified")
    | "w" :: _tid :: kind :: _iters :: arg :: rest =>
      let expected : Option String :=
        if kind == "crc" then (parseHex arg).map (fun d => toString (crc32Spec d).toNat) else kvOf rest "alone"
      match expected with
      | some e => ({ st with alone := st.alone ++ [e] }, if out.trimAscii.toString.endsWith " reg" then "ok" else "violates unparsable-output")
      | none => (st, "unspecified")
    | "go" :: _ =>
      match kvOf ow "conc", kvOf ow "seq", (kvOf ow "races").bind (·.toNat?) with
      | some cs, some ss, some races =>
        let conc := if cs == "-" then [] else cs.splitOn ","
        let seq := if ss == "-" then [] else ss.splitOn ","
        (st, goVerdict st.alone conc seq races)
      | _, _, _ => (st, "violates unparsable-output")
    | _ => (st, "unspecified")
  | _ => (st, "bad-line")

def initModel : MState := {}
def initSpec : MState := {}

end Driver.C18
