import Driver.Wire
import Driver.WireSpec
/- property C04: model mode = the shared wire driver; spec mode = Driver.WireSpec.spec04 -/
namespace Driver.C04
open Driver

def step := Wire.step
def initModel : Wire.State := {}
def specStep := WireSpec.spec04
def initSpec : WireSpec.SState := {}

end Driver.C04
