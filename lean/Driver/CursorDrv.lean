import TinsModel.Basic.Cursor
import TinsModel.Basic.OutCursor
import Driver.Util
/- model side of harness/c01_cursor.cpp -/
namespace Driver.CursorDrv
open Tins Driver

structure St where
  c : Cursor := ⟨[], 0⟩
  o : OutCursor := ⟨[], [], 0⟩

def outOf {α} (r : Out α) (f : α → String) : String :=
  match r with
  | .ok a => f a
  | .throw e => s!"throw {e.name}"
  | .fault s => s!"fault {s}"

def isCursorOp (w : String) : Bool :=
  ["cinit", "cread", "cskip", "cshrink", "cpeek", "cbool", "oinit", "owrite", "oskip", "ofill", "obuf"].contains w

def step (st : St) (ws : List String) : St × String :=
  match ws with
  | ["cinit", h] => match parseHex h with
    | some b => let c := Cursor.ofBytes b; ({ st with c := c }, s!"ok size={c.size}")
    | none => (st, "bad-op")
  | ["oinit", n] => match n.toNat? with
    | some n => let o := OutCursor.ofRegion (List.replicate n 0); ({ st with o := o }, s!"ok size={o.size}")
    | none => (st, "bad-op")
  | ["cread", n] => match n.toNat? with
    | some n => match st.c.read n with
      | .ok (bs, c') => ({ st with c := c' }, s!"ok {toHex bs} size={c'.size}")
      | r => (st, outOf r (fun _ => ""))
    | none => (st, "bad-op")
  | ["cskip", n] => match n.toNat? with
    | some n => match st.c.skip n with
      | .ok c' => ({ st with c := c' }, s!"ok size={c'.size}")
      | r => (st, outOf r (fun _ => ""))
    | none => (st, "bad-op")
  | ["cshrink", m] => match m.toNat? with
    | some m => match st.c.step (.shrink m) with
      | .ok c' => ({ st with c := c' }, s!"ok size={c'.size}")
      | r => (st, outOf r (fun _ => ""))
    | none => (st, "bad-op")
  | ["cpeek", i, n] => match i.toNat?, n.toNat? with
    | some i, some n =>
      if i + n ≤ st.c.size then
        (st, outOf (st.c.peek "pointer()" i n) (fun bs => s!"ok {toHex bs} size={st.c.size}"))
      else (st, "throw malformed_packet")
    | _, _ => (st, "bad-op")
  | ["cbool"] => (st, s!"ok {if st.c.toBool then 1 else 0} size={st.c.size}")
  | ["owrite", h] => match parseHex h with
    | some b => match st.o.write b with
      | .ok o' => ({ st with o := o' }, s!"ok size={o'.size}")
      | r => (st, outOf r (fun _ => ""))
    | none => (st, "bad-op")
  | ["oskip", n] => match n.toNat? with
    | some n => match st.o.skip n with
      | .ok o' => ({ st with o := o' }, s!"ok size={o'.size}")
      | r => (st, outOf r (fun _ => ""))
    | none => (st, "bad-op")
  | ["ofill", n, v] => match n.toNat?, v.toNat? with
    | some n, some v => match st.o.fill n (UInt8.ofNat v) with
      | .ok o' => ({ st with o := o' }, s!"ok size={o'.size}")
      | r => (st, outOf r (fun _ => ""))
    | _, _ => (st, "bad-op")
  | ["obuf"] => (st, s!"ok {toHex st.o.buffer} size={st.o.size}")
  | _ => (st, "bad-op")

end Driver.CursorDrv
