import TinsModel.Ownership.Spec
import Driver.Util
import Driver.C12Opt
import TinsModel.Gen.Members
/- line-protocol driver for property C12 (ownership): model mode prints the forest of the pointer model exactly as
   harness/c12_ownership.cpp prints the forest of the real objects; spec mode checks the forest the implementation
   printed against the chain-level specification. -/
namespace Driver.C12
open Driver Tins.Own

def nat? (s : String) : Option Nat := s.toNat?

def parseOp (ws : List String) : Option Op :=
  match ws with
  | ["init", n] => do pure (.init (← nat? n))
  | ["end"] => some .fin
  | ["new", s, c, k, v] => do pure (.new (← nat? s) (← nat? c) (← nat? k) (← nat? v))
  | ["set", s, d, v] => do pure (.set ⟨← nat? s, ← nat? d⟩ (← nat? v))
  | ["clone", s, a, d] => do pure (.clone (← nat? s) ⟨← nat? a, ← nat? d⟩)
  | ["copy", s, a, d] => do pure (.clone (← nat? s) ⟨← nat? a, ← nat? d⟩)     -- `new T(*p)`: what clone() is
  | ["movector", s, a, d] => do pure (.movector (← nat? s) ⟨← nat? a, ← nat? d⟩)
  | ["div", s, a, d, b, e] => do pure (.div (← nat? s) ⟨← nat? a, ← nat? d⟩ ⟨← nat? b, ← nat? e⟩)
  | ["diveq", a, d, b, e] => do pure (.diveq ⟨← nat? a, ← nat? d⟩ ⟨← nat? b, ← nat? e⟩)
  | ["assign", a, d, b, e] => do pure (.assign ⟨← nat? a, ← nat? d⟩ ⟨← nat? b, ← nat? e⟩)
  | ["massign", a, d, b, e] => do pure (.massign ⟨← nat? a, ← nat? d⟩ ⟨← nat? b, ← nat? e⟩)
  | ["setinner", a, d, s] => do pure (.setinner ⟨← nat? a, ← nat? d⟩ (← nat? s))
  | ["setinnerref", a, d, b, e] => do pure (.setinnerref ⟨← nat? a, ← nat? d⟩ ⟨← nat? b, ← nat? e⟩)
  | ["setnull", a, d] => do pure (.setnull ⟨← nat? a, ← nat? d⟩)
  | ["release", s, a, d] => do pure (.release (← nat? s) ⟨← nat? a, ← nat? d⟩)
  | ["del", s] => do pure (.del (← nat? s))
  | ["pknew", s, a, d] => do pure (.pknew (← nat? s) ⟨← nat? a, ← nat? d⟩)
  | ["pkown", s, t] => do pure (.pkown (← nat? s) (← nat? t))
  | ["pkptr", s, t] => do pure (.pkown (← nat? s) (← nat? t))                 -- Packet(const PtrPacket&) adopts likewise
  | ["pkempty", s] => do pure (.pkempty (← nat? s))
  | ["pkcopy", s, p] => do pure (.pkcopy (← nat? s) (← nat? p))
  | ["pkassign", p, q] => do pure (.pkassign (← nat? p) (← nat? q))
  | ["pkmove", s, p] => do pure (.pkmove (← nat? s) (← nat? p))
  | ["pkmassign", p, q] => do pure (.pkmassign (← nat? p) (← nat? q))
  | ["pkrelease", s, p] => do pure (.pkrelease (← nat? s) (← nat? p))
  | ["pkdiv", p, b, e] => do pure (.pkdiv (← nat? p) ⟨← nat? b, ← nat? e⟩)
  | ["onew", i, c, l, f] => do pure (.onew (← nat? i) (← nat? c) (← nat? l) (← nat? f))
  | ["ocopy", i, j] => do pure (.ocopy (← nat? i) (← nat? j))
  | ["omove", i, j] => do pure (.omove (← nat? i) (← nat? j))
  | ["oassign", i, j] => do pure (.oassign (← nat? i) (← nat? j))
  | ["omassign", i, j] => do pure (.omassign (← nat? i) (← nat? j))
  | ["odel", i] => do pure (.odel (← nat? i))
  | _ => none

def isOptOp : Op → Bool
  | .onew .. | .ocopy .. | .omove .. | .oassign .. | .omassign .. | .odel .. => true
  | _ => false

def showOpts (status : String) (opts : List (Option Opt)) : String :=
  opts.foldl (fun acc o => acc ++ " | " ++ match o with
    | none => "-"
    | some o => s!"{o.code}:{o.size}:{toHex (o.data.map UInt8.ofNat)}") status

/-! ### model mode -/

structure MState where
  st : State := {}
  ids : List (Addr × Nat) := []      -- display identities of the reachable layers
  nextId : Nat := 0
  pool : Tins.OptStore.Pool := {}    -- the storage-level PDUOption model (lines of harness/c12_option.cpp)

/-- the layers reachable from a handle by `->inner_pdu()` -/
def chainNodes (h : Heap) : Nat → Option Addr → List (Addr × Node)
  | 0, _ => []
  | _ + 1, none => []
  | fuel + 1, some a =>
    match h.get a with
    | none => []
    | some n => (a, n) :: chainNodes h fuel n.inner

def lookupId (m : List (Addr × Nat)) (a : Addr) : Option Nat := (m.find? (·.1 == a)).map (·.2)

def showForest (status : String) (m : MState) : MState × String :=
  let h := m.st.heap
  let chains := m.st.slots.map (fun s => match s with
    | none => none
    | some (.pdu a) => some ("P", chainNodes h (h.cells.length + 1) (some a))
    | some (.pkt p) => some ("K", chainNodes h (h.cells.length + 1) p))
  -- display identities in traversal order; layers no longer reachable are forgotten
  let (now, next) := chains.foldl (fun acc c => match c with
    | none => acc
    | some (_, ns) => ns.foldl (fun (acc : List (Addr × Nat) × Nat) an =>
        match lookupId acc.1 an.1 with
        | some _ => acc
        | none => match lookupId m.ids an.1 with
          | some i => (acc.1 ++ [(an.1, i)], acc.2)
          | none => (acc.1 ++ [(an.1, acc.2)], acc.2 + 1)) acc) ([], m.nextId)
  let showChain (ns : List (Addr × Node)) : String :=
    let rec go (above : Option Addr) : List (Addr × Node) → List String
      | [] => []
      | (a, n) :: r =>
        let par := match n.parent with
          | none => "n"
          | some p => if some p == above then "u" else match lookupId now p with
            | some i => s!"x{i}"
            | none => "?"
        s!"{(lookupId now a).getD 0}:{n.view.cls}:{n.view.kind}:{n.view.val}:{par}" :: go (some a) r
    joinWith "," (go none ns)
  let body := chains.foldl (fun acc c => acc ++ " | " ++ match c with
    | none => "-"
    | some (k, ns) => s!"{k}[{showChain ns}]") ""
  ({ m with ids := now, nextId := next }, s!"{status} live={h.live} ser=11{body}")

/-! ### copyall / copyclasses: what the generated member table (Gen/Members.lean) predicts -/

open Tins.Own.Members in
def concreteRows : List ClassRow := Tins.Gen.Members.classes.filter (fun r => r.isPdu && r.concrete)

open Tins.Own.Members in
def copyable : Special → Bool
  | .deleted | .privateUndefined | .unparsed => false
  | _ => true

/-- every copy / move / clone of an object whose class has only deep-value members (plus the modelled pointers) yields an
    equal, independent object of the same class; nothing stays alive -/
def copyAllExpected (cls : String) : String := s!"ok {cls} cc=1 cl=1 ti=1 ca=1 mc=1 ma=1 ind=1 live=0"

def copyModel (ws : List String) : Option String :=
  match ws with
  | ["copyclasses"] =>
    some (joinWith " " (concreteRows.map (fun r =>
      s!"{r.name}:a{if r.isAbstract then 1 else 0}c{if copyable r.copyCtor then 1 else 0}s{if copyable r.copyAssign then 1 else 0}")))
  | ["copyall", cls, _, mode] =>
    if (mode == "0" || mode == "1" || mode == "2") && concreteRows.any (fun r => r.name == cls) then some (copyAllExpected cls)
    else some "bad-op"
  | "copyall" :: _ => some "bad-op"
  | _ => none

/-- oracle clause per check of a `copyall` line -/
def copySpec (opWs : List String) (out : String) : String :=
  match opWs with
  | ["copyclasses"] => "ok"
  | _ =>
    if out == "SKIP" || out.startsWith "FAULT" then "unspecified" else
    if out == "bad-op" then "unspecified" else
    let ws := words out
    let flag (k : String) : Bool := ws.contains (k ++ "=1")
    if ws.headD "" != "ok" then "violates unparsable-output"
    else if !flag "ti" then "violates clone-same-dynamic-type (the clone is an object of another class: slicing)"
    else if !flag "cc" then "violates copy-ctor-serialization-equal"
    else if !flag "cl" then "violates clone-serialization-equal"
    else if !flag "ca" then "violates copy-assign-serialization-equal"
    else if !flag "mc" then "violates move-ctor-transfers-value"
    else if !flag "ma" then "violates move-assign-transfers-value"
    else if !flag "ind" then "violates copy-independent (changing or destroying one side changed the other)"
    else if !ws.contains "live=0" then "violates freed-exactly-once (live PDU objects after destroying every copy)"
    else "ok"

/-- `assignraw a b`: copy assignment WITHOUT the well-formedness guard, executed literally on the pointer model
    (used only to reproduce the recorded finding that assigning from a layer the target owns reads destroyed storage) -/
def stepAssignRaw (m : MState) (a b : Ref) : MState × String :=
  match resolve m.st a, resolve m.st b with
  | some x, some y =>
    let h' := if classEq m.st.heap x y then assignSame m.st.heap x y else assignBase m.st.heap x y
    if h'.faults > m.st.heap.faults then (m, "FAULT model: the source layer is destroyed before its members are copied")
    else showForest "ok" { m with st := { m.st with heap := h' } }
  | _, _ => showForest "illformed" m

def step (m : MState) (line : String) : MState × String :=
  if let some out := copyModel (words line) then (m, out) else
  if C12Opt.isStorageLine (words line) then
    let (p, out) := C12Opt.step m.pool line
    ({ m with pool := p }, out)
  else
  match words line with
  | ["assignraw", a, d, b, e] =>
    match nat? a, nat? d, nat? b, nat? e with
    | some a, some d, some b, some e => stepAssignRaw m ⟨a, d⟩ ⟨b, e⟩
    | _, _, _, _ => (m, "bad-op")
  | _ =>
  match parseOp (words line) with
  | none => (m, "bad-op")
  | some op =>
    match Tins.Own.step m.st op with
    | none => if isOptOp op then (m, showOpts "illformed" m.st.opts) else showForest "illformed" m
    | some st' =>
      if isOptOp op then ({ m with st := st' }, showOpts "ok" st'.opts)
      else
        let status := match op with | .init _ => "init" | .fin => "end" | _ => "ok"
        let m' := match op with
          | .init _ => { st := st', ids := [], nextId := 0 }
          | _ => { m with st := st' }
        showForest status m'

def initModel : MState := {}

/-! ### spec (oracle) mode -/

structure OState where
  prev : AState := {}
  maxId : Nat := 0          -- identities below this have been seen (fresh ones must not be)
  started : Bool := false
  opt : C12Opt.OState := {}

structure PNode where
  id : Nat
  view : View
  par : String

def parseNode (s : String) : Option PNode :=
  match s.splitOn ":" with
  | [i, c, k, v, p] => do pure ⟨← nat? i, ⟨← nat? c, ← nat? k, ← nat? v⟩, p⟩
  | _ => none

/-- `-` | `P[...]` | `K[...]` -/
def parseSlot (s : String) : Option (Option (SKind × List PNode)) :=
  if s == "-" then some none else
  let kind? := if s.startsWith "P[" then some SKind.pdu else if s.startsWith "K[" then some SKind.pkt else none
  match kind? with
  | none => none
  | some k =>
    if !s.endsWith "]" then none else
    let body := ((s.drop 2).dropEnd 1).toString
    if body == "" then some (some (k, [])) else
    match (body.splitOn ",").mapM parseNode with
    | some ns => some (some (k, ns))
    | none => none

def parseOpt (s : String) : Option (Option Opt) :=
  if s == "-" then some none else
  match s.splitOn ":" with
  | [c, z, h] => do
    let d ← parseHex h
    pure (some ⟨← nat? c, ← nat? z, d.map (·.toNat)⟩)
  | _ => none

def kvNat (ws : List String) (key : String) : Option Nat :=
  ws.findSome? (fun w => if w.startsWith (key ++ "=") then (w.drop (key.length + 1)).toString.toNat? else none)

def kvStr (ws : List String) (key : String) : Option String :=
  ws.findSome? (fun w => if w.startsWith (key ++ "=") then some (w.drop (key.length + 1)).toString else none)

/-- compare the observed forest with the specified one: same shape, kinds and fields; layers the specification keeps
    keep their identity; layers it creates carry identities never seen before -/
def matchForest (maxId : Nat) (specNext : Nat) (exp : List (Option ASlot)) (got : List (Option (SKind × List PNode))) : Bool :=
  exp.length == got.length &&
  (exp.zip got).all (fun eg => match eg with
    | (none, none) => true
    | (some e, some (k, ns)) =>
      e.kind == k && e.chain.length == ns.length &&
      (e.chain.zip ns).all (fun en =>
        en.1.2 == en.2.view &&
        (if en.1.1 < specNext then en.2.id == en.1.1 else decide (maxId ≤ en.2.id)))
    | _ => false)

def nodup (l : List Nat) : Bool :=
  match l with
  | [] => true
  | x :: r => !(r.contains x) && nodup r

def specStep (o : OState) (line : String) : OState × String :=
  let opWs := words ((line.splitOn " ||| ").headD "")
  if opWs.headD "" == "copyall" || opWs.headD "" == "copyclasses" then
    (o, copySpec opWs (((line.trimAscii.toString.splitOn " ||| ").drop 1).headD "")) else
  if C12Opt.isStorageLine (words ((line.splitOn " ||| ").headD "")) then
    let (p, out) := C12Opt.specStep o.opt line
    ({ o with opt := p }, out)
  else
  match line.trimAscii.toString.splitOn " ||| " with
  | [opS, out] =>
    match parseOp (words opS) with
    | none => (o, "unspecified")
    | some op =>
      if out.startsWith "FAULT" || out == "SKIP" then ({ o with started := false }, "unspecified") else
      if out.startsWith "throw" then (o, "violates no-exception " ++ out) else
      let parts := out.splitOn " | "
      let head := words (parts.headD "")
      let status := head.headD ""
      if isOptOp op then
        if !o.started then (o, "unspecified") else
        match (parts.drop 1).mapM parseOpt with
        | none => (o, "violates unparsable-output")
        | some got =>
          match o.prev.step op with
          | none =>
            if status == "illformed" && got == o.prev.opts then (o, "ok") else (o, "violates option-wellformedness")
          | some E =>
            if status != "ok" then (o, "violates option-wellformedness")
            else if got == E.opts then ({ o with prev := E }, "ok")
            else ({ o with prev := { E with opts := got } }, "violates option-value-semantics")
      else
      match (parts.drop 1).mapM parseSlot, kvNat head "live", kvStr head "ser" with
      | some got, some live, some ser =>
        let nodes := (got.filterMap id).flatMap (·.2)
        let ids := nodes.map (·.id)
        let base := match op with | .init _ => 0 | _ => o.maxId
        let obs : AState := { slots := got.map (fun g => g.map (fun kn => ⟨kn.1, kn.2.map (fun n => (n.id, n.view))⟩)),
                              next := ids.foldl (fun m i => max m (i + 1)) base,
                              opts := o.prev.opts }
        let o' : OState := { prev := obs, maxId := obs.next, started := true }
        let parentOK := (got.filterMap id).all (fun kn => match kn.2 with
          | [] => true
          | n :: r => n.par == "n" && r.all (·.par == "u"))
        -- clauses on the observed forest alone
        if !nodup ids then (o', "violates unique-owner") else
        if !parentOK then (o', "violates parent-link") else
        if live != nodes.length then (o', s!"violates freed-exactly-once live={live} reachable={nodes.length}") else
        match op with
        | .init n =>
          if status == "init" && got.length == n && got.all Option.isNone then ({ o' with prev := { obs with opts := List.replicate n none } }, "ok")
          else (o', "violates init-empty")
        | _ =>
          if !o.started then (o', "unspecified") else
          match o.prev.step op with
          | none =>
            if status == "illformed" && matchForest o.maxId o.prev.next o.prev.slots got then (o', "ok")
            else (o', "violates wellformedness-guard")
          | some E =>
            if status != "ok" && status != "end" then (o', "violates wellformedness-guard")
            else if !matchForest o.maxId o.prev.next E.slots got then (o', s!"violates op-post {(words opS).headD ""}")
            else if ser.toList.head? != some '1' then (o', "violates copy-serialization-equal")
            else if ser.toList.drop 1 != ['1'] then (o', "violates independence-serialization")
            else ({ o' with prev := { obs with opts := E.opts } }, "ok")
      | _, _, _ => (o, "violates unparsable-output")
  | _ => (o, "bad-line")

def initSpec : OState := {}

end Driver.C12
