import TinsModel.Ack.Model
import TinsModel.Ack.Spec
import Driver.Util
/- line-protocol driver for AckTracker (property C19): model mode and spec (oracle) mode.
   ops: init <ack> <0|1> | finit <ack> | new | usesack | pkt <ack> [-|edges..] | pktw <ack> [-|edges..] | pktn | opt <ack> <hex>
        | q <seq> <len>            (numbers are absolute positions; the model reduces them mod 2^32) -/
namespace Driver.C19
open Tins Tins.Ack Driver

def showIvs (s : ISet) : String := joinWith "," (s.map (fun i => s!"{i.lo}-{i.hi}"))

def showState (t : Tracker) : String := s!"ack={t.ack} ivs={showIvs t.ivs}"

def insertSorted (x : Nat) : List Nat → List Nat
  | [] => [x]
  | y :: r => if x < y then x :: y :: r else if x = y then y :: r else y :: insertSorted x r

/-- grid points: ack-1, ack, ack+1; lo-1, lo, hi, hi+1 of the first two and last two intervals; 2^32-1 and 0 -/
def gridPoints (ack : Nat) (ivs : List (Nat × Nat)) : List Nat :=
  let n := ivs.length
  let sel := (ivs.zipIdx).filter (fun (_, i) => i < 2 || i + 2 ≥ n)
  let raw := [ack + 4294967295, ack, ack + 1] ++
    sel.flatMap (fun (iv, _) => [iv.1 + 4294967295, iv.1, iv.2, iv.2 + 1]) ++ [4294967295, 0]
  raw.foldl (fun acc x => insertSorted (wrap32 x) acc) []

/-- the (seq,len) queries of the grid, in output order -/
def gridQueries (ack : Nat) (ivs : List (Nat × Nat)) : List (Nat × Nat) :=
  let p := gridPoints ack ivs
  p.flatMap (fun s => p.filterMap (fun e =>
    let len := sub32 e s + 1
    if len > 2147483648 then none else some (s, len)))

def showGrid (t : Tracker) : String :=
  String.ofList ((gridQueries t.ack (t.ivs.map (fun i => (i.lo, i.hi)))).map
    (fun (s, n) => if isSegmentAcked t s n then '1' else '0'))

def parseEdges : List String → Option (Option (List Nat))
  | [] => some none
  | ["-"] => some (some [])
  | ws => (ws.mapM String.toNat?).map (fun es => some (es.map wrap32))

/-- model state: the tracker, and whether it is the one owned by a `Flow` (`finit`): `Flow::process_packet` does not
    let the `malformed_option` of an undecodable SACK option escape (the segment still has to be processed) -/
structure MState where
  t : Tracker := Tracker.default
  inFlow : Bool := false

def packet (tag : String) (st : MState) (ack : Nat) (sack : SackOpt) : MState × String :=
  let (t', thrown) := processPacket st.t (wrap32 ack) sack
  if thrown && !st.inFlow then ({ st with t := t' }, s!"throw malformed_option {showState t'}")
  else ({ st with t := t' }, s!"{tag} {showState t'} grid={showGrid t'}")

def stepT (t : Tracker) (line : String) : Tracker × String :=
  match words line with
  | "init" :: a :: s :: _ => match a.toNat? with
    | some k => let t' := Tracker.init (wrap32 k) (s == "1"); (t', s!"init {showState t'}")
    | none => (t, "bad-op")
  | "finit" :: a :: _ => match a.toNat? with
    -- Flow::update_state builds `AckTracker(ack_seq)` (use_sack defaults to true); the same packet is then processed
    | some k => let t' := (processPacket (Tracker.init (wrap32 k) true) (wrap32 k) .absent).1; (t', s!"finit {showState t'}")
    | none => (t, "bad-op")
  | "new" :: _ => (Tracker.default, s!"new {showState Tracker.default}")
  | "usesack" :: _ => let t' := { t with useSack := true }; (t', s!"usesack {showState t'}")
  | "pkt" :: a :: es => match a.toNat?, parseEdges es with
    | some k, some e => if es.length > 60 then (t, "bad-op") else
      let r := packet "pkt" ⟨t, false⟩ k (match e with | none => .absent | some l => decodeSack (encodeEdges l)); (r.1.t, r.2)
    | _, _ => (t, "bad-op")
  | "pktw" :: a :: es => match a.toNat?, parseEdges es with
    | some k, some e => if es.length > 8 || es == ["-"] then (t, "bad-op") else
      let r := packet "pktw" ⟨t, false⟩ k (match e with | none => .absent | some l => decodeSack (encodeEdges l)); (r.1.t, r.2)
    | _, _ => (t, "bad-op")
  | "pktn" :: _ => (t, s!"pktn {showState t} grid={showGrid t}")
  | "opt" :: a :: h :: _ => match a.toNat?, parseHex h with
    | some k, some d => if d.length > 255 then (t, "bad-op") else
      let r := packet "opt" ⟨t, false⟩ k (decodeSack d); (r.1.t, r.2)
    | _, _ => (t, "bad-op")
  | "q" :: s :: n :: _ => match s.toNat?, n.toNat? with
    | some s, some n =>
      (t, s!"q {showState t} acked={if isSegmentAcked t (wrap32 s) (wrap32 n) then "1" else "0"}")
    | _, _ => (t, "bad-op")
  | _ => (t, "bad-op")

def step (st : MState) (line : String) : MState × String :=
  match words line with
  | "opt" :: a :: h :: _ =>
    -- the only operation whose outcome depends on who owns the tracker
    match a.toNat?, parseHex h with
    | some k, some d => if d.length > 255 then (st, "bad-op") else packet "opt" st k (decodeSack d)
    | _, _ => (st, "bad-op")
  | w :: _ =>
    let r := stepT st.t line
    ({ t := r.1, inFlow := if w == "finit" then true else if w == "init" || w == "new" then false else st.inFlow }, r.2)
  | [] => (st, "bad-op")

def initModel : MState := {}

/-! ### oracle -/
open Tins.Ack.Spec

structure OState where
  A : Nat := 0
  seen : List Blk := []
  sackOn : Bool := false
  specified : Bool := false

def kv (ws : List String) (key : String) : Option String :=
  ws.findSome? (fun w => if w.startsWith (key ++ "=") then some ((w.drop (key.length + 1)).toString) else none)

def parseIvs (s : String) : Option (List (Nat × Nat)) :=
  if s == "" then some [] else
  (s.splitOn ",").mapM (fun item => match item.splitOn "-" with
    | [a, b] => do let a ← a.toNat?; let b ← b.toNat?; pure (a, b)
    | _ => none)

def pairs : List Nat → Option (List Blk)
  | [] => some []
  | l :: r :: rest => (pairs rest).map (fun t => (l, r) :: t)
  | [_] => none

/-- the grid answers of the implementation against the set-of-acknowledged-bytes definition -/
def gridVerdict (st : OState) (ack : Nat) (ivs : List (Nat × Nat)) (bits : String) : String :=
  let qs := gridQueries ack ivs
  let bs := bits.toList
  if qs.length != bs.length then "unparsable-output grid-length" else
  match (qs.zip bs).find? (fun ((s, n), b) =>
      match unwrapNear st.A s with
      | none => false
      | some sa => queryInDomain st.A sa n && (segAckedFast st.A st.seen sa n != (b == '1'))) with
  | some ((s, n), b) => s!"segment-acked seq={s} len={n} impl={b}"
  | none => ""

def judgeState (st : OState) (ow : List String) (grid : Bool) : String :=
  match (kv ow "ack").bind (·.toNat?), (kv ow "ivs").bind parseIvs with
  | some ack, some ivs =>
    let v := stateVerdict st.A st.seen ack ivs
    if v != "" then s!"violates {v}" else
    if grid then
      match kv ow "grid" with
      | some bits => let g := gridVerdict st ack ivs bits; if g != "" then s!"violates {g}" else "ok"
      | none => "violates unparsable-output"
    else "ok"
  | _, _ => "violates unparsable-output"

/-- spec mode: each input line is `<op> ||| <implementation output>` -/
def specStep (st : OState) (line : String) : OState × String :=
  match line.splitOn " ||| " with
  | [op, out] =>
    let ow := words out
    let unspec : OState := { st with specified := false }
    match words op with
    | ["init", a, s] => match a.toNat? with
      | some k => let st' : OState := { A := k, seen := [], sackOn := s == "1", specified := true }
                  (st', judgeState st' ow false)
      | none => (unspec, "unspecified")
    | ["finit", a] => match a.toNat? with
      | some k => let st' : OState := { A := k, seen := [], sackOn := true, specified := true }
                  (st', judgeState st' ow false)
      | none => (unspec, "unspecified")
    | ["new"] => let st' : OState := { A := 0, seen := [], sackOn := false, specified := true }
                 (st', judgeState st' ow false)
    | ["usesack"] => let st' := { st with sackOn := true }
                     (st', if st'.specified then judgeState st' ow false else "unspecified")
    | "pktn" :: _ => (st, if st.specified then judgeState st ow true else "unspecified")
    | "q" :: s :: n :: _ => match s.toNat?, n.toNat? with
      | some s, some n =>
        if st.specified && n < 4294967296 && queryInDomain st.A s n then
          match kv ow "acked" with
          | some b => if segAckedFast st.A st.seen s n == (b == "1") then (st, "ok")
                      else (st, s!"violates segment-acked seq={s} len={n} impl={b}")
          | none => (st, "violates unparsable-output")
        else (st, "unspecified")
      | _, _ => (st, "unspecified")
    | kind :: a :: es =>
      if (kind == "pkt" || kind == "pktw") && st.specified then
        match a.toNat?, (if es == ["-"] then some [] else es.mapM String.toNat?).bind pairs with
        | some k, some blocks =>
          let pkt : Pkt := ⟨k, blocks⟩
          -- with SACK processing off the observer is only told the cumulative ACK
          if pktOK st.A st.seen pkt then
            let st' := { st with A := k, seen := if st.sackOn then st.seen ++ blocks else st.seen }
            (st', judgeState st' ow true)
          else (unspec, "unspecified")
        | _, _ => (unspec, "unspecified")
      else (unspec, "unspecified")
    | _ => (unspec, "unspecified")
  | _ => (st, "bad-line")

def initSpec : OState := {}

end Driver.C19
