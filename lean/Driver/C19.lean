import Driver.Util
/- line-protocol driver for property C19 (stub until the area is built) -/
namespace Driver.C19
open Driver

def step (st : Unit) (_line : String) : Unit × String := (st, "unimplemented")
def specStep (st : Unit) (_line : String) : Unit × String := (st, "unimplemented")
def initModel : Unit := ()
def initSpec : Unit := ()

end Driver.C19
