import TinsModel.Ack.Model
import TinsModel.Ack.Spec
import TinsModel.Ack.Wire
import Driver.Util
/- line-protocol driver for AckTracker (property C19): model mode and spec (oracle) mode.
   ops: init <ack> <0|1> | finit <ack> | new | usesack | pkt <ack> [-|edges..] | pktw <ack> [-|edges..] | pktn | opt <ack> <hex>
        | q <seq> <len>            (numbers are absolute positions; the model reduces them mod 2^32)
        | segw <ack> <layout> <plen> [edges..]   the packet encoded by the reference encoder `Ack.refSegment`, then
                                                 `Ack.processWire` (= `process_packet(TCP(bytes))`)
        | wire <hex>                             arbitrary bytes through `Ack.processWire`
        | icl | ins | insro | del | sub | has | hasp   the interval-set parameter on its own -/
namespace Driver.C19
open Tins Tins.Ack Driver Tins.Wire.Transport

def showIvs (s : ISet) : String := joinWith "," (s.map (fun i => s!"{i.lo}-{i.hi}"))

def showState (t : Tracker) : String := s!"ack={t.ack} ivs={showIvs t.ivs}"

def insertSorted (x : Nat) : List Nat → List Nat
  | [] => [x]
  | y :: r => if x < y then x :: y :: r else if x = y then y :: r else y :: insertSorted x r

/-- grid points: ack-1, ack, ack+1; lo-1, lo, hi, hi+1 of the first two and last two intervals; 2^32-1 and 0 -/
def gridPoints (ack : Nat) (ivs : List (Nat × Nat)) : List Nat :=
  let n := ivs.length
  let sel := (ivs.zipIdx).filter (fun (_, i) => i < 2 || i + 2 ≥ n)
  let raw := [ack + 4294967295, ack, ack + 1] ++
    sel.flatMap (fun (iv, _) => [iv.1 + 4294967295, iv.1, iv.2, iv.2 + 1]) ++ [4294967295, 0]
  raw.foldl (fun acc x => insertSorted (wrap32 x) acc) []

/-- the (seq,len) queries of the grid, in output order -/
def gridQueries (ack : Nat) (ivs : List (Nat × Nat)) : List (Nat × Nat) :=
  let p := gridPoints ack ivs
  p.flatMap (fun s => p.filterMap (fun e =>
    let len := sub32 e s + 1
    if len > 2147483648 then none else some (s, len)))

def showGrid (t : Tracker) : String :=
  String.ofList ((gridQueries t.ack (t.ivs.map (fun i => (i.lo, i.hi)))).map
    (fun (s, n) => if isSegmentAcked t s n then '1' else '0'))

def parseEdges : List String → Option (Option (List Nat))
  | [] => some none
  | ["-"] => some (some [])
  | ws => (ws.mapM String.toNat?).map (fun es => some (es.map wrap32))

/-! ### reference encoder input: the option layout of a `segw` line -/

/-- one option per letter (harness/c19_acktracker.cpp `ref_segment`) -/
def layoutOpt (edges : List Nat) : Char → Option (List TcpOpt)
  | '.' => some []
  | 'n' => some [⟨1, 0, []⟩]
  | 'E' => some [⟨0, 0, []⟩]
  | 'm' => some [⟨2, 2, [0x05, 0xb4]⟩]
  | 'w' => some [⟨3, 1, [7]⟩]
  | 'k' => some [⟨4, 0, []⟩]
  | 't' => some [⟨8, 8, [0, 0, 0, 1, 0, 0, 0, 2]⟩]
  | 'x' => some [⟨30, 3, [0xaa, 0xbb, 0xcc]⟩]
  | 'S' => let d := encodeEdges edges; if d.length > 253 then none else some [⟨5, d.length, d⟩]
  | 'T' => let d := encodeEdges edges
           if d.isEmpty || d.length - 1 > 253 then none else some [⟨5, d.length - 1, d.dropLast⟩]
  | _ => none

def layoutOpts (layout : String) (edges : List Nat) : Option (List TcpOpt) :=
  (layout.toList.mapM (layoutOpt edges)).map List.flatten

/-- the fixed header fields of the reference segment: ports 1234 → 80, sequence number 1001, ACK flag, window 32678 -/
def refHdr (ack : Nat) : Tcp :=
  { sport := 1234, dport := 80, seq := 1001, ackSeq := wrap32 ack, doff := 0, res1 := 0, flags8 := 0x10,
    window := 32678, check := 0, urgPtr := 0, opts := [] }

def segwBytes (ack : Nat) (layout : String) (plen : Nat) (edges : List Nat) : Option Bytes :=
  if plen > 64 then none else
  match layoutOpts layout edges with
  | none => none
  | some os => if (refOptArea os).length > 40 then none
               else some (refSegment (refHdr ack) os (List.replicate plen 0xab))

def showCard (s : ISet) : String := s!"ivs={showIvs s} n={s.count} card={wrap32 s.card}"

/-- model state: the tracker, and whether it is the one owned by a `Flow` (`finit`): `Flow::process_packet` does not
    let the `malformed_option` of an undecodable SACK option escape (the segment still has to be processed) -/
structure MState where
  t : Tracker := Tracker.default
  inFlow : Bool := false
  iset : ISet := []                 -- the `icl` stream's own interval set

/-- `process_packet(TCP(bytes))` on the tracker under test; `hex` is appended to the answer of a `segw` line -/
def packetW (tag : String) (st : MState) (b : Bytes) (hex : String) : MState × String :=
  let (t', res) := processWire st.t b
  let st' := { st with t := t' }
  match res with
  | .done => (st', s!"{tag} {showState t'} grid={showGrid t'}{hex}")
  | .malformedOption =>
    if st.inFlow then (st', s!"{tag} {showState t'} grid={showGrid t'}{hex}")
    else (st', s!"throw malformed_option {showState t'}{hex}")
  | .malformedPacket => (st', s!"throw malformed_packet {showState t'}{hex}")
  | .other w => (st', s!"throw {w} {showState t'}{hex}")

def iclStep (st : MState) : List String → Option (MState × String)
  | ["icl"] => some ({ st with iset := [] }, s!"icl {showCard []}")
  | [op, a, b] => match a.toNat?, b.toNat? with
    | some lo, some hi =>
      let lo := wrap32 lo; let hi := wrap32 hi
      if op == "insro" then let s' := insertRO st.iset lo hi; some ({ st with iset := s' }, s!"insro {showCard s'}")
      else if !(op == "ins" || op == "del" || op == "sub" || op == "has") then none
      else if lo > hi then some (st, "bad-op")
      else if op == "ins" then let s' := insertIvl st.iset lo hi; some ({ st with iset := s' }, s!"ins {showCard s'}")
      else if op == "has" then
        some (st, s!"has {showCard st.iset} r={if containsIvl st.iset lo hi then "1" else "0"}")
      else let s' := eraseIvl st.iset lo hi; some ({ st with iset := s' }, s!"{op} {showCard s'}")
    | _, _ => none
  | ["hasp", a] => match a.toNat? with
    | some p => some (st, s!"hasp {showCard st.iset} r={if ISet.mem st.iset (wrap32 p) then "1" else "0"}")
    | none => none
  | _ => none

def packet (tag : String) (st : MState) (ack : Nat) (sack : SackOpt) : MState × String :=
  let (t', thrown) := processPacket st.t (wrap32 ack) sack
  if thrown && !st.inFlow then ({ st with t := t' }, s!"throw malformed_option {showState t'}")
  else ({ st with t := t' }, s!"{tag} {showState t'} grid={showGrid t'}")

def stepT (t : Tracker) (line : String) : Tracker × String :=
  match words line with
  | "init" :: a :: s :: _ => match a.toNat? with
    | some k => let t' := Tracker.init (wrap32 k) (s == "1"); (t', s!"init {showState t'}")
    | none => (t, "bad-op")
  | "finit" :: a :: _ => match a.toNat? with
    -- Flow::update_state builds `AckTracker(ack_seq)` (use_sack defaults to true); the same packet is then processed
    | some k => let t' := (processPacket (Tracker.init (wrap32 k) true) (wrap32 k) .absent).1; (t', s!"finit {showState t'}")
    | none => (t, "bad-op")
  | "new" :: _ => (Tracker.default, s!"new {showState Tracker.default}")
  | "usesack" :: _ => let t' := { t with useSack := true }; (t', s!"usesack {showState t'}")
  | "pkt" :: a :: es => match a.toNat?, parseEdges es with
    | some k, some e => if es.length > 60 then (t, "bad-op") else
      let r := packet "pkt" { t := t } k (match e with | none => .absent | some l => decodeSack (encodeEdges l)); (r.1.t, r.2)
    | _, _ => (t, "bad-op")
  | "pktw" :: a :: es => match a.toNat?, parseEdges es with
    | some k, some e => if es.length > 8 || es == ["-"] then (t, "bad-op") else
      let r := packet "pktw" { t := t } k (match e with | none => .absent | some l => decodeSack (encodeEdges l)); (r.1.t, r.2)
    | _, _ => (t, "bad-op")
  | "pktn" :: _ => (t, s!"pktn {showState t} grid={showGrid t}")
  | "opt" :: a :: h :: _ => match a.toNat?, parseHex h with
    | some k, some d => if d.length > 255 then (t, "bad-op") else
      let r := packet "opt" { t := t } k (decodeSack d); (r.1.t, r.2)
    | _, _ => (t, "bad-op")
  | "q" :: s :: n :: _ => match s.toNat?, n.toNat? with
    | some s, some n =>
      (t, s!"q {showState t} acked={if isSegmentAcked t (wrap32 s) (wrap32 n) then "1" else "0"}")
    | _, _ => (t, "bad-op")
  | _ => (t, "bad-op")

def step (st : MState) (line : String) : MState × String :=
  match words line with
  | "segw" :: a :: layout :: pl :: es =>
    match a.toNat?, pl.toNat?, es.mapM String.toNat? with
    | some k, some plen, some e =>
      match segwBytes k layout plen (e.map wrap32) with
      | some b => packetW "segw" st b s!" hex={toHex b}"
      | none => (st, "bad-op")
    | _, _, _ => (st, "bad-op")
  | ["wire", h] =>
    match parseHex h with
    | some b => if st.inFlow || b.length > 200 then (st, "bad-op") else packetW "wire" st b ""
    | none => (st, "bad-op")
  | "opt" :: a :: h :: _ =>
    -- the only operation whose outcome depends on who owns the tracker
    match a.toNat?, parseHex h with
    | some k, some d => if d.length > 255 then (st, "bad-op") else packet "opt" st k (decodeSack d)
    | _, _ => (st, "bad-op")
  | w :: ws =>
    if w == "icl" || w == "ins" || w == "insro" || w == "del" || w == "sub" || w == "has" || w == "hasp" then
      match iclStep st (w :: ws) with
      | some r => r
      | none => (st, "bad-op")
    else
    let r := stepT st.t line
    ({ st with t := r.1, inFlow := if w == "finit" then true else if w == "init" || w == "new" then false else st.inFlow }, r.2)
  | [] => (st, "bad-op")

def initModel : MState := {}

/-! ### oracle -/
open Tins.Ack.Spec

structure OState where
  A : Nat := 0
  seen : List Blk := []
  sackOn : Bool := false
  specified : Bool := false
  inFlow : Bool := false                      -- the tracker is owned by a Flow (which catches `malformed_option`)
  iclHist : List (Bool × Nat × Nat) := []    -- `icl` stream: (insert?, lo, hi), newest first

def kv (ws : List String) (key : String) : Option String :=
  ws.findSome? (fun w => if w.startsWith (key ++ "=") then some ((w.drop (key.length + 1)).toString) else none)

def parseIvs (s : String) : Option (List (Nat × Nat)) :=
  if s == "" then some [] else
  (s.splitOn ",").mapM (fun item => match item.splitOn "-" with
    | [a, b] => do let a ← a.toNat?; let b ← b.toNat?; pure (a, b)
    | _ => none)

def pairs : List Nat → Option (List Blk)
  | [] => some []
  | l :: r :: rest => (pairs rest).map (fun t => (l, r) :: t)
  | [_] => none

/-- the grid answers of the implementation against the set-of-acknowledged-bytes definition -/
def gridVerdict (st : OState) (ack : Nat) (ivs : List (Nat × Nat)) (bits : String) : String :=
  let qs := gridQueries ack ivs
  let bs := bits.toList
  if qs.length != bs.length then "unparsable-output grid-length" else
  match (qs.zip bs).find? (fun ((s, n), b) =>
      match unwrapNear st.A s with
      | none => false
      | some sa => queryInDomain st.A sa n && (segAckedFast st.A st.seen sa n != (b == '1'))) with
  | some ((s, n), b) => s!"segment-acked seq={s} len={n} impl={b}"
  | none => ""

def judgeState (st : OState) (ow : List String) (grid : Bool) : String :=
  match (kv ow "ack").bind (·.toNat?), (kv ow "ivs").bind parseIvs with
  | some ack, some ivs =>
    let v := stateVerdict st.A st.seen ack ivs
    if v != "" then s!"violates {v}" else
    if grid then
      match kv ow "grid" with
      | some bits => let g := gridVerdict st ack ivs bits; if g != "" then s!"violates {g}" else "ok"
      | none => "violates unparsable-output"
    else "ok"
  | _, _ => "violates unparsable-output"

/-- **every history** (Props.C19.sane_preserved_by_any_packet / wire_total_any_bytes): whatever the traffic, the
    reported state is a 32-bit ACK number and a canonical list of intervals with 32-bit edges, and the only exceptions
    that leave the tracker are `malformed_option` and (from the parsing constructor) `malformed_packet` -/
def safetyVerdict (out : String) : String :=
  let ow := words out
  let exc := match ow with
    | "throw" :: e :: _ => if e == "malformed_option" || e == "malformed_packet" then "" else s!"exception {e}"
    | _ => ""
  if exc != "" then exc else
  match kv ow "ack", kv ow "ivs" with
  | some a, some i =>
    match a.toNat?, parseIvs i with
    | some ack, some ivs =>
      if ack ≥ 4294967296 then "ack-not-32-bit"
      else if !canonical ivs then "intervals-not-canonical"
      else if !(ivs.all (fun q => q.2 < 4294967296)) then "edge-not-32-bit"
      else ""
    | _, _ => "unparsable-state"
  | _, _ => ""

/-- the SACK option a `segw` layout puts in front of `search_option`: the first `S` / `T` before any END octet -/
def layoutSack (layout : String) : Option Char :=
  (layout.toList.takeWhile (· != 'E')).find? (fun c => c == 'S' || c == 'T')

/-! ### the interval-set parameter judged point-wise: a point is in the set iff the last operation covering it was an
    insertion.  Membership is piecewise constant between the edges of the operations, so agreement on every edge and its
    two neighbours together with canonical form determines the whole list. -/

def iclPoints (h : List (Bool × Nat × Nat)) : List Nat :=
  h.flatMap (fun (_, lo, hi) => [lo - 1, lo, lo + 1, hi - 1, hi, min (hi + 1) 4294967295])

def iclExpected (h : List (Bool × Nat × Nat)) (p : Nat) : Bool :=
  match h.find? (fun (_, lo, hi) => lo ≤ p && p ≤ hi) with
  | some (ins, _, _) => ins
  | none => false

def memIvs (ivs : List (Nat × Nat)) (p : Nat) : Bool := ivs.any (fun q => q.1 ≤ p && p ≤ q.2)

def iclVerdict (h : List (Bool × Nat × Nat)) (ow : List String) : String :=
  match (kv ow "ivs").bind parseIvs, (kv ow "n").bind (·.toNat?), (kv ow "card").bind (·.toNat?) with
  | some ivs, some n, some card =>
    if !canonical ivs then "violates icl-canonical"
    else if !(ivs.all (fun q => q.2 < 4294967296)) then "violates icl-edge-not-32-bit"
    else match (iclPoints h).find? (fun p => memIvs ivs p != iclExpected h p) with
      | some p => s!"violates icl-point-set p={p} impl={memIvs ivs p}"
      | none =>
        if n != ivs.length then "violates icl-iterative-size"
        -- cardinality is computed in the domain type: the full set [0, 2^32-1] reports 0
        else if card != wrap32 (ivs.foldl (fun acc q => acc + (q.2 + 1 - q.1)) 0) then "violates icl-cardinality"
        else "ok"
  | _, _, _ => "violates unparsable-output"

def iclSpec (st : OState) (op : List String) (ow : List String) : Option (OState × String) :=
  if ow == ["bad-op"] then (match op with
    | w :: _ => if w == "icl" || w == "ins" || w == "insro" || w == "del" || w == "sub" || w == "has" || w == "hasp"
                then some (st, "unspecified") else none
    | [] => none) else
  match op with
  | ["icl"] => let st' := { st with iclHist := [] }; some (st', iclVerdict [] ow)
  | [w, a, b] => match a.toNat?, b.toNat? with
    | some lo, some hi =>
      let lo := wrap32 lo; let hi := wrap32 hi
      if w == "ins" || w == "del" || w == "sub" then
        if lo > hi then some (st, "unspecified") else
        let st' := { st with iclHist := (w == "ins", lo, hi) :: st.iclHist }
        some (st', iclVerdict st'.iclHist ow)
      else if w == "insro" then
        let st' := if lo < hi then { st with iclHist := (true, lo, hi - 1) :: st.iclHist } else st
        some (st', iclVerdict st'.iclHist ow)
      else if w == "has" then
        if lo > hi then some (st, "unspecified") else
        let v := iclVerdict st.iclHist ow
        if v != "ok" then some (st, v) else
        -- subset of a canonical list = inside one interval; and point-wise on the edges
        let want := iclExpected st.iclHist lo && iclExpected st.iclHist hi &&
          ((iclPoints st.iclHist).all (fun p => !(lo ≤ p && p ≤ hi) || iclExpected st.iclHist p))
        some (st, if kv ow "r" == some (if want then "1" else "0") then "ok" else s!"violates icl-contains impl={kv ow "r"}")
      else none
    | _, _ => none
  | ["hasp", a] => match a.toNat? with
    | some p =>
      let v := iclVerdict st.iclHist ow
      if v != "ok" then some (st, v) else
      let want := iclExpected st.iclHist (wrap32 p)
      some (st, if kv ow "r" == some (if want then "1" else "0") then "ok" else s!"violates icl-contains-point impl={kv ow "r"}")
    | none => none
  | _ => none

/-- spec mode, the clauses of the conforming-history theorems -/
def specCore (st : OState) (line : String) : OState × String :=
  match line.splitOn " ||| " with
  | [op, out] =>
    let ow := words out
    let unspec : OState := { st with specified := false }
    match words op with
    | ["init", a, s] => match a.toNat? with
      | some k => let st' : OState := { A := k, seen := [], sackOn := s == "1", specified := true }
                  (st', judgeState st' ow false)
      | none => (unspec, "unspecified")
    | ["finit", a] => match a.toNat? with
      | some k => let st' : OState := { A := k, seen := [], sackOn := true, specified := true, inFlow := true }
                  (st', judgeState st' ow false)
      | none => (unspec, "unspecified")
    | ["new"] => let st' : OState := { A := 0, seen := [], sackOn := false, specified := true }
                 (st', judgeState st' ow false)
    | ["usesack"] => let st' := { st with sackOn := true }
                     (st', if st'.specified then judgeState st' ow false else "unspecified")
    | "pktn" :: _ => (st, if st.specified then judgeState st ow true else "unspecified")
    | "q" :: s :: n :: _ => match s.toNat?, n.toNat? with
      | some s, some n =>
        if st.specified && n < 4294967296 && queryInDomain st.A s n then
          match kv ow "acked" with
          | some b => if segAckedFast st.A st.seen s n == (b == "1") then (st, "ok")
                      else (st, s!"violates segment-acked seq={s} len={n} impl={b}")
          | none => (st, "violates unparsable-output")
        else (st, "unspecified")
      | _, _ => (st, "unspecified")
    | "segw" :: a :: layout :: _ :: es =>
      -- Props.C19.ack_refines_wire / wire_malformed_sack / odd_edge_count_drops_last on the implementation's output
      if ow == ["bad-op"] then (st, "unspecified") else
      if !st.specified then (unspec, "unspecified") else
      match a.toNat?, es.mapM String.toNat? with
      | some k, some e =>
        let sk := layoutSack layout
        -- blocks the tracker must take from the packet: none without a SACK option or from an undecodable one;
        -- a trailing odd edge is not looked at
        let edges := if sk == some 'S' then (if e.length % 2 == 1 then e.dropLast else e) else []
        match pairs edges with
        | some blocks =>
          let pkt : Pkt := ⟨k, blocks⟩
          if pktOK st.A st.seen pkt then
            let st' := { st with A := k, seen := if st.sackOn then st.seen ++ blocks else st.seen }
            let thrown := ow.head? == some "throw"
            let mustThrow := sk == some 'T' && st.sackOn && !st.inFlow
            if thrown && !mustThrow then (st', s!"violates unexpected-exception {out.take 40}")
            else if mustThrow && !(ow.take 2 == ["throw", "malformed_option"]) then (st', "violates malformed-sack-not-reported")
            else (st', judgeState st' ow (!thrown))
          else (unspec, "unspecified")
        | none => (unspec, "unspecified")
      | _, _ => (unspec, "unspecified")
    | kind :: a :: es =>
      if (kind == "pkt" || kind == "pktw") && st.specified then
        match a.toNat?, (if es == ["-"] then some [] else es.mapM String.toNat?).bind pairs with
        | some k, some blocks =>
          let pkt : Pkt := ⟨k, blocks⟩
          -- with SACK processing off the observer is only told the cumulative ACK
          if pktOK st.A st.seen pkt then
            let st' := { st with A := k, seen := if st.sackOn then st.seen ++ blocks else st.seen }
            (st', judgeState st' ow true)
          else (unspec, "unspecified")
        | _, _ => (unspec, "unspecified")
      else (unspec, "unspecified")
    | _ => (unspec, "unspecified")
  | _ => (st, "bad-line")

/-- spec mode: each input line is `<op> ||| <implementation output>` -/
def specStep (st : OState) (line : String) : OState × String :=
  match line.splitOn " ||| " with
  | [op, out] =>
    match iclSpec st (words op) (words out) with
    | some r => r
    | none =>
      let (st', v) := specCore st line
      if v.startsWith "violates" then (st', v) else
      let sv := safetyVerdict out
      if sv != "" then (st', s!"violates any-history {sv}") else (st', v)
  | _ => (st, "bad-line")

def initSpec : OState := {}

end Driver.C19
