import Driver.Wire
import Driver.WireSpec
import Driver.CursorDrv
import TinsModel.Gen.EntryPoints
import TinsModel.Wire.Raw.Misc
/- property C01: model mode = the shared wire driver + the stream-model driver; spec mode = WireSpec.spec01 -/
namespace Driver.C01
open Driver

structure St where
  wire : Wire.State := {}
  cur : CursorDrv.St := {}

def step (st : St) (line : String) : St × String :=
  let ws := words line
  match ws with
  | w :: _ =>
    if CursorDrv.isCursorOp w then
      let (c', o) := CursorDrv.step st.cur ws
      ({ st with cur := c' }, o)
    else
      let (w', o) := Wire.step st.wire line
      ({ st with wire := w' }, o)
  | [] => (st, "bad-op")

def initModel : St := {}

/-! ### the entry-point sweep (harness/c01_entry.cpp): `entry <key without spaces> <hex> [args]`

  C01's statement for one call: the function yields a value (`ok`, or `null` from a dispatcher that does not know the tag)
  or raises `malformed_packet`; never anything else.  For the functions that are not packet parsers but typed accessors
  of part of a packet (option payload decoders, DUIDs, SOA data, RSN information …) any other libtins exception is
  allowed as well.  Which rows are packet parsers is read from the generated table: the owner derives from `PDU`, or the
  function is one of the dispatchers / allocators of namespace `Internals` that hand back a `PDU*`. -/

def entryOpKey (e : Tins.Gen.EntryPoints.EntryPoint) : String := e.key.replace " " ""

def yieldsPacket (e : Tins.Gen.EntryPoints.EntryPoint) : Bool := e.isPdu || e.owner == "Internals"

/-- `vh::exc_name` of the exception classes of include/tins/exceptions.h (`tins:<typeid>` = another class derived from
    `exception_base`) -/
def libtinsExceptions : List String :=
  ["malformed_packet", "malformed_option", "option_not_found", "invalid_domain_name", "invalid_address", "field_not_present",
   "invalid_option_value", "option_payload_too_large", "serialization_error", "pdu_not_found", "pdu_not_serializable",
   "bad_tins_cast", "dns_decompression_pointer_loops", "dns_decompression_pointer_out_of_bounds"]

def entrySpec (key out : String) : String :=
  match Tins.Gen.EntryPoints.all.find? (fun e => entryOpKey e == key) with
  | none => s!"violates entry-unknown-key {key}"
  | some e =>
    if out == "ok" || out.startsWith "ok " || out == "null" || out == "throw malformed_packet" then "ok"
    else if out.startsWith "throw " then
      let x := (out.drop 6).toString
      if !yieldsPacket e && (libtinsExceptions.contains x || x.startsWith "tins:") then "ok"
      else s!"violates entry-exception {x}"
    else s!"violates entry-outcome {out}"

/-! the rows whose result is a plain value are compared with the raw-pointer models of TinsModel/Wire/Raw/Misc.lean, evaluated on the
    same bytes (memory = exactly the caller's buffer): `extract_metadata` of IP / TCP / EthernetII / EAPOL (header size, or
    `malformed_packet` below the header size), `hw_address_to_string`, `Utils::crc32` -/

def metaHeaderSize (out : String) : Option Nat :=
  if out.startsWith "ok meta=" then (((out.drop 8).toString.splitOn ",").headD "").toNat? else none

def expectOut {α} (m : Tins.Out α) (okWith : α → String → Bool) (out : String) : Option String :=
  match m with
  | .ok v => if okWith v out then none else some "value"
  | .throw e => if out == "throw " ++ e.name then none else some s!"expected-throw-{e.name}"
  | .fault s => some s!"model-fault {s}"

/-- `none` = no raw model for this row, or the implementation agrees with it -/
def entryModel (key : String) (b : Tins.Bytes) (out : String) : Option String :=
  open Tins.Wire.Raw.Misc in
  if key.startsWith "IP::extract_metadata(" then
    expectOut (ipMetadata b) (fun v o => metaHeaderSize o == some v.1) out
  else if key.startsWith "TCP::extract_metadata(" then
    expectOut (tcpMetadata b) (fun v o => metaHeaderSize o == some v) out
  else if key.startsWith "EthernetII::extract_metadata(" then
    expectOut (ethMetadata b) (fun v o => metaHeaderSize o == some v.1) out
  else if key.startsWith "EAPOL::extract_metadata(" then
    expectOut (eapolMetadata b) (fun v o => metaHeaderSize o == some v) out
  else if key.startsWith "Internals::hw_address_to_string(" then
    expectOut (hwToString b b.length) (fun v o => o == "ok str=" ++ (if v.isEmpty then "-" else v)) out
  else if key.startsWith "Utils::crc32(" then
    expectOut (crc32Raw b b.length) (fun v o => o == s!"ok u32={v}") out
  else none

def entrySpecV (key hex out : String) : String :=
  match entrySpec key out with
  | "ok" =>
    match Tins.Wire.parseHexStr hex with
    | some b =>
      match entryModel key b out with
      | none => "ok"
      | some why => s!"violates entry-raw-model {why} {out}"
    | none => "ok"
  | r => r

/-- stream ops: the oracle is `cursor_safe` itself — only malformed_packet / serialization_error may be thrown -/
def specStep (st : WireSpec.SState) (line : String) : WireSpec.SState × String :=
  match line.splitOn " ||| " with
  | [op, out0] =>
    let out := out0.trimAscii.toString
    match words op with
    | "entry" :: key :: hex :: _ => (st, entrySpecV key hex out)
    | "entry" :: key :: _ => (st, entrySpec key out)
    | w :: _ =>
      if CursorDrv.isCursorOp w then
        if out.startsWith "ok" || out == "throw malformed_packet" || out == "throw serialization_error" then (st, "ok")
        else (st, s!"violates stream-outcome {out}")
      else WireSpec.spec01 st line
    | [] => (st, "bad-line")
  | _ => (st, "bad-line")

def initSpec : WireSpec.SState := {}

end Driver.C01
