import Driver.Wire
import Driver.WireSpec
import Driver.CursorDrv
/- property C01: model mode = the shared wire driver + the stream-model driver; spec mode = WireSpec.spec01 -/
namespace Driver.C01
open Driver

structure St where
  wire : Wire.State := {}
  cur : CursorDrv.St := {}

def step (st : St) (line : String) : St × String :=
  let ws := words line
  match ws with
  | w :: _ =>
    if CursorDrv.isCursorOp w then
      let (c', o) := CursorDrv.step st.cur ws
      ({ st with cur := c' }, o)
    else
      let (w', o) := Wire.step st.wire line
      ({ st with wire := w' }, o)
  | [] => (st, "bad-op")

def initModel : St := {}

/-- stream ops: the oracle is `cursor_safe` itself — only malformed_packet / serialization_error may be thrown -/
def specStep (st : WireSpec.SState) (line : String) : WireSpec.SState × String :=
  match line.splitOn " ||| " with
  | [op, out0] =>
    let out := out0.trimAscii.toString
    match words op with
    | w :: _ =>
      if CursorDrv.isCursorOp w then
        if out.startsWith "ok" || out == "throw malformed_packet" || out == "throw serialization_error" then (st, "ok")
        else (st, s!"violates stream-outcome {out}")
      else WireSpec.spec01 st line
    | [] => (st, "bad-line")
  | _ => (st, "bad-line")

def initSpec : WireSpec.SState := {}

end Driver.C01
