import Driver.Wire
import Driver.WireSpec
/- property C01: model mode = the shared wire driver; spec mode = Driver.WireSpec.spec01 -/
namespace Driver.C01
open Driver

def step := Wire.step
def initModel : Wire.State := {}
def specStep := WireSpec.spec01
def initSpec : WireSpec.SState := {}

end Driver.C01
