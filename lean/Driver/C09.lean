import TinsModel.Crypto.Handshake
import TinsModel.Crypto.Hash
import TinsModel.Crypto.Aes
import TinsModel.Crypto.Spec
import TinsModel.Crypto.SpecKdf
import Driver.Util
/- line-protocol driver for property C09 (WEP / TKIP / CCMP decryption): model mode and spec (oracle) mode -/
namespace Driver.C09
open Driver Tins.Crypto

/-- the external parsers reachable from `SNAP`: modelled for ARP and for ether types libtins does not know
    (RawPDU); everything else is reported as `pdu9999` (the generators do not produce such payloads) -/
def innerParser : InnerParser := fun eth rest =>
  if eth == 0x0806 then
    if rest.length < 28 then .error .malformedPacket
    else .ok (.pdu 29 (if rest.length > 28 then some (rest.drop 28) else none))
  else if eth == 0x888e then
    match parseEapol rest with
    | .ok (some e) => .ok (.eapol e)
    | .ok none => .ok (if rest.getD 4 0 == 1 then .pdu 36 none else .none)
    | .error e => .error e
  else if [0x0800, 0x86dd, 0x8863, 0x8864, 0x8100, 0x88a8, 0x9100, 0x8847].contains eth then
    .ok (.pdu 9999 none)
  else .ok (.raw rest)

def aes : Bytes → BlockFn := fun key => Aes.encryptBlockW (Aes.expandKey key)

def prf : Bytes → Bytes → Bytes := Hash.hmacSha1
def micf : Bool → Bytes → Bytes → Bytes := fun ccmp => if ccmp then Hash.hmacSha1 else Hash.hmacMd5

structure MState where
  wep : WepPasswords := []
  wpa : Wpa2State := {}
  /-- the stand-alone `RSNHandshakeCapturer` of the harness -/
  cap : Capturer := {}

def showSnapInner : SnapInner → String
  | .none => "none"
  | .raw b => "raw:" ++ toHex b
  | .pdu t _ => s!"pdu{t}"
  | .eapol _ => "pdu37"

def showInner : Inner → String
  | .none => "none"
  | .raw b => "raw:" ++ toHex b
  | .snap s => s!"snap:{s.dsap.toNat},{s.ssap.toNat},{s.control.toNat},{s.org},{s.eth}:" ++ showSnapInner s.inner

def showFrame (r : String) (fr : Frame) : String :=
  s!"r={r} prot={if fr.hdr.wep then 1 else 0} inner={showInner fr.inner}"

def showKeys (keys : KeyTable) : String :=
  if keys.isEmpty then "-" else
  let items := keys.map fun (p, k) => (toHex p.1 ++ toHex p.2, s!"{toHex p.1}{toHex p.2}:{if k.isCcmp then 1 else 0}:{toHex k.ptk}")
  let sorted := items.foldl (fun acc x =>
    let (lo, hi) := acc.partition (fun y => y.1 ≤ x.1)
    lo ++ [x] ++ hi) []
  joinWith "," (sorted.map (·.2))

def parseAddr (s : String) : Option Bytes :=
  match parseHex s with
  | some b => if b.length == 6 then some b else none
  | none => none

def showEvents (ev : List Event) : String :=
  if ev.isEmpty then "-" else
  joinWith "," (ev.map fun
    | .apFound ssid b => s!"ap:{toHex ssid}:{toHex b}"
    | .handshake ssid b c => s!"hs:{toHex ssid}:{toHex b}:{toHex c}")

/-- the key-table entries announced by the handshake callbacks of a `decrypt` call -/
def showLearned (keys : KeyTable) (ev : List Event) : String :=
  let items := ev.filterMap fun
    | .handshake _ b c =>
      let p := makeAddrPair b c
      some (match lookup keys p with
        | some k => s!"{toHex p.1}{toHex p.2}:{if k.isCcmp then 1 else 0}:{toHex k.ptk}"
        | none => s!"{toHex p.1}{toHex p.2}:none")
    | _ => none
  if items.isEmpty then "-" else joinWith "," items

def showHandshakes (hs : List Handshake) : String :=
  if hs.isEmpty then "-" else
  joinWith "," (hs.map fun h =>
    s!"{toHex h.a1}{toHex h.a2}/{h.msgs.length}" ++ String.join (h.msgs.map fun e => s!"/{(fnv e.serialize).toNat}"))

def kvOf (ws : List String) (key : String) : Option String :=
  ws.findSome? (fun w => if w.startsWith (key ++ "=") then some ((w.drop (key.length + 1)).toString) else none)

def step (st : MState) (line : String) : MState × String :=
  match words line with
  | "case" :: _ => ({}, "case")
  | "weppw" :: a :: k :: _ =>
    match parseAddr a, parseHex k with
    | some a, some k => ({ st with wep := insertKV st.wep a k }, "ok")
    | _, _ => (st, "bad-op")
  | "weprm" :: a :: _ =>
    match parseAddr a with
    | some a => ({ st with wep := eraseK st.wep a }, "ok")
    | none => (st, "bad-op")
  | ["aes", k, b] =>
    match parseHex k, parseHex b with
    | some k, some b => (st, "aes " ++ toHex (aes k b))
    | _, _ => (st, "bad-op")
  | "keys" :: _ => (st, "keys=" ++ showKeys st.wpa.keys)
  | "ptk" :: a :: b :: k :: c :: _ =>
    match parseAddr a, parseAddr b, parseHex k with
    | some a, some b, some k =>
      if k.length != 80 then (st, "throw invalid_handshake keys=" ++ showKeys st.wpa.keys) else
      let st' := { st with wpa := { st.wpa with keys := addDecryptionKeys st.wpa.keys a b ⟨k, c == "1"⟩ } }
      (st', "ok keys=" ++ showKeys st'.wpa.keys)
    | _, _, _ => (st, "bad-op")
  | "apdata" :: psk :: ssid :: rest =>
    -- PBKDF2-HMAC-SHA1 is a parameter of the model: its value for this (psk, ssid) comes with the op line
    match parseHex psk, parseHex ssid, (kvOf rest "pmk").bind parseHex with
    | some psk, some ssid, some pmk => ({ st with wpa := st.wpa.addApDataPsk (fun _ _ _ _ => pmk) psk ssid }, "ok ev=-")
    | _, _, _ => (st, "bad-op")
  | "apaddr" :: psk :: ssid :: a :: rest =>
    match parseHex psk, parseHex ssid, parseAddr a, (kvOf rest "pmk").bind parseHex with
    | some psk, some ssid, some a, some pmk =>
      match (st.wpa.addApDataPsk (fun _ _ _ _ => pmk) psk ssid).addAccessPoint ssid a with
      | some (w, ev) => ({ st with wpa := w }, "ok ev=" ++ showEvents ev)
      | none => (st, "throw runtime_error")
    | _, _, _, _ => (st, "bad-op")
  | op :: f :: _ =>
    if op != "wep" && op != "wpa" then (st, "bad-op") else
    match parseHex f with
    | none => (st, "bad-op")
    | some f =>
      match parseFrame innerParser f with
      | .throw e => (st, "parse-throw " ++ e.name)
      | .fault s i l => (st, s!"FAULT model {s} {i} {l}")
      | .ok parsed =>
        if op == "wep" then
          match parsed with
          | .data fr =>
            match wepDecrypt innerParser st.wep fr with
            | .ok (r, fr') => (st, showFrame (if r then "1" else "0") fr')
            | .throw e => (st, showFrame ("throw:" ++ e.name) fr)
            | .fault s i l => (st, s!"FAULT model {s} {i} {l}")
          | _ => (st, "r=0 nodata")
        else
          -- the stand-alone capturer of the harness sees the frame first
          let (cap2, c2) : Capturer × Bool := match parsed with
            | .data fr => match fr.inner.findEapol with
              | some e => st.cap.process fr.hdr e
              | none => (st.cap, false)
            | _ => (st.cap, false)
          let hsTxt := s!" cap={if c2 then 1 else 0} hs={showHandshakes cap2.completed}"
          let st := { st with cap := { cap2 with completed := [] } }
          -- what the parsers made of the frame
          let parsedTxt : String := match parsed with
            | .data fr => match fr.inner.findEapol with
              | some e => s!" e={e.key.length}/{e.serialize.length}/{(fnv e.serialize).toNat}"
              | none => ""
            | .beacon a3 ssid => s!" b={toHex a3}/" ++ (match ssid with | some s => "s" ++ toHex s | none => "none")
            | .notData => ""
          match wpa2Decrypt innerParser aes prf micf st.wpa parsed with
          | .ok (w, r, p', ev) =>
            let st' := { st with wpa := w }
            let tail := hsTxt ++ s!" ev={showEvents ev} nk={w.keys.length} lk={showLearned w.keys ev}" ++ parsedTxt
            match p' with
            | .data fr' => (st', showFrame (if r then "1" else "0") fr' ++ tail)
            | _ => (st', s!"r={if r then 1 else 0} nodata" ++ tail)
          | .throw e =>
            let tail := hsTxt ++ s!" ev=- nk={st.wpa.keys.length} lk=-" ++ parsedTxt
            match parsed with
            | .data fr => (st, showFrame ("throw:" ++ e.name) fr ++ tail)
            | _ => (st, s!"r=throw:{e.name} nodata" ++ tail)
          | .fault s i l => (st, s!"FAULT model {s} {i} {l}")
  | _ => (st, "bad-op")

def initModel : MState := {}

/-! ### spec (oracle) mode — see `TinsModel/Crypto/Spec.lean`

Each line is `<op> [@ <annotation>] ||| <implementation output>`.  Annotations (written by the generator):
  `@ enc wep  <keyhex> <pthex> <snapok>`   the body is the WEP encapsulation of pt under key
  `@ enc tkip <tkhex>  <pthex> <snapok>`   … TKIP … under temporal key tk (TA = addr2 of the frame)
  `@ enc ccmp <tkhex>  <pthex> <snapok>`   … CCMP …
`snapok` = 1 when pt is a well-formed LLC/SNAP payload (so the frame must be reported as decrypted).
The oracle re-derives the body with the Lean reference encryptor (`generator-claim`), and demands
  roundtrip : claim holds ∧ the key is installed for the frame's BSSID / {RA, TA} pair ∧ snapok → r=1, prot=0, payload = pt
  reject    : r=1 → some installed key verifies the integrity tag of the body and the payload is its decapsulation
  michael   : r=1 on a TKIP frame → the Michael value of the decapsulated MSDU verifies
  throws    : decrypt never throws.
-/

structure OState where
  wep : List (Bytes × Bytes) := []
  keys : List ((Bytes × Bytes) × (Bytes × Bool)) := []
  /-- networks registered with `add_ap_data`: ssid → PMK (the PBKDF2 value given on the op line; first registration counts) -/
  pmks : List (Bytes × Bytes) := []
  /-- access points whose network is known: bssid → (ssid, PMK) -/
  aps : List (Bytes × (Bytes × Bytes)) := []
  /-- position of every (access point, station) pair in the handshake grammar `Spec.Phase.next`, messages as frame bytes -/
  phases : List ((Bytes × Bytes) × Spec.Phase Bytes) := []
  /-- key-table entries the specification says are known by now (sorted pair → PTK, CCMP?) -/
  expect : List ((Bytes × Bytes) × (Bytes × Bool)) := []
  /-- a beacon-subtype frame the specification does not interpret (to/from-DS bits set) has been seen: libtins may know
      access points the oracle does not, so the beacon clauses keep quiet from here on -/
  oddBeacon : Bool := false

def kv (ws : List String) (key : String) : Option String :=
  ws.findSome? (fun w => if w.startsWith (key ++ "=") then some ((w.drop (key.length + 1)).toString) else none)

def bytesLe (a b : Bytes) : Bool := toHex a ≤ toHex b
def sortPair (a b : Bytes) : Bytes × Bytes := if bytesLe a b then (a, b) else (b, a)

/-- the payload bytes an `inner=` description stands for, and whether the description is exact -/
def innerBytes (s : String) : Option (Bytes × Bool) :=
  match s.splitOn ":" with
  | "snap" :: f :: rest =>
    match (f.splitOn ",").map String.toNat? with
    | [some d, some sa, some c, some org, some eth] =>
      let hd : Bytes := [d.toUInt8, sa.toUInt8, c.toUInt8, (org / 65536).toUInt8, (org / 256 % 256).toUInt8, (org % 256).toUInt8,
                         (eth / 256).toUInt8, (eth % 256).toUInt8]
      match rest with
      | ["none"] => some (hd, true)
      | ["raw", h] => (parseHex h).map fun b => (hd ++ b, true)
      | _ => some (hd, false)
    | _ => none
  | _ => none

def payloadMatches (inner : String) (pt : Bytes) : Bool :=
  match innerBytes inner with
  | some (b, true) => b == pt
  | some (b, false) => b == pt.take 8
  | none => false

def specBssid (h : Bytes) : Bytes :=
  let toDS := h.getD 1 0 &&& 1 != 0
  let fromDS := h.getD 1 0 &&& 2 != 0
  if toDS && !fromDS then (h.drop 4).take 6
  else if fromDS && !toDS then (h.drop 10).take 6
  else (h.drop 16).take 6      -- IBSS: addr3.  WDS (both set) has no BSSID: libtins' choice (addr3) is taken as the API

/-- the (host, access point) pair a frame's pairwise key belongs to: receiver and transmitter of an infrastructure
    frame.  For IBSS and 4-address frames the documented API says nothing; libtins' convention (addr2, addr3) is taken. -/
def specPair (h : Bytes) : Bytes × Bytes :=
  let toDS := h.getD 1 0 &&& 1 != 0
  let fromDS := h.getD 1 0 &&& 2 != 0
  if toDS != fromDS then sortPair ((h.drop 4).take 6) ((h.drop 10).take 6)
  else sortPair ((h.drop 10).take 6) ((h.drop 16).take 6)

def decapWith (cipher : String) (key : Bytes) (h body : Bytes) : Option (Bytes × Option Bytes) :=
  if cipher == "wep" then (Spec.wepDecap key body).map fun m => (m, none)
  else if cipher == "ccmp" then (Spec.ccmpDecap (aes ((key.drop 32).take 16)) h body).map fun m => (m, none)
  else (Spec.tkipDecap ((key.drop 32).take 16) ((h.drop 10).take 6) body).map fun (m, mic) => (m, some mic)

def judge (st : OState) (op : String) (frame : Bytes) (ann : List String) (out : String) : String :=
  let ow := words out
  if out.startsWith "parse-throw" || out.startsWith "r=0 nodata" then "ok" else
  match kv ow "r", kv ow "prot", kv ow "inner" with
  | some r, some prot, some inner =>
    if r.startsWith "throw" then s!"violates throws {r}" else
    let subtype := (frame.getD 0 0 >>> 4).toNat
    if subtype ≥ 4 && subtype ≤ 7 || subtype ≥ 12 then "unspecified" else
    let hl := Spec.hdrLen frame
    if frame.length < hl then (if r == "1" then "violates reject short-frame" else "ok") else
    let h := frame.take hl
    let body := frame.drop hl
    -- a frame that is not protected is none of the decrypters' business
    if frame.getD 1 0 &&& 0x40 == 0 then
      (if r == "1" then "violates unprotected-frame-reported-decrypted"
       else if !body.isEmpty && inner == "none" then "violates unprotected-frame-damaged" else "ok") else
    -- installed keys, as (cipher, key material) candidates
    let cands : List (String × Bytes) :=
      if op == "wep" then st.wep.map fun (_, k) => ("wep", k)
      else st.keys.map fun (_, (k, c)) => (if c then "ccmp" else "tkip", k)
    let keyFor : Option (String × Bytes) :=
      if op == "wep" then (lookup st.wep (specBssid h)).map fun k => ("wep", k)
      else (lookup st.keys (specPair h)).map fun (k, c) => (if c then "ccmp" else "tkip", k)
    -- 1. the generator's claim, re-derived with the Lean reference encryptor
    let claim : Option (Except String (String × Bytes × Bytes × Bool)) :=
      match ann with
      | ["enc", cipher, keyh, pth, ok] =>
        match parseHex keyh, parseHex pth with
        | some key, some pt =>
          let good :=
            if cipher == "wep" then Spec.wepEncap key (body.take 3) (body.getD 3 0) pt == body
            else if cipher == "ccmp" then
              Spec.ccmpEncap (aes key) h (Spec.ccmpPnOf body) (body.getD 3 0) pt == body
            else
              match Spec.tkipDecap key ((h.drop 10).take 6) body with
              | some (m, mic) => m == pt && Spec.tkipEncap key ((h.drop 10).take 6) (Spec.tkipTscOf body) (body.getD 3 0) pt mic == body
              | none => false
          if good then some (.ok (cipher, key, pt, ok == "1")) else some (.error s!"violates generator-claim {cipher}")
        | _, _ => some (.error "violates bad-annotation")
      | _ => none
    match claim with
    | some (.error e) => e
    | _ =>
    -- 2. round trip
    let rt : Option String :=
      match claim, keyFor with
      | some (.ok (cipher, key, pt, true)), some (kc, kk) =>
        let same := kc == cipher && (if cipher == "wep" then kk == key else (kk.drop 32).take 16 == key)
        if same && !(r == "1" && prot == "0" && payloadMatches inner pt) then
          some s!"violates roundtrip {cipher} r={r} prot={prot}" else none
      | _, _ => none
    match rt with
    | some e => e
    | none =>
    -- 3. reject / michael
    if r == "1" then
      let verified := cands.filterMap fun (c, k) =>
        match decapWith c k h body with
        | some (m, mic) => if payloadMatches inner m then some (c, k, m, mic) else none
        | none => none
      match verified with
      | [] => "violates reject reported-decrypted-but-no-installed-key-verifies"
      | (_, k, m, some mic) :: _ => if Spec.michaelVerifies k h m mic then "ok" else "violates tkip-michael"
      | _ => if prot == "0" then "ok" else "violates still-marked-protected"
    else "ok"
  | _, _, _ => "violates unparsable-output"

/-- does an unprotected data frame carry the EAPOL EtherType anywhere behind its MAC header? -/
def mightBeEapol (f : Bytes) : Bool :=
  let rec has : Bytes → Bool
    | a :: b :: r => (a == 0x88 && b == 0x8e) || has (b :: r)
    | _ => false
  (f.getD 0 0 >>> 2) &&& 3 == 2 && f.getD 1 0 &&& 0x40 == 0 && has (f.drop 24)

/-- **Key management clauses** (theorems `handshake_complete_all_histories`, `keys_after_valid_history`,
    `derive_keys_is_prf512`), evaluated on the frame bytes and the implementation's output alone:
    the oracle follows every (access point, station) pair through the grammar ( M1⁺ [ M2⁺ [ M3⁺ [ M4⁺ ] ] ] )* and demands
      handshake-complete : `process_packet` returns true exactly on a message 4 that completes an attempt, and hands over
                           [last M1, first M2, first M3, M4] of that attempt;
      keys-learned       : if the access point's network is known and the Key MIC of message 4 verifies under the KCK of
                           PRF(PMK, "Pairwise key expansion", Min/Max addresses ‖ Min/Max nonces) — computed here from the
                           specification — the handshake is reported and the key-table entry is exactly that PTK;
                           if the MIC does not verify nothing is learned.
    A pair whose messages leave the grammar gets no verdict until its next message 1. -/
def hsClause (st : OState) (kf : Spec.KeyFrame) (out : String) : OState × String × Option ((Bytes × Bytes) × (Bytes × Bool)) :=
  let pair := (kf.ap, kf.sta)
  let ow := words out
  let cap := (kv ow "cap").getD ""
  let hsTxt := (kv ow "hs").getD ""
  let ev := ((kv ow "ev").getD "").splitOn ","
  let lk := ((kv ow "lk").getD "").splitOn ","
  match Spec.msgOfInfo (Spec.keyInfoOf kf.eapol) with
  | none => (st, "ok", none)
  | some c =>
    let dirOk := (c == .m1 || c == .m3) == kf.fromAp
    let ph := (lookup st.phases pair).getD .start
    if !dirOk then ({ st with phases := insertKV st.phases pair .start }, "unspecified", none) else
    match ph.next c kf.eapol with
    | none => ({ st with phases := insertKV st.phases pair .start }, "unspecified", none)
    | some (ph', none) =>
      ({ st with phases := insertKV st.phases pair ph' },
        if cap == "0" then "ok" else s!"violates handshake-complete spurious cap={cap}", none)
    | some (ph', some (f1, f2, f3, f4)) =>
      let st := { st with phases := insertKV st.phases pair ph' }
      let (lo, hi) := sortPair kf.ap kf.sta
      let wantHs := s!"{toHex lo}{toHex hi}/4/{(fnv f1).toNat}/{(fnv f2).toNat}/{(fnv f3).toNat}/{(fnv f4).toNat}"
      if cap != "1" then (st, s!"violates handshake-complete not-completed cap={cap}", none)
      else if hsTxt != wantHs then (st, "violates handshake-complete wrong-messages", none)
      else
      match lookup st.aps kf.ap with
      | none => (st, "ok", none)
      | some (ssid, pmk) =>
        let ver := Spec.descriptorVersion f4
        if ver != 1 && ver != 2 then (st, "unspecified", none) else
        match Spec.sessionKeys Hash.hmacSha1 Hash.hmacMd5 Hash.hmacSha1 pmk kf.ap kf.sta (Spec.field f3 .nonce)
            (Spec.field f2 .nonce) ver f4 (Spec.field f4 .mic) with
        | some (ptk, ccmp) =>
          let st := { st with keys := insertKV st.keys (lo, hi) (ptk, ccmp), expect := insertKV st.expect (lo, hi) (ptk, ccmp) }
          let wantEv := s!"hs:{toHex ssid}:{toHex kf.ap}:{toHex kf.sta}"
          let wantLk := s!"{toHex lo}{toHex hi}:{if ccmp then 1 else 0}:{toHex ptk}"
          let now := some ((lo, hi), (ptk, ccmp))
          if !ev.contains wantEv then (st, "violates keys-learned handshake-not-reported", now)
          else if !lk.contains wantLk then (st, "violates keys-learned ptk-is-not-the-prf-of-the-last-attempt", now)
          else (st, "ok", now)
        | none => (st, if ev.any (·.startsWith "hs:") then "violates keys-learned mic-does-not-verify" else "ok", none)

/-- a beacon of a network registered with `add_ap_data` makes its BSSID known (once) -/
def beaconClause (st : OState) (bssid : Bytes) (ssid : Option Bytes) (out : String) : OState × String :=
  let ev := ((kv (words out) "ev").getD "").splitOn ","
  let learned := match lookup st.aps bssid, ssid with
    | none, some s => (lookup st.pmks s).map fun pmk => (s, pmk)
    | _, _ => none
  match learned with
  | some (s, pmk) =>
    ({ st with aps := (bssid, (s, pmk)) :: st.aps },
      if st.oddBeacon then "unspecified"
      else if ev.contains s!"ap:{toHex s}:{toHex bssid}" then "ok" else "violates access-point-not-learned-from-beacon")
  | none => (st, if st.oddBeacon then "unspecified"
      else if ev.any (·.startsWith "ap:") then "violates access-point-reported-without-reason" else "ok")

def worse (a b : String) : String := if a.startsWith "violates" then a else if b.startsWith "violates" then b else if a == "ok" then b else a

def specStep (st : OState) (line : String) : OState × String :=
  match line.splitOn " ||| " with
  | [opl, out] =>
    let (opw, ann) := match (words opl).span (· != "@") with
      | (a, _ :: b) => (a, b)
      | (a, []) => (a, [])
    match opw with
    | "case" :: _ => ({}, "ok")
    | "apdata" :: _psk :: ssid :: rest =>
      match parseHex ssid, (kv rest "pmk").bind parseHex with
      | some ssid, some pmk => ({ st with pmks := insertIfAbsent st.pmks ssid pmk }, "ok")
      | _, _ => (st, "unspecified")
    | "apaddr" :: _psk :: ssid :: a :: rest =>
      match parseHex ssid, parseAddr a, (kv rest "pmk").bind parseHex with
      | some ssid, some a, some pmk =>
        let pmks := insertIfAbsent st.pmks ssid pmk
        let st := { st with pmks := pmks }
        match lookup pmks ssid, lookup st.aps a with
        | some p, none =>
          ({ st with aps := (a, (ssid, p)) :: st.aps },
            if out.startsWith s!"ok ev=ap:{toHex ssid}:{toHex a}" then "ok" else "violates access-point-not-registered")
        | _, _ => (st, "ok")
      | _, _, _ => (st, "unspecified")
    | ["weppw", a, k] =>
      match parseAddr a, parseHex k with
      | some a, some k => ({ st with wep := insertKV st.wep a k }, "ok")
      | _, _ => (st, "unspecified")
    | ["weprm", a] =>
      match parseAddr a with
      | some a => ({ st with wep := eraseK st.wep a }, "ok")
      | none => (st, "unspecified")
    | ["ptk", a, b, k, c] =>
      match parseAddr a, parseAddr b, parseHex k with
      | some a, some b, some k =>
        if k.length != 80 then (st, if out.startsWith "throw invalid_handshake" then "ok" else "violates ptk-size-not-rejected")
        else ({ st with keys := insertKV st.keys (sortPair a b) (k, c == "1") }, "ok")
      | _, _, _ => (st, "unspecified")
    | ["keys"] =>
      match kv (words out) "keys" with
      | none => (st, "violates unparsable-output")
      | some ks =>
        let have_ := ks.splitOn ","
        -- every entry the specification derived from the histories seen so far is in the key table
        let own := st.expect.all fun ((lo, hi), (ptk, c)) => have_.contains s!"{toHex lo}{toHex hi}:{if c then 1 else 0}:{toHex ptk}"
        if !own then (st, "violates keys-learned key-table-entry-missing-or-wrong") else
        match ann with
        | ["expect", entry] => (st, if have_.contains entry then "ok" else "violates learned-key-missing-or-wrong")
        | _ => (st, "ok")
    | [op, f] =>
      if op != "wep" && op != "wpa" then (st, "unspecified") else
      match parseHex f with
      | some frame =>
        -- key management, from the frame bytes alone (a frame libtins refused to parse never reached the decrypter)
        let (st, own, now) : OState × String × Option ((Bytes × Bytes) × (Bytes × Bool)) :=
          if op != "wpa" || out.startsWith "parse-throw" then (st, "ok", none) else
          match Spec.beaconOf frame with
          | some (bssid, ssid) => let r := beaconClause st bssid ssid out; (r.1, r.2, none)
          | none =>
            match Spec.keyFrameOf frame with
            | some kf => hsClause st kf out
            | none =>
              if mightBeEapol frame then ({ st with phases := [] }, "ok", none)
              else if frame.getD 0 0 == 0x80 then ({ st with oddBeacon := true }, "unspecified", none)
              else (st, "ok", none)
        match ann with
        | ["learn", a, b, k, c] =>
          -- the generator's claim: a valid handshake history for a known network ends here with this PTK
          match parseAddr a, parseAddr b, parseHex k with
          | some a, some b, some k =>
            -- only a cross-check of what the oracle derived itself from the frames of this case (a shrunk case may have
            -- lost the frames that made the claim true: then the oracle has derived nothing and says nothing)
            match now with
            | some v => (st, worse own (if v == (sortPair a b, (k, c == "1")) then "ok" else "violates generator-claim learn"))
            | none => (st, worse own "unspecified")
          | _, _, _ => (st, "violates bad-annotation")
        | ["nolearn"] =>
          let ev := (kv (words out) "ev").getD ""
          (st, worse own (if (ev.splitOn ",").any (·.startsWith "hs:") then "violates keys-learned-with-wrong-psk" else "ok"))
        | _ => (st, worse own (judge st op frame ann out))
      | none => (st, "unspecified")
    | _ => (st, "unspecified")
  | _ => (st, "bad-line")

def initSpec : OState := {}

end Driver.C09
