import TinsModel.Follower.Spec
import TinsModel.Follower.Defaults
import Driver.Util
/- line-protocol driver for property C07 (StreamFollower): model mode and spec (oracle) mode.
   Line formats: see harness/c07_follower.cpp. -/
namespace Driver.C07
open Tins Tins.DT Tins.SF Driver

def hexToNat (s : String) : Option Nat := (parseHex s).map (fun bs => bs.foldl (fun a b => a * 256 + b.toNat) 0)

def natToHex (digits n : Nat) : String :=
  String.ofList ((List.range digits).reverse.map (fun i => hexChar ((n / 16 ^ i) % 16)))

def addrHex (v6 : Bool) (a : Nat) : String := natToHex (if v6 then 32 else 8) a

def kvOf (ws : List String) (key : String) : Option String :=
  ws.findSome? (fun w => if w.startsWith (key ++ "=") then some ((w.drop (key.length + 1)).toString) else none)

def kvNat (ws : List String) (key : String) (dflt : Nat) : Nat := ((kvOf ws key).bind (·.toNat?)).getD dflt

def showSid (s : Sid) : String :=
  s!"{if s.v6 then "v6" else "v4"}:{addrHex s.v6 s.caddr}:{s.cport}>{addrHex s.v6 s.saddr}:{s.sport}"

def b01 (b : Bool) : String := if b then "1" else "0"

def stateName : FState → String
  | .unknown => "UNKNOWN" | .synSent => "SYN_SENT" | .established => "ESTABLISHED"
  | .finSent => "FIN_SENT" | .rstSent => "RST_SENT"

def reasonName : Reason → String
  | .timeout => "TIMEOUT" | .bufferedData => "BUFFERED_DATA" | .sackedSegments => "SACKED_SEGMENTS"

def realBytes (f : Flow) : Nat := (f.tr.buf.map (fun c => c.2.length)).sum

def showIvs (s : Ack.ISet) : String :=
  if s.isEmpty then "-" else joinWith "," (s.map (fun i => s!"{i.lo}-{i.hi}"))

def showStatus (s : Stream) : String :=
  let c := s.client; let v := s.server
  s!"{showSid s.sid} partial={b01 s.isPartial} cst={stateName c.state} sst={stateName v.state} " ++
  s!"cseq={c.tr.seq} sseq={v.tr.seq} cch={c.tr.buf.length} sch={v.tr.buf.length} cb={c.tr.total} sb={v.tr.total} " ++
  s!"real={realBytes c + realBytes v} cpl={c.tr.payload.length} spl={v.tr.payload.length} " ++
  s!"cmss={c.mss} smss={v.mss} csack={b01 c.sackPermitted} ssack={b01 v.sackPermitted} " ++
  s!"created={s.createTime} seen={s.lastSeen} ctrk={b01 c.ackTracking} strk={b01 v.ackTracking} " ++
  s!"cak={c.ackTr.ack} sak={v.ackTr.ack} civn={c.ackTr.ivs.length} sivn={v.ackTr.ivs.length} " ++
  s!"civ={showIvs c.ackTr.ivs} siv={showIvs v.ackTr.ivs} rec={b01 (c.recEnd.isSome || v.recEnd.isSome)}"

/-- `ooo`: the out-of-order callbacks are installed; `cbs`: the stream callbacks are installed at all (they are installed
    in the new-stream callback: without one only the follower's termination callback is observable) -/
def showEv {κ} (ooo cbs : Bool) : Ev κ → Option String
  | .new _ sid p => if cbs then some s!"new {showSid sid} partial={b01 p}" else none
  | .ooo _ sid c q d => if ooo && cbs then some s!"{if c then "cooo" else "sooo"} {showSid sid} seq={q} len={d.length} h={fnv d}" else none
  | .data _ sid c pl => if cbs then some s!"{if c then "cdata" else "sdata"} {showSid sid} len={pl.length} h={fnv pl}" else none
  | .closed _ sid => if cbs then some s!"closed {showSid sid}" else none
  | .term _ sid r ch by_ sk => some s!"term {showSid sid} {reasonName r} chunks={ch} bytes={by_} sacked={sk}"

/-- a limit a case line does not mention keeps the value of a default-constructed `StreamFollower`: `dflt` is
    `Cfg.ofSource` (generated from the current source) on the model side and `Cfg.documented` on the oracle's side -/
def parseCfg (dflt : Cfg) (ws : List String) : Cfg × Bool :=
  ({ attach := kvNat ws "attach" 0 == 1, maxChunks := kvNat ws "maxc" dflt.maxChunks, maxBytes := kvNat ws "maxb" dflt.maxBytes,
     keepAlive := kvNat ws "ka" dflt.keepAlive, acl := kvNat ws "acl" 1 == 1, maxSacked := kvNat ws "maxs" 1024,
     ackC := (kvNat ws "ack" 0) % 2 == 1, ackS := (kvNat ws "ack" 0) / 2 % 2 == 1, useSack := kvNat ws "usesack" 0 == 1,
     ignC := (kvNat ws "ign" 0) % 2 == 1, ignS := (kvNat ws "ign" 0) / 2 % 2 == 1, cbSet := kvNat ws "nocb" 0 != 1,
     recovery := ((kvOf ws "rec").bind (·.toNat?)).map (· % 4294967296) },
   kvNat ws "ooo" 0 == 1)

/-- the SACK option of a `pkt` line: `sk=<-|edge,..>` is `TCP::sack(edges)` (then read back through the option bytes),
    `skraw=<hex>` is an option with arbitrary data -/
def parseSack (rest : List String) : Option Ack.SackOpt :=
  match kvOf rest "sk", kvOf rest "skraw" with
  | some l, _ =>
    if l == "-" then some (Ack.decodeSack (Ack.encodeEdges []))
    else ((l.splitOn ",").mapM String.toNat?).map (fun es => Ack.decodeSack (Ack.encodeEdges (es.map wrap32)))
  | none, some h => (parseHex h).map Ack.decodeSack
  | none, none => some .absent

def parsePkt (ws : List String) : Option Pkt :=
  match ws with
  | _ :: ts :: fam :: src :: sport :: dst :: dport :: flags :: seq :: ack :: pl :: rest => do
    let ts ← ts.toNat?
    let src ← hexToNat src
    let sport ← sport.toNat?
    let dst ← hexToNat dst
    let dport ← dport.toNat?
    let flags ← flags.toNat?
    let seq ← seq.toNat?
    let ack ← ack.toNat?
    let payload ← if pl == "none" then some none else (parseHex pl).map some
    let sack ← parseSack rest
    pure { v6 := fam == "v6", src := src, sport := sport, dst := dst, dport := dport, flags := flags % 4096,
           seq := seq % 4294967296, ack := ack % 4294967296, payload := payload,
           mss := (kvOf rest "mss").bind (·.toNat?), sackOk := rest.contains "sack", ts := ts, sack := sack }
  | _ => none

structure MState where
  cfg : Cfg := Cfg.ofSource
  ooo : Bool := false
  F : Model := Follower.empty

def findStatus (F : Model) (v6 : Bool) (a ap b bp : Nat) : String :=
  match find? F.streams (mkIdent (pad v6 a) ap (pad v6 b) bp) with
  | some s => showStatus s
  | none => "none"

def step (st : MState) (line : String) : MState × String :=
  let ws := words line
  match ws with
  | "case" :: rest => let (c, o) := parseCfg Cfg.ofSource rest; ({ cfg := c, ooo := o, F := Follower.empty }, s!"case maxs={c.maxSacked}")
  | "decl" :: _ => (st, "decl")
  | ["find", fam, a, ap, b, bp] =>
    match hexToNat a, ap.toNat?, hexToNat b, bp.toNat? with
    | some a, some ap, some b, some bp => (st, "find " ++ findStatus st.F (fam == "v6") a ap b bp)
    | _, _, _, _ => (st, "bad-op")
  | "pkt" :: _ =>
    match parsePkt ws with
    | some p =>
      let (F', evs, threw) := Model.stepX st.cfg st.F p
      let es := evs.filterMap (showEv st.ooo st.cfg.cbSet) ++ (if threw then ["exc callback_not_set"] else [])
      ({ st with F := F' }, (if es.isEmpty then "-" else joinWith ";" es) ++ " | " ++ findStatus F' p.v6 p.src p.sport p.dst p.dport)
    | none => (st, "bad-op")
  | _ => (st, "bad-op")

def initModel : MState := {}

/-! ### oracle mode -/

def parseSid (s : String) : Option Sid :=
  match s.splitOn ":" with
  | [fam, ca, mid, sp] =>
    match mid.splitOn ">" with
    | [cp, sa] => do
      let ca ← hexToNat ca; let cp ← cp.toNat?; let sa ← hexToNat sa; let sp ← sp.toNat?
      pure ⟨fam == "v6", ca, cp, sa, sp⟩
    | _ => none
  | _ => none

def parseReason : String → Option Reason
  | "TIMEOUT" => some .timeout | "BUFFERED_DATA" => some .bufferedData | "SACKED_SEGMENTS" => some .sackedSegments
  | _ => none

def parseObsEv (e : String) : Option ObsEv :=
  let ws := words e
  match ws with
  | "new" :: sid :: rest => do
    let sid ← parseSid sid; let p ← kvOf rest "partial"
    pure (.new sid (p == "1"))
  | "cdata" :: sid :: rest => do
    let sid ← parseSid sid; let l ← (kvOf rest "len").bind (·.toNat?); let h ← (kvOf rest "h").bind (·.toNat?)
    pure (.data sid true l h)
  | "sdata" :: sid :: rest => do
    let sid ← parseSid sid; let l ← (kvOf rest "len").bind (·.toNat?); let h ← (kvOf rest "h").bind (·.toNat?)
    pure (.data sid false l h)
  | "cooo" :: sid :: _ => (parseSid sid).map (fun s => .ooo s true)
  | "sooo" :: sid :: _ => (parseSid sid).map (fun s => .ooo s false)
  | ["closed", sid] => (parseSid sid).map .closed
  | "term" :: sid :: r :: rest => do
    let sid ← parseSid sid; let r ← parseReason r
    let c ← (kvOf rest "chunks").bind (·.toNat?); let b ← (kvOf rest "bytes").bind (·.toNat?)
    let sk ← (kvOf rest "sacked").bind (·.toNat?)
    pure (.term sid r c b sk)
  | ["exc", n] => some (.exc n)
  | _ => none

def parseIvs (s : String) : Option (List (Nat × Nat)) :=
  if s == "-" then some [] else
  (s.splitOn ",").mapM (fun item => match item.splitOn "-" with
    | [a, b] => do let a ← a.toNat?; let b ← b.toNat?; pure (a, b)
    | _ => none)

/-- `none` = unparsable, `some none` = no stream -/
def parseStatus (s : String) : Option (Option ObsStatus) :=
  let ws := words s
  match ws with
  | ["none"] => some none
  | sid :: rest => do
    let sid ← parseSid sid
    let g := fun k => (kvOf rest k).bind (·.toNat?)
    let cch ← g "cch"; let sch ← g "sch"; let cb ← g "cb"; let sb ← g "sb"; let real ← g "real"
    let ctrk ← g "ctrk"; let strk ← g "strk"; let cak ← g "cak"; let sak ← g "sak"; let civn ← g "civn"; let sivn ← g "sivn"
    let civ ← kvOf rest "civ"; let siv ← kvOf rest "siv"
    pure (some { sid := sid, cch := cch, sch := sch, cb := cb, sb := sb, real := real,
                 cak := { tracking := ctrk == 1, ack := cak, ivn := civn, ivs := parseIvs civ },
                 sak := { tracking := strk == 1, ack := sak, ivn := sivn, ivs := parseIvs siv } })
  | _ => none

def showVerdict : Verdict → String
  | .ok => "ok" | .unspecified => "unspecified" | .violates c d => s!"violates {c} {d}"

def specStep (o : Oracle) (line : String) : Oracle × String :=
  match line.splitOn " ||| " with
  | [op, out] =>
    let ws := words op
    match ws with
    | "case" :: rest =>
      let c := (parseCfg Cfg.documented rest).1
      -- the limit the check read from the source is the one compiled into the implementation
      if out.trimAscii.toString == s!"case maxs={c.maxSacked}" then ({ cfg := c }, "ok")
      else ({ cfg := c, broken := true }, "violates limit-constant DEFAULT_MAX_SACKED_INTERVALS is not what the check read from the source")
    | ["decl", fam, a, ap, b, bp, isn, hex] =>
      match hexToNat a, ap.toNat?, hexToNat b, bp.toNat?, isn.toNat?, parseHex hex with
      | some a, some ap, some b, some bp, some isn, some d =>
        ({ o with decls := ⟨fam == "v6", ⟨a, ap⟩, ⟨b, bp⟩, isn, d⟩ :: o.decls }, "ok")
      | _, _, _, _, _, _ => ({ o with broken := true }, "bad-line")
    | ["find", fam, a, ap, b, bp] =>
      match hexToNat a, ap.toNat?, hexToNat b, bp.toNat?, parseStatus ((out.drop 5).toString) with
      | some a, some ap, some b, some bp, some st =>
        let (o', v) := o.find (fam == "v6") ⟨a, ap⟩ ⟨b, bp⟩ st
        (o', showVerdict v)
      | _, _, _, _, _ => ({ o with broken := true }, "violates unparsable-output find")
    | "pkt" :: _ =>
      match parsePkt ws, out.splitOn " | " with
      | some p, [evs, st] =>
        let evs := if evs.trimAscii.toString == "-" then some [] else (evs.splitOn ";").mapM parseObsEv
        match evs, parseStatus st with
        | some evs, some st =>
          let (o', v) := o.packet p evs st
          (o', showVerdict v)
        | _, _ => ({ o with broken := true }, "violates unparsable-output pkt")
      | _, _ => ({ o with broken := true }, "violates unparsable-output pkt")
    | _ => (o, "bad-line")
  | _ => (o, "bad-line")

def initSpec : Oracle := {}

end Driver.C07
