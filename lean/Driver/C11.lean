import TinsModel.RadioTap.Spec
import Driver.Util
/- line-protocol driver for RadioTap (property C11): model mode and spec (oracle) mode.
   ops:  tail | new | parse <hex> | set <field> <hex> | add <bit> <hex> | ser <hex|-> -/
namespace Driver.C11
open Tins Tins.RT Driver

def M : Meta := genMeta

/-- what the harness appends to the bytes of a `parse` op: a protected 802.11 data frame header + 4 bytes -/
def tailBytes : Bytes :=
  [0x08, 0x40, 0, 0, 0, 0, 0, 0, 0, 0, 0, 0, 0, 0, 0, 0, 0, 0, 0, 0, 0, 0, 0, 0, 0xc0, 0xc1, 0xc2, 0xc3]

def excName : Exc → String
  | .malformedPacket => "malformed_packet"
  | .malformedOption => "malformed_option"
  | .fieldNotPresent => "field_not_present"

def leNat (bs : Bytes) : Nat := bs.foldr (fun b acc => b.toNat + 256 * acc) 0

def showOut {α} (f : α → String) : Out α → String
  | .ok a => f a
  | .throw e => "!" ++ excName e
  | .fault s => "!FAULT:" ++ s

/-- (bit, width) of the getter `name` in the table generated from src/radiotap.cpp -/
def getterOf (name : String) : Nat × Nat :=
  match Gen.getters.find? (fun g => g.1 == name) with
  | some g => g.2
  | none => (99, 99)

def setterOf (name : String) : Nat × Nat :=
  match Gen.setters.find? (fun g => g.1 == name) with
  | some g => g.2
  | none => (99, 99)

def slice (d : Bytes) (a n : Nat) : Nat := leNat ((d.drop a).take n)

def getInt (buf : Bytes) (name : String) : String :=
  let (b, w) := getterOf name
  showOut (fun d => toString (leNat d)) (getField M buf b w true)

def showState (tag : String) (s : State) : String :=
  let buf := s.payload
  let chf := let (b, w) := getterOf "channel_freq"; showOut (fun d => toString (slice d 0 2)) (getField M buf b w false)
  let cht := let (b, w) := getterOf "channel_type"; showOut (fun d => toString (slice d 2 2)) (getField M buf b w false)
  let xch := let (b, w) := getterOf "xchannel"
    showOut (fun d => s!"{slice d 0 4}/{slice d 4 2}/{slice d 6 1}/{slice d 7 1}") (getField M buf b w false)
  let mcs := let (b, w) := getterOf "mcs"
    showOut (fun d => s!"{slice d 0 1}/{slice d 1 1}/{slice d 2 1}") (getField M buf b w false)
  s!"{tag} pl={toHex buf} pr={showOut toString (present M buf)} hs={4 + buf.length} tr={showOut toString (trailerSize M buf)}" ++
  s!" tsft={getInt buf "tsft"} flags={getInt buf "flags"} rate={getInt buf "rate"} chfreq={chf} chtype={cht}" ++
  s!" dbmsig={getInt buf "dbm_signal"} dbmnoise={getInt buf "dbm_noise"} sq={getInt buf "signal_quality"}" ++
  s!" ant={getInt buf "antenna"} dbsig={getInt buf "db_signal"} rxf={getInt buf "rx_flags"} txf={getInt buf "tx_flags"}" ++
  s!" dr={getInt buf "data_retries"} xch={xch} mcs={mcs}"

def defaultState : State :=
  match defaultCtor M with
  | .ok s => s
  | _ => { payload := zeros 4 }

def stepOut (st : State) (tag : String) : Out State → State × String
  | .ok s => (s, showState tag s)
  | .throw e => (st, "throw " ++ excName e)
  | .fault f => (st, "FAULT model:" ++ f)

def serLine (st : State) (inner : Bytes) : String :=
  match serializeHdr M st inner.length with
  | .throw e => "throw " ++ excName e
  | .fault f => "FAULT model:" ++ f
  | .ok (n, hdr, tr) =>
    let fcs := if tr == 4 then (if inner.isEmpty then "zero" else "ok") else "none"
    let re := match parseCtor M hdr n with
      | .ok (s2, rest) =>
        s!"re={toHex s2.payload} reinner=" ++ (if rest == 0 then "none" else if rest == inner.length then "same" else "diff")
      | .throw e => s!"re=!{excName e} reinner=none"
      | .fault f => s!"re=!FAULT:{f} reinner=none"
    s!"ser n={n} hdr={toHex hdr} body=inner fcs={fcs} {re}"

def step (st : State) (line : String) : State × String :=
  match words line with
  | ["tail"] => (st, "tail " ++ toHex tailBytes)
  | ["new"] => stepOut st "new" (defaultCtor M)
  | ["parse", h] => match parseHex h with
    | some b =>
      let all := b ++ tailBytes
      stepOut defaultState "parsed" ((parseCtor M all all.length).bind (fun r => .ok r.1))
    | none => (st, "bad-op")
  | ["set", f, h] => match parseHex h with
    | some v =>
      let (b, w) := setterOf f
      -- the typed setter writes `w` bytes of the value (C++ integral conversion keeps the low bytes)
      stepOut st "set" (addOption M st b (v.take w))
    | none => (st, "bad-op")
  | ["add", n, h] => match n.toNat?, parseHex h with
    | some b, some v => stepOut st "add" (addOption M st b v)
    | _, _ => (st, "bad-op")
  | ["ser", h] => match parseHex h with
    | some inner => (st, serLine st inner)
    | none => (st, "bad-op")
  | _ => (st, "bad-op")

def initModel : State := defaultState

/-! ### oracle -/

/-- field names of the setters → present bit, from the radiotap standard -/
def stdBit : String → Option Nat
  | "tsft" => some 0 | "flags" => some 1 | "rate" => some 2 | "channel" => some 3
  | "dbm_signal" => some 5 | "dbm_noise" => some 6 | "signal_quality" => some 7 | "antenna" => some 11
  | "db_signal" => some 12 | "rx_flags" => some 14 | "tx_flags" => some 15 | "data_retries" => some 17
  | "xchannel" => some 18 | "mcs" => some 19 | _ => none

structure OState where
  /-- the writes so far (base map first); `none` = the case has left the specified fragment -/
  ws : Option (List (Nat × Bytes)) := none
  version : Nat := 0
  pad : Nat := 0

def kv (ws : List String) (key : String) : Option String :=
  ws.findSome? (fun w => if w.startsWith (key ++ "=") then some ((w.drop (key.length + 1)).toString) else none)

def S : Meta := stdMeta

/-- expected text of a getter that reads the whole field `b` as one little-endian integer -/
def expInt (m : FMap) (b : Nat) : String :=
  match m b with
  | some v => toString (leNat v)
  | none => "!field_not_present"

def expWith (m : FMap) (b : Nat) (f : Bytes → String) : String :=
  match m b with
  | some v => f v
  | none => "!field_not_present"

/-- the (key, expected value) pairs of a state line -/
def expectations (m : FMap) : List (String × String) :=
  let c := canonical S m
  let tr := match m 1 with
    | some v => if byteAt v 0 / 16 % 2 == 1 then "4" else "0"
    | none => "0"
  [("pl", toHex c), ("pr", toString (presentWord (fieldList S m))), ("hs", toString (4 + c.length)), ("tr", tr),
   ("tsft", expInt m 0), ("flags", expInt m 1), ("rate", expInt m 2),
   ("chfreq", expWith m 3 (fun v => toString (slice v 0 2))), ("chtype", expWith m 3 (fun v => toString (slice v 2 2))),
   ("dbmsig", expInt m 5), ("dbmnoise", expInt m 6), ("sq", expInt m 7), ("ant", expInt m 11), ("dbsig", expInt m 12),
   ("rxf", expInt m 14), ("txf", expInt m 15), ("dr", expInt m 17),
   ("xch", expWith m 18 (fun d => s!"{slice d 0 4}/{slice d 4 2}/{slice d 6 1}/{slice d 7 1}")),
   ("mcs", expWith m 19 (fun d => s!"{slice d 0 1}/{slice d 1 1}/{slice d 2 1}"))]

def checkLine (m : FMap) (out : String) : String :=
  let ow := words out
  if out.startsWith "throw" then s!"violates no-throw {out}" else
  match (expectations m).find? (fun e => kv ow e.1 != some e.2) with
  | none => "ok"
  | some e => s!"violates {e.1} expected={e.2} got={(kv ow e.1).getD "missing"}"

def checkSer (o : OState) (m : FMap) (inner : Bytes) (out : String) : String :=
  let ow := words out
  if out.startsWith "throw" then s!"violates no-throw {out}" else
  let c := canonical S m
  let hs := 4 + c.length
  let fcsOn := match m 1 with
    | some v => byteAt v 0 / 16 % 2 == 1
    | none => false
  let badFcs := match m 1 with
    | some v => byteAt v 0 / 64 % 2 == 1
    | none => false
  let tr := if fcsOn then 4 else 0
  let hdr := [UInt8.ofNat o.version, UInt8.ofNat o.pad, UInt8.ofNat (hs % 256), UInt8.ofNat (hs / 256 % 256)] ++ c
  if kv ow "n" != some (toString (hs + inner.length + tr)) then s!"violates ser-size expected={hs + inner.length + tr}"
  else if kv ow "hdr" != some (toHex hdr) then s!"violates ser-header expected={toHex hdr}"
  else if kv ow "body" != some "inner" then "violates ser-inner-bytes"
  else if fcsOn && !inner.isEmpty && kv ow "fcs" != some "ok" then "violates ser-fcs"
  else if !fcsOn && kv ow "fcs" != some "none" then "violates ser-fcs"
  else if inner.isEmpty || (fcsOn && badFcs) then "ok"     -- nothing to re-parse / frames flagged bad-FCS are refused
  else if kv ow "re" != some (toHex c) then s!"violates ser-reparse-fields got={(kv ow "re").getD "missing"}"
  else if kv ow "reinner" != some "same" then "violates ser-reparse-inner"
  else "ok"

/-- spec mode: each input line is `<op> ||| <implementation output>` -/
def specStep (st : OState) (line : String) : OState × String :=
  match line.trimAscii.toString.splitOn " ||| " with
  | [op, out] =>
    match words op with
    | ["tail"] => (st, "ok")
    | ["new"] =>
      let st' : OState := { ws := some defaultWrites }
      (st', checkLine (lastWrite FMap.empty defaultWrites) out)
    | ["parse", h] =>
      match parseHex h with
      | some b =>
        let len := byteAt b 2 + 256 * byteAt b 3
        let fs := if b.length ≥ 8 && len == b.length then decodeCanonical S (b.drop 4) else none
        match fs with
        | some fs =>
          let m := mapOfList fs
          let refused := match m 1 with
            | some v => byteAt v 0 / 16 % 2 == 1 && byteAt v 0 / 64 % 2 == 1
            | none => false
          if refused then ({ ws := none }, "unspecified")
          else ({ ws := some fs, version := byteAt b 0, pad := byteAt b 1 }, checkLine m out)
        | none => ({ ws := none }, "unspecified")
      | none => ({ ws := none }, "unspecified")
    | ["set", f, h] =>
      match st.ws, stdBit f, parseHex h with
      | some ws, some b, some v =>
        if decide (validWrite S (b, v)) then
          let ws' := ws ++ [(b, v)]
          ({ st with ws := some ws' }, checkLine (lastWrite FMap.empty ws') out)
        else ({ st with ws := none }, "unspecified")
      | _, _, _ => ({ st with ws := none }, "unspecified")
    | ["add", n, h] =>
      match st.ws, n.toNat?, parseHex h with
      | some ws, some b, some v =>
        if decide (validWrite S (b, v)) then
          let ws' := ws ++ [(b, v)]
          ({ st with ws := some ws' }, checkLine (lastWrite FMap.empty ws') out)
        else ({ st with ws := none }, "unspecified")
      | _, _, _ => ({ st with ws := none }, "unspecified")
    | ["ser", h] =>
      match st.ws, parseHex h with
      | some ws, some inner => (st, checkSer st (lastWrite FMap.empty ws) inner out)
      | _, _ => (st, "unspecified")
    | _ => ({ st with ws := none }, "unspecified")
  | _ => (st, "bad-line")

def initSpec : OState := { ws := some defaultWrites }

end Driver.C11
